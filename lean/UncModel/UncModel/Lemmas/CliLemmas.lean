import UncModel.Cli
import UncModel.CheckMode
/-! helper lemmas for Props/C10.lean and Props/C12.lean -/
namespace Unc.Cli

/-- a word that does not start with `-` (file names, values) -/
def plain (w : Str) : Prop := w.head? ≠ some '-'

instance (w : Str) : Decidable (plain w) := by unfold plain; infer_instance

theorem plain_ne (w t : Str) (h : plain w) : (w = '-' :: t) = False := by
  cases w with
  | nil => simp
  | cons a r => simp [plain] at h; simp [h]

theorem plain_isPrefixOf (w t : Str) (h : plain w) : List.isPrefixOf ('-' :: t) w = false := by
  cases w with
  | nil => simp [List.isPrefixOf]
  | cons a r => simp [plain] at h; simp [List.isPrefixOf, Ne.symm h]

theorem plain_preMatch (w t : Str) (h : plain w) : preMatch ('-' :: t) w = false := by
  simp [preMatch, plain_isPrefixOf w t h]

/-- every lookup came back empty -/
def Opts.none : Opts :=
  { version := false, help := false, countOptions := false, showConfig := false, check := false, ifChanged := false,
    quiet := false, findDeprecated := false, log := .none, frag := false, decode := false, cfg := .none, parsed := .none,
    dump := .none, showSev := false, tfiles := [], types := [], lang := .none, sourceFile := .none, sourceList := .none,
    pfx := .none, sfx := .none, assume := .none, noBackup := false, replace := false, keepMtime := false,
    updateConfig := false, updateConfigWd := false, detect := false, csv := false, output := .none, tracking := .none,
    sets := [], universalindent := false, unused := [] }

theorem ne_prefix_slash (p n : Str) : (n = p ++ '/' :: n) = False := by
  apply eq_false
  intro h
  have := congrArg List.length h
  simp at this
  omega

theorem ne_append_suffix (n s : Str) (hs : s ≠ []) : (n = n ++ s) = False := by
  apply eq_false
  intro h
  have := congrArg List.length h
  simp at this
  exact hs this

end Unc.Cli

namespace Unc.Cli

/-- `write_byte` appends the same bytes to `fout` and to `bout` -/
theorem writeAll_eq (o : Outs) (bs : Bytes) :
    writeAll o bs = { fout := o.fout.map (· ++ bs), bout := o.bout.map (· ++ bs) } := by
  induction bs generalizing o with
  | nil => cases o with | mk f b => cases f <;> cases b <;> simp [writeAll]
  | cons x xs ih =>
    have : writeAll o (x :: xs) = writeAll (writeByte o x) xs := rfl
    rw [this, ih]
    cases o with | mk f b => cases f <;> cases b <;> simp [writeByte]

@[simp] theorem writeAll_fout_only (bs : Bytes) : (writeAll ⟨some [], none⟩ bs).fout.getD [] = bs := by
  simp [writeAll_eq]

@[simp] theorem writeAll_bout_only (bs : Bytes) : (writeAll ⟨none, some []⟩ bs).bout.getD [] = bs := by
  simp [writeAll_eq]

/-- evaluates every lookup of `parseArgs` on an argv whose shape is known and whose variable words are `plain` -/
macro "parse_simp" : tactic =>
  `(tactic| simp +decide [parseArgs, Args.init, Args.present2, Args.present, Args.param2, Args.param, Args.params,
      Args.paramAll, Args.paramLoop, findEq, findPre, Args.setUsed, Opts.none, Args.unusedAll, Args.unusedLoop,
      Args.unused, Args.unusedFrom, Args.getUsed, plain_ne, plain_preMatch, *])

/-- evaluates `route` and the run on a known `Opts` record -/
macro "route_simp" : tactic =>
  `(tactic| simp +decide [runCli, plan, route, earlyExit, firstSome, exitArgc, exitInfo, exitTypes, exitCsv, exitTracking,
      exitCheckTable, exitReplace, exitConfig, exitSet, exitUniversal, exitDetect, exitUpdate, exitNoConfig, exitMulti,
      exitHeaders, Pre.of, trackingSplit, dispatch, dispatchStdin, dispatchSingle, dispatchMulti, globalsOf, stdinExit, stdinJob, singleMk, multiExit, multiMk, multiJobs,
      Opts.none, setLoop, fileJobs, fileJob, runOutcome, runJobs, execJob,
      World.raw, finalStatus, sinkEffs, sideEffs, makeOutputFilename, ne_prefix_slash, ne_append_suffix, *])

end Unc.Cli

namespace Unc.Cli

/-! ## the delivery modes named by C10 -/

inductive Mode where
  /-- source on stdin, `--assume NAME` -/
  | stdinAssume
  /-- `-f NAME`, output to stdout -/
  | file
  /-- `-f NAME -o OUT` -/
  | fileOut (o : Str)
  /-- positional `NAME` with `--prefix P` -/
  | withPrefix (p : Str)
  /-- positional `NAME` with `--suffix S` -/
  | withSuffix (s : Str)
  /-- positional `NAME`, default suffix `.uncrustify` -/
  | defaultSuffix
  /-- `-F LIST`, the list names `NAME` -/
  | list (l : Str)
  /-- `-F -`, the list comes from stdin -/
  | listStdin
  /-- `--replace NAME` -/
  | replace
  /-- `--no-backup NAME` -/
  | noBackup
  /-- `--replace --no-backup NAME` -/
  | replaceNoBackup
  /-- `-f NAME -o NAME` -/
  | fileOutSame

/-- the words after `prog -c CFG [-l LANG]` -/
def Mode.words (n : Str) : Mode → List Str
  | .stdinAssume => [c!"--assume", n]
  | .file => [c!"-f", n]
  | .fileOut o => [c!"-f", n, c!"-o", o]
  | .withPrefix p => [c!"--prefix", p, n]
  | .withSuffix s => [c!"--suffix", s, n]
  | .defaultSuffix => [n]
  | .list l => [c!"-F", l]
  | .listStdin => [c!"-F", c!"-"]
  | .replace => [c!"--replace", n]
  | .noBackup => [c!"--no-backup", n]
  | .replaceNoBackup => [c!"--replace", c!"--no-backup", n]
  | .fileOutSame => [c!"-f", n, c!"-o", n]

def Mode.argv (prog cfg n : Str) (l : Option Str) (m : Mode) : List Str :=
  [prog, c!"-c", cfg] ++ (match l with | some l => [c!"-l", l] | none => []) ++ m.words n

/-- what the lookups of `main()` return for the mode's argv -/
def Mode.opts (cfg n : Str) (l : Option Str) : Mode → Opts
  | .stdinAssume => { Opts.none with cfg := some cfg, lang := l, assume := some n }
  | .file => { Opts.none with cfg := some cfg, lang := l, sourceFile := some n }
  | .fileOut o => { Opts.none with cfg := some cfg, lang := l, sourceFile := some n, output := some o }
  | .withPrefix p => { Opts.none with cfg := some cfg, lang := l, pfx := some p, unused := [n] }
  | .withSuffix s => { Opts.none with cfg := some cfg, lang := l, sfx := some s, unused := [n] }
  | .defaultSuffix => { Opts.none with cfg := some cfg, lang := l, unused := [n] }
  | .list f => { Opts.none with cfg := some cfg, lang := l, sourceList := some f }
  | .listStdin => { Opts.none with cfg := some cfg, lang := l, sourceList := some c!"-" }
  | .replace => { Opts.none with cfg := some cfg, lang := l, replace := true, unused := [n] }
  | .noBackup => { Opts.none with cfg := some cfg, lang := l, noBackup := true, unused := [n] }
  | .replaceNoBackup => { Opts.none with cfg := some cfg, lang := l, replace := true, noBackup := true, unused := [n] }
  | .fileOutSame => { Opts.none with cfg := some cfg, lang := l, sourceFile := some n, output := some n }

/-- where the formatted bytes go -/
def Mode.eff (n : Str) (bs : Bytes) : Mode → Eff
  | .stdinAssume => .stdout bs
  | .file => .stdout bs
  | .fileOut o => .write o bs
  | .withPrefix p => .write (p ++ '/' :: n) bs
  | .withSuffix s => .write (n ++ s) bs
  | .defaultSuffix => .write (n ++ c!".uncrustify") bs
  | .list _ => .write (n ++ c!".uncrustify") bs
  | .listStdin => .write (n ++ c!".uncrustify") bs
  | .replace => .replace n bs true
  | .noBackup => .replace n bs false
  | .replaceNoBackup => .replace n bs false
  | .fileOutSame => .replace n bs true

/-- side conditions of a mode on the names it carries and on the environment -/
def Mode.ok (env : Env) (n : Str) : Mode → Prop
  | .stdinAssume => env.stdinOk = true
  | .fileOut o => plain o ∧ n ≠ o
  | .withPrefix p => plain p
  | .withSuffix s => plain s ∧ s ≠ []
  | .list l => plain l ∧ ∃ t, env.listText l = some t ∧ listNames t = [n]
  | .listStdin => ∃ t, env.listText c!"-" = some t ∧ listNames t = [n]
  | _ => True

/-- the raw bytes the mode reads: stdin for the stdin mode, the named file otherwise -/
def Mode.raw (w : World) (n : Str) : Mode → Bytes
  | .stdinAssume => w.stdin
  | _ => w.file n

end Unc.Cli

namespace Unc.Cli

/-- the part of a job that decides which bytes go where: input, name, language, sink (not the debug side files) -/
def Job.core (j : Job) : Source × Str × Nat × Sink × Option Str × Bool := (j.src, j.name, j.lang, j.sink, j.track, j.keepMtime)

/-- the flags the formatter and the sinks depend on (not quiet / log mask / severity display) -/
def Globals.core (g : Globals) : Bool × Bool × Bool × Bool := (g.doCheck, g.ifChanged, g.frag, g.langForced)

/-- the observer options set to arbitrary values -/
def Opts.withObservers (o : Opts) (quiet showSev csv : Bool) (log parsed dump : Option Str) : Opts :=
  { o with quiet := quiet, showSev := showSev, csv := csv, log := log, parsed := parsed, dump := dump }

end Unc.Cli

namespace Unc.Cli

theorem firstSome_none {α} (l : List (Option α)) : firstSome l = none ↔ ∀ x ∈ l, x = none := by
  induction l with
  | nil => simp [firstSome]
  | cons a l ih => cases a <;> simp [firstSome, ih]

theorem firstSome_some_mem {α} (l : List (Option α)) (a : α) (h : firstSome l = some a) : some a ∈ l := by
  induction l with
  | nil => simp [firstSome] at h
  | cons x l ih =>
    cases x with
    | none => simp [firstSome] at h; simp [ih h]
    | some b => simp [firstSome] at h; simp [h]

theorem fileJobs_core (env : Env) (trk : Bool) (mk mk' : Str → Job) (h : ∀ n, (mk' n).core = (mk n).core) (ns : List Str) :
    (fileJobs env trk mk' ns).2 = (fileJobs env trk mk ns).2 ∧
    (fileJobs env trk mk' ns).1.map Job.core = (fileJobs env trk mk ns).1.map Job.core := by
  induction ns with
  | nil => simp [fileJobs]
  | cons n ns ih =>
    simp only [fileJobs]
    split
    · simp
    · split
      · simp [h]
      · simp [h, ih]

/-- outcomes of the early exits are never `run` -/
def Outcome.isExit : Outcome → Bool
  | .run .. => false
  | _ => true

theorem earlyExit_isExit (o : Opts) (argc : Nat) (env : Env) (out : Outcome) (h : earlyExit o argc env = some out) :
    out.isExit = true := by
  have := firstSome_some_mem _ _ h
  simp only [List.mem_cons, List.not_mem_nil, or_false] at this
  rcases this with h | h | h | h | h | h | h | h | h | h | h | h | h | h | h
  all_goals (revert h)
  · unfold exitArgc; split <;> (intro h; cases h) <;> rfl
  · unfold exitInfo; split <;> (intro h; cases h) <;> rfl
  · unfold exitTypes; cases List.findSome? env.typeFile o.tfiles <;> (intro h; cases h) <;> rfl
  · unfold exitCsv; split <;> (intro h; cases h) <;> rfl
  · unfold exitTracking; repeat' split
    all_goals ((intro h; cases h) <;> rfl)
  · unfold exitCheckTable; split <;> (intro h; cases h) <;> rfl
  · unfold exitReplace; split <;> (intro h; cases h) <;> rfl
  · unfold exitConfig; repeat' split
    all_goals ((intro h; cases h) <;> rfl)
  · unfold exitSet; cases setLoop env o.sets <;> (intro h; cases h) <;> rfl
  · unfold exitUniversal; repeat' split
    all_goals ((intro h; cases h) <;> rfl)
  · unfold exitDetect; repeat' split
    all_goals ((intro h; cases h) <;> rfl)
  · unfold exitUpdate; repeat' split
    all_goals ((intro h; cases h) <;> rfl)
  · unfold exitNoConfig; split <;> (intro h; cases h) <;> rfl
  · unfold exitMulti; repeat' split
    all_goals ((intro h; cases h) <;> rfl)
  · unfold exitHeaders; split <;> (intro h; cases h) <;> rfl

theorem route_run (o : Opts) (argc : Nat) (env : Env) (g jobs stop) (h : route o argc env = .run g jobs stop) :
    earlyExit o argc env = none ∧ dispatch o env (Pre.of o env) = .run g jobs stop := by
  unfold route at h
  split at h
  · rename_i out he
    have := earlyExit_isExit o argc env out he
    rw [h] at this; simp [Outcome.isExit] at this
  · rename_i he; exact ⟨he, h⟩
end Unc.Cli

namespace Unc.Cli

/-- the documented exit statuses: EXIT_SUCCESS, EXIT_FAILURE, EX_USAGE, EX_NOINPUT, EX_NOUSER, EX_NOHOST,
    EX_SOFTWARE, EX_IOERR, EX_CONFIG -/
def statusSet : List Nat := [0, 1, 64, 66, 67, 68, 70, 74, 78]

/-- every status an outcome names lies in `statusSet` -/
def Outcome.statusOk : Outcome → Prop
  | .exit n => n ∈ statusSet
  | .exitWriting _ => True
  | .run _ _ (some n) => n ∈ statusSet
  | .run _ _ none => True

theorem setLoop_status (env : Env) (l : List Str) (n : Nat) (h : setLoop env l = some n) : n ∈ statusSet := by
  induction l with
  | nil => simp [setLoop] at h
  | cons p ps ih =>
    simp only [setLoop] at h
    split at h
    · rename_i m hm
      cases h
      unfold setStep at hm
      repeat' split at hm
      all_goals (first | (cases hm; decide) | cases hm)
    · exact ih h

theorem fileJobs_stop (env : Env) (trk : Bool) (mk : Str → Job) (ns : List Str) (n : Nat)
    (h : (fileJobs env trk mk ns).2 = some n) : n ∈ statusSet := by
  induction ns with
  | nil => simp [fileJobs] at h
  | cons x xs ih =>
    simp only [fileJobs] at h
    split at h
    · cases h; decide
    · split at h
      · cases h; decide
      · exact ih h

end Unc.Cli

namespace Unc.Cli
set_option linter.unusedSimpArgs false

theorem earlyExit_status (o : Opts) (argc : Nat) (env : Env)
    (hcfg : ∀ s n, env.cfgLoad s = some n → n ∈ statusSet) (htyp : ∀ s n, env.typeFile s = some n → n ∈ statusSet)
    (out : Outcome) (h : earlyExit o argc env = some out) : out.statusOk := by
  have := firstSome_some_mem _ _ h
  simp only [List.mem_cons, List.not_mem_nil, or_false] at this
  rcases this with h | h | h | h | h | h | h | h | h | h | h | h | h | h | h
  all_goals (revert h)
  · unfold exitArgc; split <;> (intro h; cases h) <;> simp [Outcome.statusOk, statusSet]
  · unfold exitInfo; split <;> (intro h; cases h) <;> simp [Outcome.statusOk, statusSet]
  · unfold exitTypes
    cases hf : List.findSome? env.typeFile o.tfiles with
    | none => intro h; cases h
    | some n =>
      intro h; cases h
      obtain ⟨s, _, hs⟩ := List.exists_of_findSome?_eq_some hf
      exact htyp s n hs
  · unfold exitCsv; split <;> (intro h; cases h) <;> simp [Outcome.statusOk, statusSet]
  · unfold exitTracking; repeat' split
    all_goals ((intro h; cases h) <;> simp [Outcome.statusOk, statusSet])
  · unfold exitCheckTable; split <;> (intro h; cases h) <;> simp [Outcome.statusOk, statusSet]
  · unfold exitReplace; split <;> (intro h; cases h) <;> simp [Outcome.statusOk, statusSet]
  · unfold exitConfig
    split
    · split
      · rename_i n hn; intro h; cases h; exact hcfg _ n hn
      · split <;> (intro h; cases h) <;> simp [Outcome.statusOk, statusSet]
    · intro h; cases h
  · unfold exitSet
    cases hs : setLoop env o.sets with
    | none => intro h; cases h
    | some n => intro h; cases h; exact setLoop_status env _ n hs
  · unfold exitUniversal; repeat' split
    all_goals ((intro h; cases h) <;> simp [Outcome.statusOk, statusSet])
  · unfold exitDetect; repeat' split
    all_goals ((intro h; cases h) <;> simp [Outcome.statusOk, statusSet])
  · unfold exitUpdate; repeat' split
    all_goals ((intro h; cases h) <;> simp [Outcome.statusOk, statusSet])
  · unfold exitNoConfig; split <;> (intro h; cases h) <;> simp [Outcome.statusOk, statusSet]
  · unfold exitMulti; repeat' split
    all_goals ((intro h; cases h) <;> simp [Outcome.statusOk, statusSet])
  · unfold exitHeaders; split <;> (intro h; cases h) <;> simp [Outcome.statusOk, statusSet]

theorem multiJobs_stop (o : Opts) (env : Env) (p : Pre) (n : Nat) (h : (multiJobs o env p).2 = some n) : n ∈ statusSet := by
  unfold multiJobs at h
  simp only [] at h
  split at h
  · rename_i m hm
    cases h; exact fileJobs_stop _ _ _ _ _ hm
  · split at h
    · cases h
    · split at h
      · cases h; decide
      · exact fileJobs_stop _ _ _ _ _ h

theorem dispatch_status (o : Opts) (env : Env) (p : Pre) : (dispatch o env p).statusOk := by
  unfold dispatch
  split
  · unfold dispatchStdin
    split
    · rename_i n hn
      unfold stdinExit at hn
      repeat' split at hn
      all_goals (first | (cases hn; simp [Outcome.statusOk, statusSet]) | cases hn)
    · split <;> simp [Outcome.statusOk, statusSet]
  · split
    · unfold dispatchSingle
      cases hs : (fileJobs env p.trk.isSome (singleMk o env p) [_]).2 with
      | none => simp [Outcome.statusOk]
      | some n => simp only [Outcome.statusOk]; exact fileJobs_stop _ _ _ _ n hs
    · unfold dispatchMulti
      split
      · rename_i n hn
        unfold multiExit at hn
        repeat' split at hn
        all_goals (first | (cases hn; simp [Outcome.statusOk, statusSet]) | cases hn)
      · cases hs : (multiJobs o env p).2 with
        | none => simp [Outcome.statusOk]
        | some n => simp only [Outcome.statusOk]; exact multiJobs_stop _ _ _ n hs

theorem fileJobs_mem (env : Env) (trk : Bool) (mk : Str → Job) (ns : List Str) (j : Job)
    (h : j ∈ (fileJobs env trk mk ns).1) : ∃ n, j = mk n := by
  induction ns with
  | nil => simp [fileJobs] at h
  | cons x xs ih =>
    simp only [fileJobs] at h
    split at h
    · simp at h
    · split at h
      · simp at h; exact ⟨x, h⟩
      · simp at h
        rcases h with h | h
        · exact ⟨x, h⟩
        · exact ih h

end Unc.Cli

namespace Unc.Cli

theorem fileJob_core (g g' : Globals) (ff : Nat) (ext : List (Str × Str)) (n : Str) (out pa du pa' du' : Option Str)
    (nb km : Bool) (trk : Option Str) (h1 : g'.doCheck = g.doCheck) (h2 : g'.langForced = g.langForced) :
    (fileJob g' ff ext n out pa' du' nb km trk).core = (fileJob g ff ext n out pa du nb km trk).core := by
  simp [fileJob, Job.core, h1, h2]

/-- two option records that differ at most in the observer options -/
structure SameButObservers (o o' : Opts) : Prop where
  version : o'.version = o.version
  help : o'.help = o.help
  countOptions : o'.countOptions = o.countOptions
  showConfig : o'.showConfig = o.showConfig
  check : o'.check = o.check
  ifChanged : o'.ifChanged = o.ifChanged
  findDeprecated : o'.findDeprecated = o.findDeprecated
  frag : o'.frag = o.frag
  decode : o'.decode = o.decode
  cfg : o'.cfg = o.cfg
  tfiles : o'.tfiles = o.tfiles
  types : o'.types = o.types
  lang : o'.lang = o.lang
  sourceFile : o'.sourceFile = o.sourceFile
  sourceList : o'.sourceList = o.sourceList
  pfx : o'.pfx = o.pfx
  sfx : o'.sfx = o.sfx
  assume : o'.assume = o.assume
  noBackup : o'.noBackup = o.noBackup
  replace : o'.replace = o.replace
  keepMtime : o'.keepMtime = o.keepMtime
  updateConfig : o'.updateConfig = o.updateConfig
  updateConfigWd : o'.updateConfigWd = o.updateConfigWd
  detect : o'.detect = o.detect
  output : o'.output = o.output
  tracking : o'.tracking = o.tracking
  sets : o'.sets = o.sets
  universalindent : o'.universalindent = o.universalindent
  unused : o'.unused = o.unused

theorem sameBut_withObservers (o : Opts) (q s csv : Bool) (log parsed dump : Option Str) :
    SameButObservers o (o.withObservers q s csv log parsed dump) := by
  constructor <;> rfl

section
variable {o o' : Opts} (hs : SameButObservers o o') (env : Env)
include hs

theorem sb_pre : (Pre.of o' env).cfgFile = (Pre.of o env).cfgFile ∧ (Pre.of o' env).trk = (Pre.of o env).trk ∧
    (Pre.of o' env).sfx = (Pre.of o env).sfx ∧ (Pre.of o' env).forcedFlags = (Pre.of o env).forcedFlags := by
  simp [Pre.of, trackingSplit, hs.cfg, hs.tracking, hs.check, hs.replace, hs.noBackup, hs.pfx, hs.sfx, hs.lang]

theorem sb_globals : (globalsOf o' (Pre.of o' env)).core = (globalsOf o (Pre.of o env)).core := by
  simp [globalsOf, Globals.core, (sb_pre hs env).2.2.2, hs.check, hs.ifChanged, hs.frag]

theorem sb_stdinExit : stdinExit o' env = stdinExit o env := by
  simp [stdinExit, hs.lang, hs.assume, hs.check, hs.ifChanged, hs.output]

theorem sb_stdinJob : (stdinJob o' env (Pre.of o' env)).core = (stdinJob o env (Pre.of o env)).core := by
  obtain ⟨_, e2, _, e4⟩ := sb_pre hs env
  simp [stdinJob, Job.core, hs.assume, hs.check, hs.output, e2, e4]

theorem sb_singleMk (n : Str) : (singleMk o' env (Pre.of o' env) n).core = (singleMk o env (Pre.of o env) n).core := by
  obtain ⟨_, e2, _, e4⟩ := sb_pre hs env
  have hg := sb_globals hs env
  simp only [Globals.core, Prod.mk.injEq] at hg
  unfold singleMk
  rw [e2, e4, hs.output, hs.noBackup, hs.keepMtime]
  exact fileJob_core _ _ _ _ _ _ _ _ _ _ _ _ _ hg.1 hg.2.2.2

theorem sb_multiMk (n : Str) : (multiMk o' env (Pre.of o' env) n).core = (multiMk o env (Pre.of o env) n).core := by
  obtain ⟨_, e2, e3, e4⟩ := sb_pre hs env
  have hg := sb_globals hs env
  simp only [Globals.core, Prod.mk.injEq] at hg
  unfold multiMk
  rw [e2, e3, e4, hs.pfx, hs.noBackup, hs.keepMtime]
  exact fileJob_core _ _ _ _ _ _ _ _ _ _ _ _ _ hg.1 hg.2.2.2

theorem sb_multiJobs : (multiJobs o' env (Pre.of o' env)).2 = (multiJobs o env (Pre.of o env)).2 ∧
    (multiJobs o' env (Pre.of o' env)).1.map Job.core = (multiJobs o env (Pre.of o env)).1.map Job.core := by
  obtain ⟨_, e2, _, _⟩ := sb_pre hs env
  have k := fun ns => fileJobs_core env (Pre.of o env).trk.isSome (multiMk o env (Pre.of o env)) (multiMk o' env (Pre.of o' env))
    (sb_multiMk hs env) ns
  unfold multiJobs
  simp only [e2, hs.unused, hs.sourceList]
  rw [(k o.unused).1]
  split
  · simp [(k o.unused).2]
  · split
    · simp [(k o.unused).2]
    · split
      · simp [(k o.unused).2]
      · rename_i text _
        simp [(k o.unused).2, (k (listNames text)).1, (k (listNames text)).2]

end
end Unc.Cli

namespace Unc.Cli

theorem observers_route {o o' : Opts} (hs : SameButObservers o o')
    (hoff : o.parsed = none ∧ o.dump = none ∧ o.csv = false) (argc : Nat) (env : Env)
    (g : Globals) (jobs : List Job) (stop : Option Nat) (h : route o argc env = .run g jobs stop) :
    route o' argc env = .exit 78 ∨
    ∃ g' jobs', route o' argc env = .run g' jobs' stop ∧ jobs'.map Job.core = jobs.map Job.core ∧ g'.core = g.core := by
  obtain ⟨h1, h2, h3⟩ := hoff
  obtain ⟨he, hd⟩ := route_run o argc env g jobs stop h
  obtain ⟨e1, e2, e3, e4⟩ := sb_pre hs env
  rw [earlyExit, firstSome_none] at he
  simp only [List.mem_cons, List.not_mem_nil, or_false, forall_eq_or_imp, forall_eq] at he
  obtain ⟨a1, a2, a3, a4, a5, a6, a7, a8, a9, a10, a11, a12, a13, a14, a15⟩ := he
  have b2 : exitInfo o' = none := by rw [← a2]; simp [exitInfo, hs.version, hs.help, hs.countOptions, hs.showConfig, hs.decode]
  have b3 : exitTypes o' env = none := by rw [← a3]; simp [exitTypes, hs.tfiles]
  have b5 : exitTracking o' = none := by rw [← a5]; simp [exitTracking, trackingSplit, hs.tracking]
  have b6 : exitCheckTable o' = none := by
    rw [← a6]; simp [exitCheckTable, hs.check, hs.output, hs.replace, hs.noBackup, hs.keepMtime, hs.updateConfig,
      hs.updateConfigWd, hs.detect, hs.pfx, hs.sfx, hs.ifChanged]
  have b7 : exitReplace o' = none := by
    rw [← a7]; simp [exitReplace, hs.check, hs.replace, hs.pfx, hs.sfx, hs.sourceFile, hs.output]
  have b8 : exitConfig o' env (Pre.of o' env).cfgFile = none := by
    rw [← a8, e1]; simp [exitConfig, hs.findDeprecated]
  have b9 : exitSet o' env = none := by rw [← a9]; simp [exitSet, hs.sets]
  have b10 : exitUniversal o' env = none := by rw [← a10]; simp [exitUniversal, hs.universalindent, hs.output]
  have b11 : exitDetect o' env = none := by rw [← a11]; simp [exitDetect, hs.detect, hs.sourceFile, hs.sourceList, hs.output]
  have b12 : exitUpdate o' env = none := by rw [← a12]; simp [exitUpdate, hs.updateConfig, hs.updateConfigWd, hs.output]
  have b13 : exitNoConfig (Pre.of o' env) = none := by
    have : (Pre.of o env).parsed = none := by simp [Pre.of, h1]
    simp [exitNoConfig, this] at a13
    simp [exitNoConfig, e1, a13]
  have b14 : exitMulti o' (Pre.of o' env) = none := by
    rw [← a14]; simp [exitMulti, e2, hs.sourceList, hs.unused, hs.sourceFile, hs.output]
  -- the csv test is the only early exit the observers can trigger
  by_cases hcsv : exitCsv o' = none
  · have hee : earlyExit o' argc env = none := by
      rw [earlyExit, firstSome_none]
      simp only [List.mem_cons, List.not_mem_nil, or_false, forall_eq_or_imp, forall_eq]
      exact ⟨a1, b2, b3, hcsv, b5, b6, b7, b8, b9, b10, b11, b12, b13, b14, a15⟩
    have hr : route o' argc env = dispatch o' env (Pre.of o' env) := by simp [route, hee]
    rw [hr]
    have hg := sb_globals hs env
    unfold dispatch at hd ⊢
    rw [hs.sourceFile, hs.sourceList, hs.unused]
    split at hd
    · rename_i hc
      rw [if_pos hc]
      unfold dispatchStdin at hd ⊢
      rw [sb_stdinExit hs env, e2]
      split at hd
      · cases hd
      · right
        simp only [Outcome.run.injEq] at hd
        obtain ⟨hd1, hd2, hd3⟩ := hd
        refine ⟨_, _, by rw [hd3], ?_, ?_⟩
        · rw [← hd2]; simp [sb_stdinJob hs env]
        · rw [hg, hd1]
    · rename_i hc
      rw [if_neg hc]
      split at hd
      · rename_i fname _
        right
        unfold dispatchSingle at hd ⊢
        simp only [Outcome.run.injEq] at hd
        obtain ⟨hd1, hd2, hd3⟩ := hd
        have k := fileJobs_core env (Pre.of o env).trk.isSome (singleMk o env (Pre.of o env)) (singleMk o' env (Pre.of o' env))
          (sb_singleMk hs env) [fname]
        refine ⟨_, _, by rw [e2, k.1, hd3], ?_, ?_⟩
        · rw [k.2, hd2]
        · rw [hg, hd1]
      · unfold dispatchMulti at hd ⊢
        split at hd
        · cases hd
        · cases hm : multiExit (Pre.of o' env) with
          | some n =>
            left
            unfold multiExit at hm
            repeat' split at hm
            all_goals (first | (cases hm; rfl) | cases hm)
          | none =>
            right
            simp only [Outcome.run.injEq] at hd
            obtain ⟨hd1, hd2, hd3⟩ := hd
            have k := sb_multiJobs hs env
            refine ⟨_, _, by rw [k.1, hd3], ?_, ?_⟩
            · rw [k.2, hd2]
            · rw [hg, hd1]
  · left
    have hcsv' : exitCsv o' = some (.exit 78) := by
      unfold exitCsv at hcsv ⊢
      split
      · rfl
      · rename_i hh; simp [hh] at hcsv
    simp [route, earlyExit, firstSome, a1, b2, b3, hcsv']
end Unc.Cli

namespace Unc.Cli
set_option linter.unusedSimpArgs false

theorem filter_sinkEffs (s : Sink) (bs : Bytes) : (sinkEffs s bs).filter Eff.isOutput = sinkEffs s bs := by
  cases s <;> simp [sinkEffs, Eff.isOutput]

theorem filter_sinkOpenOnly (s : Sink) : (sinkOpenOnly s).filter Eff.isOutput = sinkOpenOnly s := by
  cases s with
  | inplace p b => cases b <;> simp [sinkOpenOnly, Eff.isOutput]
  | _ => simp [sinkOpenOnly, Eff.isOutput]

theorem filter_sideEffs (j : Job) : (sideEffs j).filter Eff.isOutput = [] := by
  unfold sideEffs; cases j.dump <;> cases j.parsed <;> simp [Eff.isOutput]

theorem filter_lines (l : List Line) : (l.map Eff.line).filter Eff.isOutput = [] := by
  induction l with
  | nil => rfl
  | cons a l ih => simp [Eff.isOutput]

/-- the output effects of a job depend only on its core and on the core flags -/
theorem execJob_core (F : Formatter) (g g' : Globals) (raw : Bytes) (j j' : Job)
    (hj : j'.core = j.core) (hg : g'.core = g.core) :
    (execJob F g' raw j').effs.filter Eff.isOutput = (execJob F g raw j).effs.filter Eff.isOutput ∧
    (execJob F g' raw j').failInc = (execJob F g raw j).failInc ∧
    (execJob F g' raw j').exited = (execJob F g raw j).exited := by
  simp only [Job.core, Prod.mk.injEq] at hj
  obtain ⟨j1, j2, j3, j4, j5, j6⟩ := hj
  simp only [Globals.core, Prod.mk.injEq] at hg
  obtain ⟨g1, g2, g3, g4⟩ := hg
  unfold execJob
  rw [j1, j2, j3, j4, j5, j6, g1, g2] at *
  simp only [j2, j3, j4, j5, j6, g1, g2]
  cases j.track with
  | some t =>
    simp only [List.filter_append, filter_sinkOpenOnly]
    cases j'.dump <;> cases j.dump <;> cases g.ifChanged <;> simp [Eff.isOutput, filter_sinkOpenOnly]
  | none =>
    simp only []
    cases g.doCheck with
    | true => simp [List.filter_append, filter_sinkEffs, filter_sideEffs, filter_lines]
    | false =>
      cases g.ifChanged with
      | true =>
        simp only [Bool.false_eq_true, if_false, if_true]
        split <;> simp [List.filter_append, filter_sinkEffs, filter_sideEffs, Eff.isOutput]
      | false => simp [List.filter_append, filter_sinkEffs, filter_sideEffs, Eff.isOutput]
end Unc.Cli

namespace Unc.Cli
set_option linter.unusedSimpArgs false

theorem runJobs_core (F : Formatter) (g g' : Globals) (w : World) (hg : g'.core = g.core) :
    ∀ (jobs jobs' : List Job) (cnt : Nat), jobs'.map Job.core = jobs.map Job.core →
    (runJobs F g' w jobs' cnt).effs.filter Eff.isOutput = (runJobs F g w jobs cnt).effs.filter Eff.isOutput ∧
    (runJobs F g' w jobs' cnt).failCnt = (runJobs F g w jobs cnt).failCnt ∧
    (runJobs F g' w jobs' cnt).exited = (runJobs F g w jobs cnt).exited := by
  intro jobs
  induction jobs with
  | nil =>
    intro jobs' cnt h
    cases jobs' with
    | nil => simp [runJobs]
    | cons a l => simp at h
  | cons j js ih =>
    intro jobs' cnt h
    cases jobs' with
    | nil => simp at h
    | cons j' js' =>
      simp only [List.map_cons, List.cons.injEq] at h
      obtain ⟨hj, hjs⟩ := h
      have hsrc : j'.src = j.src := by
        simp only [Job.core, Prod.mk.injEq] at hj; exact hj.1
      have k := execJob_core F g g' (w.raw j.src) j j' hj hg
      simp only [runJobs, hsrc]
      rw [k.2.2, k.2.1]
      split
      · simp [k.1]
      · have := ih js' (cnt + (execJob F g (w.raw j.src) j).failInc) hjs
        simp [List.filter_append, k.1, this.1, this.2.1, this.2.2]
end Unc.Cli

namespace Unc.Cli
set_option linter.unusedSimpArgs false

/-- a job that cannot write to the file system through its sink -/
def Job.noFileSink (j : Job) : Prop :=
  (j.sink = .none ∨ (j.src = .stdin ∧ j.sink = .stdout)) ∧ j.keepMtime = false

theorem multiJobs_mem (o : Opts) (env : Env) (p : Pre) (j : Job) (h : j ∈ (multiJobs o env p).1) :
    ∃ n, j = multiMk o env p n := by
  unfold multiJobs at h
  simp only [] at h
  split at h
  · exact fileJobs_mem _ _ _ _ _ h
  · split at h
    · exact fileJobs_mem _ _ _ _ _ h
    · split at h
      · exact fileJobs_mem _ _ _ _ _ h
      · rw [List.mem_append] at h
        rcases h with h | h <;> exact fileJobs_mem _ _ _ _ _ h

/-- in check mode the jobs of `dispatch` have no file sink: the `do_check` guards of `do_source_file`
    and of the stdin branch -/
theorem dispatch_check_sinks (o : Opts) (env : Env) (p : Pre) (g : Globals) (jobs : List Job) (stop : Option Nat)
    (h : dispatch o env p = .run g jobs stop) (hc : o.check = true) :
    g.doCheck = true ∧ ∀ j ∈ jobs, j.noFileSink := by
  have hfj : ∀ (n : Str) (out : Option Str) (pa du : Option Str),
      (fileJob (globalsOf o p) p.forcedFlags env.extMap n out pa du o.noBackup o.keepMtime p.trk).noFileSink := by
    intro n out pa du; simp [fileJob, globalsOf, hc, Job.noFileSink]
  unfold dispatch at h
  split at h
  · unfold dispatchStdin at h
    split at h
    · cases h
    · simp only [Outcome.run.injEq] at h
      obtain ⟨hg, hj, _⟩ := h
      subst hg; subst hj
      simp [globalsOf, hc, stdinJob, Job.noFileSink]
  · split at h
    · unfold dispatchSingle at h
      simp only [Outcome.run.injEq] at h
      obtain ⟨hg, hj, _⟩ := h
      subst hg; subst hj
      refine ⟨by simp [globalsOf, hc], ?_⟩
      intro j hjm
      obtain ⟨n, rfl⟩ := fileJobs_mem _ _ _ _ _ hjm
      exact hfj n _ _ _
    · unfold dispatchMulti at h
      split at h
      · cases h
      · simp only [Outcome.run.injEq] at h
        obtain ⟨hg, hj, _⟩ := h
        subst hg; subst hj
        refine ⟨by simp [globalsOf, hc], ?_⟩
        intro j hjm
        obtain ⟨n, rfl⟩ := multiJobs_mem _ _ _ _ hjm
        exact hfj n _ _ _
end Unc.Cli

namespace Unc.Cli
set_option linter.unusedSimpArgs false

theorem findEq_some_iff (tok : Str) (l : List Str) (i : Nat) : (findEq tok l i).isSome = true ↔ tok ∈ l := by
  induction l generalizing i with
  | nil => simp [findEq]
  | cons v vs ih =>
    simp only [findEq]
    split
    · rename_i h; simp [h]
    · rename_i h
      rw [ih]
      simp [Ne.symm h]

theorem present_iff (a : Args) (tok : Str) : (a.present tok).1 = true ↔ tok ∈ a.vals := by
  unfold Args.present
  rw [← findEq_some_iff tok a.vals 0]
  cases findEq tok a.vals 0 <;> simp

theorem findPre_append (tok : Str) (pre : List Str) (w : Str) (post : List Str) (i : Nat)
    (hpre : ∀ x ∈ pre, preMatch tok x = false) (hw : preMatch tok w = true) :
    findPre tok (pre ++ w :: post) i = some (i + pre.length, w) := by
  induction pre generalizing i with
  | nil => simp [findPre, hw]
  | cons x xs ih =>
    have hx : preMatch tok x = false := hpre x (by simp)
    simp only [List.cons_append, findPre, hx, Bool.false_eq_true, if_false]
    rw [ih (i + 1) (fun y hy => hpre y (by simp [hy]))]
    simp; omega

/-- the value `Args::Param(tok)` returns when the first matching word is `w` -/
theorem param_value (tok : Str) (pre : List Str) (w : Str) (post : List Str)
    (hpre : ∀ x ∈ pre, preMatch tok x = false) (hw : preMatch tok w = true) :
    ((Args.init (pre ++ w :: post)).param tok).1 =
      if w.length > tok.length then
        some (if (w.drop tok.length).head? = some '=' then w.drop (tok.length + 1) else w.drop tok.length)
      else post.head? := by
  unfold Args.param Args.params
  simp only [Args.init, List.drop_zero]
  rw [findPre_append tok pre w post 0 hpre hw]
  simp only [Nat.zero_add]
  split
  · simp [List.drop_drop]
  · have : (pre ++ w :: post)[pre.length + 1]? = post.head? := by
      rw [List.getElem?_append_right (by omega)]
      simp
      cases post <;> simp
    rw [this]
    cases post <;> simp

theorem preMatch_iff (tok w : Str) :
    preMatch tok w = true ↔
      w = tok ∨ (∃ v, w = tok ++ '=' :: v) ∨
      (¬ (tok.length > 2 ∧ tok[1]? = some '-') ∧ ∃ c v, w = tok ++ c :: v) := by
  unfold preMatch
  rw [Bool.and_eq_true, List.isPrefixOf_iff_prefix]
  constructor
  · rintro ⟨⟨t, rfl⟩, h2⟩
    cases t with
    | nil => left; simp
    | cons c v =>
      right
      by_cases hc : c = '='
      · left; exact ⟨v, by rw [hc]⟩
      · right
        simp [hc] at h2
        refine ⟨?_, c, v, rfl⟩
        intro ⟨ha, hb⟩
        rcases h2 with h2 | h2
        · omega
        · exact h2 hb
  · rintro (rfl | ⟨v, rfl⟩ | ⟨hlong, c, v, rfl⟩)
    · simp
    · simp
    · refine ⟨⟨c :: v, rfl⟩, ?_⟩
      simp
      left
      by_cases h1 : tok.length ≤ 2
      · left; exact h1
      · right; intro h2; exact hlong ⟨by omega, h2⟩
end Unc.Cli

namespace Unc.Cli
set_option linter.unusedSimpArgs false

/-! ## `bout_content_matches` -/

theorem firstDiff_none_iff (a b : Bytes) (i : Nat) (hl : a.length = b.length) : firstDiff a b i = none ↔ a = b := by
  induction a generalizing b i with
  | nil => cases b <;> simp_all [firstDiff]
  | cons x xs ih =>
    cases b with
    | nil => simp at hl
    | cons y ys =>
      simp only [List.length_cons, Nat.add_right_cancel_iff] at hl
      simp only [firstDiff]
      split
      · rename_i h; simp [h]
      · rename_i h
        have : x = y := Classical.not_not.mp h
        rw [ih ys (i + 1) hl]; simp [this]

theorem boutCompare_same_iff (raw bout : Bytes) : boutCompare raw bout = .same ↔ raw = bout := by
  unfold boutCompare
  split
  · rename_i h
    constructor
    · intro h'; cases h'
    · intro h'; rw [h'] at h; exact absurd rfl h
  · rename_i h
    have hl : raw.length = bout.length := (Classical.not_not.mp h).symm
    cases hd : firstDiff raw bout 0 with
    | none => simp [(firstDiff_none_iff raw bout 0 hl).mp hd]
    | some i =>
      constructor
      · intro h'; cases h'
      · intro h'
        have := (firstDiff_none_iff raw bout 0 hl).mpr h'
        rw [hd] at this; cases this

theorem boutMatches_iff (raw bout : Bytes) : boutMatches raw bout = true ↔ raw = bout := by
  unfold boutMatches
  rw [beq_iff_eq, boutCompare_same_iff]

/-- the lines of a run -/
def linesOf (effs : List Eff) : List Line := effs.filterMap (fun e => match e with | .line l => some l | _ => none)

theorem linesOf_append (a b : List Eff) : linesOf (a ++ b) = linesOf a ++ linesOf b := by
  simp [linesOf, List.filterMap_append]

theorem linesOf_sinkEffs (s : Sink) (bs : Bytes) : linesOf (sinkEffs s bs) = [] := by
  cases s <;> simp [sinkEffs, linesOf]

theorem linesOf_sideEffs (j : Job) : linesOf (sideEffs j) = [] := by
  unfold sideEffs; cases j.dump <;> cases j.parsed <;> simp [linesOf]

theorem linesOf_lines (l : List Line) : linesOf (l.map Eff.line) = l := by
  induction l with
  | nil => rfl
  | cons a l ih => simp [linesOf] at ih ⊢; exact ih

/-- what check mode does with one job that is not under `--tracking` -/
theorem execJob_check (F : Formatter) (g : Globals) (raw : Bytes) (j : Job) (hc : g.doCheck = true) (ht : j.track = none) :
    execJob F g raw j =
      { effs := sinkEffs j.sink (F raw j.lang j.name) ++ sideEffs j ++
                (reportLines j.name g.quiet raw (boutCompare raw (F raw j.lang j.name))).map Eff.line
        failInc := if boutCompare raw (F raw j.lang j.name) == .same then 0 else 1
        exited := false } := by
  simp [execJob, ht, hc]

end Unc.Cli

namespace Unc.Cli

theorem route_status (o : Opts) (argc : Nat) (env : Env)
    (hcfg : ∀ s n, env.cfgLoad s = some n → n ∈ statusSet) (htyp : ∀ s n, env.typeFile s = some n → n ∈ statusSet) :
    (route o argc env).statusOk := by
  unfold route
  split
  · rename_i out he; exact earlyExit_status _ _ _ hcfg htyp out he
  · exact dispatch_status _ _ _

end Unc.Cli

namespace Unc.Cli
/-- the jobs of an outcome (none for an early exit) -/
def Outcome.jobs : Outcome → List Job
  | .run _ jobs _ => jobs
  | _ => []
end Unc.Cli
