import UncModel.Lemmas.LexNumLemmas
/-! Per-class isolation lemmas for the specification lexer: punctuators (digraphs off). -/
namespace Unc

/-- tags of the table enabled for `l`, digraphs off -/
def enabledTags (l : Nat) : List (List CP) :=
  (Gen.punctTable.filter (punctEnabled (langMask l) false)).map (·.1)

/-- punctuator tokens of the specification lexer (digraphs off): the enabled tags except `[]` -/
def punctToks (l : Nat) : List (List CP) := (enabledTags l).filter (· != [91, 93])

def opensComment : List CP → Bool
  | 47 :: 47 :: _ => true
  | 47 :: 42 :: _ => true
  | _ => false

def dotDigit : List CP → Bool
  | 46 :: d :: _ => isDigit d
  | _ => false

/-- no enabled tag longer than `a` is a prefix of `a ++ y` -/
def NoLonger (l : Nat) (a y : List CP) : Prop :=
  ∀ e ∈ Gen.punctTable, punctEnabled (langMask l) false e = true → e.1 <+: a ++ y → e.1.length ≤ a.length

theorem mem_enabledTags {l : Nat} {a : List CP} (h : a ∈ enabledTags l) :
    ∃ e ∈ Gen.punctTable, punctEnabled (langMask l) false e = true ∧ e.1 = a := by
  simp only [enabledTags, List.mem_map, List.mem_filter] at h
  obtain ⟨e, ⟨he, hen⟩, rfl⟩ := h
  exact ⟨e, he, hen, rfl⟩

theorem findPunct_append_eq {l : Nat} {a : List CP} (ha : a ∈ enabledTags l) (y : List CP)
    (hy : NoLonger l a y) : findPunct (langMask l) false (a ++ y) = some a.length := by
  obtain ⟨e, he, hen, rfl⟩ := mem_enabledTags ha
  have := findPunctT_longest Gen.punctTable punctTable_wf (langMask l) false (e.1 ++ y)
  unfold findPunct
  cases hr : findPunctT Gen.punctTable (langMask l) false (e.1 ++ y) with
  | none =>
    rw [hr] at this
    exact absurd (List.prefix_append _ _) (this e he hen)
  | some n =>
    rw [hr] at this
    obtain ⟨⟨e', he', hen', hp', hl'⟩, hmax⟩ := this
    have h1 : e.1.length ≤ n := hmax e he hen (List.prefix_append _ _)
    have h2 : n ≤ e.1.length := by rw [← hl']; exact hy e' he' hen' hp'
    congr 1; omega

theorem findPunct_append_ne_none {l : Nat} {a : List CP} (ha : a ∈ enabledTags l) (y : List CP) :
    findPunct (langMask l) false (a ++ y) ≠ none := by
  obtain ⟨e, he, hen, rfl⟩ := mem_enabledTags ha
  have := findPunctT_longest Gen.punctTable punctTable_wf (langMask l) false (e.1 ++ y)
  unfold findPunct
  intro hr
  rw [hr] at this
  exact absurd (List.prefix_append _ _) (this e he hen)

theorem nodig_len_le4 : ∀ e ∈ Gen.punctTable, (e.2.1 &&& Gen.flagDig == 0) = true → e.1.length ≤ 4 := by decide

theorem findPunct_nodig_le4 (lang : Nat) (s : List CP) (n : Nat) (h : findPunct lang false s = some n) : n ≤ 4 := by
  have := findPunctT_longest Gen.punctTable punctTable_wf lang false s
  unfold findPunct at h
  rw [h] at this
  obtain ⟨⟨e, he, hen, _, hl⟩, _⟩ := this
  rw [← hl]
  apply nodig_len_le4 e he
  simp only [punctEnabled, Bool.and_eq_true, Bool.or_eq_true] at hen
  rcases hen.2 with h | h
  · exact h
  · exact absurd h (by decide)

theorem punctLen_eq (l : Nat) (hd : langDig l = false) (s : List CP) (n : Nat)
    (h : findPunct (langMask l) false s = some n) (h91 : s.head? ≠ some 91) : punctLen l s = some n := by
  have hn := findPunct_nodig_le4 _ s n h
  unfold punctLen
  rw [hd, h]
  simp only
  split
  · rename_i heq; simp at h91
  · simp
  · simp
  · have : (n == 6) = false := by
      simp only [beq_eq_false_iff_ne, ne_eq]; omega
    simp [this]
  · rfl

theorem punctLen_sq (l : Nat) (hd : langDig l = false) (s : List CP)
    (h : findPunct (langMask l) false (91 :: s) ≠ none) : punctLen l (91 :: s) = some 1 := by
  unfold punctLen
  rw [hd]
  cases hf : findPunct (langMask l) false (91 :: s) with
  | none => exact absurd hf h
  | some n => rfl

theorem opensComment_false {c : CP} {r : List CP} (h : opensComment (c :: r) = false) :
    (c == 47 && r.head? == some 47) = false ∧ (c == 47 && r.head? == some 42) = false := by
  by_cases hc : c = 47
  · subst hc
    cases r with
    | nil => simp
    | cons d r' =>
      by_cases h1 : d = 47
      · subst h1; simp [opensComment] at h
      · by_cases h2 : d = 42
        · subst h2; simp [opensComment] at h
        · simp [h1, h2]
  · have : (c == 47) = false := by simpa using hc
    simp [this]

theorem ppNumLen_zero (sep : Bool) {c : CP} {r : List CP} (hd : isDigit c = false)
    (h : dotDigit (c :: r) = false) : ppNumLen sep (c :: r) = 0 := by
  simp only [ppNumLen, hd, Bool.false_eq_true, if_false]
  by_cases h46 : c = 46
  · subst h46
    cases r with
    | nil => simp
    | cons d r' =>
      have : isDigit d = false := by simpa [dotDigit] using h
      simp [this]
  · have : (c == 46) = false := by simpa using h46
    simp [this]

/-- facts about the first character of a punctuator token that the lexer tests before it tries punctuators -/
structure PunctHead (a : List CP) : Prop where
  ne : a ≠ []
  h92 : a.head? ≠ some 92
  h34 : a.head? ≠ some 34
  h39 : a.head? ≠ some 39
  notId : ∀ c ∈ a.head?, isIdStart c = false
  notDigit : ∀ c ∈ a.head?, isDigit c = false
  sq : a.head? = some 91 → a.length = 1

/-- a punctuator followed by text that neither extends it to a longer tag, nor makes a comment opener,
    nor turns `.` into a number, is the token -/
theorem munchTok_punct_append (l : Nat) (hdig : langDig l = false) {a : List CP} (ha : a ∈ enabledTags l)
    (hh : PunctHead a) (y : List CP) (hc : opensComment (a ++ y) = false) (hdd : dotDigit (a ++ y) = false)
    (hy : a.head? ≠ some 91 → NoLonger l a y) :
    munchTok l (a ++ y) = some (a.length, .punct) := by
  match a, ha, hh, hc, hdd, hy with
  | c :: r, ha, hh, hc, hdd, hy =>
    have h92 : (c == 92) = false := by have := hh.h92; simpa using this
    have h34 : (c == 34) = false := by have := hh.h34; simpa using this
    have h39 : (c == 39) = false := by have := hh.h39; simpa using this
    have hid : isIdStart c = false := hh.notId c (by simp)
    have hdg : isDigit c = false := hh.notDigit c (by simp)
    simp only [List.cons_append] at hc hdd ⊢
    obtain ⟨c1, c2⟩ := opensComment_false hc
    have hnum : ppNumLen (langC l || langCpp l) (c :: (r ++ y)) = 0 := ppNumLen_zero _ hdg hdd
    have hp : punctLen l (c :: (r ++ y)) = some (c :: r).length := by
      by_cases h91 : c = 91
      · subst h91
        have h1 := hh.sq (by simp)
        have := punctLen_sq l hdig (r ++ y) (by
          have := findPunct_append_ne_none ha y
          simpa using this)
        rw [this]; simp at h1 ⊢; exact h1
      · have hnl := hy (by simpa using h91)
        have := findPunct_append_eq ha y hnl
        simp only [List.cons_append] at this
        exact punctLen_eq l hdig _ _ this (by simpa using h91)
    simp only [munchTok, h92, c1, c2, hid, hnum, h34, h39, hp, Bool.false_and, Bool.false_eq_true, if_false,
      bne_self_eq_false]

end Unc
