import UncModel.Lemmas.FuseDefs
namespace Unc
set_option maxRecDepth 100000 in
theorem ppCheck_JAVA : ppCheck 16 = true := by decide +kernel
theorem langFacts_JAVA : langFacts 16 = true := by decide +kernel
end Unc
