import UncModel.IntTypes
/-! helper lemmas for Props/IntTypes.lean -/
namespace Unc.IntTy

def ids (l : List Tok) : List Nat := l.map (·.id)

theorem nonInt_append (a b : List Tok) : nonInt (a ++ b) = nonInt a ++ nonInt b := by
  simp [nonInt, List.map_append, List.filter_append]

theorem nonInt_cons (t : Tok) (l : List Tok) : nonInt (t :: l) = (if t.txt != "int" then [t.txt] else []) ++ nonInt l := by
  simp only [nonInt, List.map_cons, List.filter_cons]
  split <;> simp

theorem nonInt_reverse (l : List Tok) : nonInt l.reverse = (nonInt l).reverse := by
  simp [nonInt, List.map_reverse, List.filter_reverse]

theorem nonInt_int_cons (i : Nat) (b : Bool) (l : List Tok) : nonInt ({ id := i, txt := "int", pp := b } :: l) = nonInt l := by
  simp [nonInt_cons]

/-- deleting by identity keeps the non-`int` tokens when every token with that identity is an `int` -/
theorem nonInt_delId (k : Nat) (l : List Tok) (h : ∀ t ∈ l, t.id = k → t.txt = "int") : nonInt (delId k l) = nonInt l := by
  induction l with
  | nil => rfl
  | cons a l ih =>
    have ih' := ih (fun t ht => h t (by simp [ht]))
    simp only [delId, List.filter_cons]
    by_cases hk : a.id = k
    · have ha : a.txt = "int" := h a (by simp) hk
      simp only [hk, bne_self_eq_false, Bool.false_eq_true, if_false]
      simp only [delId] at ih'
      rw [ih', nonInt_cons]
      simp [ha]
    · have : (a.id != k) = true := by simp [hk]
      simp only [this, if_true]
      simp only [delId] at ih'
      rw [nonInt_cons, nonInt_cons, ih']

theorem mem_delId {k : Nat} {l : List Tok} {t : Tok} (h : t ∈ delId k l) : t ∈ l := by
  simp only [delId, List.mem_filter] at h
  exact h.1

theorem delId_sublist (k : Nat) (l : List Tok) : (delId k l).Sublist l := by
  simp only [delId]
  exact List.filter_sublist

theorem eq_of_id_eq {l : List Tok} (hn : (ids l).Nodup) {a b : Tok} (ha : a ∈ l) (hb : b ∈ l) (h : a.id = b.id) : a = b := by
  induction l with
  | nil => cases ha
  | cons c l ih =>
    simp only [ids, List.map_cons, List.nodup_cons, List.mem_map, not_exists, not_and] at hn
    simp only [List.mem_cons] at ha hb
    rcases ha with ha | ha <;> rcases hb with hb | hb
    · rw [ha, hb]
    · subst ha
      exact absurd h.symm (hn.1 b hb)
    · subst hb
      exact absurd h (hn.1 a ha)
    · exact ih hn.2 ha hb

theorem samePP_some {cur t : Tok} {x : Option Tok} (h : samePP cur x = some t) : x = some t := by
  cases x with
  | none => simp [samePP] at h
  | some u =>
    simp only [samePP] at h
    split at h
    · exact h
    · cases h

theorem mem_firstNonStorage {l : List Tok} {t : Tok} (h : firstNonStorage l = some t) : t ∈ l := by
  induction l with
  | nil => simp [firstNonStorage] at h
  | cons a l ih =>
    simp only [firstNonStorage] at h
    split at h
    · exact List.mem_cons_of_mem _ (ih h)
    · cases h; simp

end Unc.IntTy

namespace Unc.IntTy

/-- well-formed state around the current token: identities are unique and below `fresh`; `int_keyword` names an `int` token -/
structure WF (s : St) (cur : Tok) : Prop where
  nodup : (ids (s.L ++ cur :: s.R)).Nodup
  bound : ∀ t ∈ s.L ++ cur :: s.R, t.id < s.fresh
  kw : ∀ k, s.intKw = some k → ∀ t ∈ s.L ++ cur :: s.R, t.id = k → t.txt = "int"

/-- what an edit step must keep: well-formedness and the non-`int` tokens on both sides -/
structure Keeps (s s' : St) (cur : Tok) : Prop where
  wf : WF s' cur
  left : nonInt s'.L = nonInt s.L
  right : nonInt s'.R = nonInt s.R
  subL : ∀ t ∈ s'.L, t ∈ s.L ∨ t.txt = "int"
  subR : ∀ t ∈ s'.R, t ∈ s.R ∨ t.txt = "int"

theorem Keeps.refl {s : St} {cur : Tok} (h : WF s cur) : Keeps s s cur :=
  ⟨h, rfl, rfl, fun _ ht => Or.inl ht, fun _ ht => Or.inl ht⟩

theorem Keeps.trans {s1 s2 s3 : St} {cur : Tok} (a : Keeps s1 s2 cur) (b : Keeps s2 s3 cur) : Keeps s1 s3 cur :=
  ⟨b.wf, b.left.trans a.left, b.right.trans a.right,
   fun t ht => (b.subL t ht).elim (fun h => a.subL t h) Or.inr,
   fun t ht => (b.subR t ht).elim (fun h => a.subR t h) Or.inr⟩

private theorem sub_nodup {s : St} {cur : Tok} (k : Nat) (h : (ids (s.L ++ cur :: s.R)).Nodup) :
    (ids (delId k s.L ++ cur :: delId k s.R)).Nodup := by
  have hs : (delId k s.L ++ cur :: delId k s.R).Sublist (s.L ++ cur :: s.R) :=
    List.Sublist.append (delId_sublist k s.L) (List.Sublist.cons₂ cur (delId_sublist k s.R))
  exact List.Nodup.sublist (List.Sublist.map _ hs) h

private theorem mem_del_all {s : St} {cur : Tok} {k : Nat} {t : Tok} (h : t ∈ delId k s.L ++ cur :: delId k s.R) :
    t ∈ s.L ++ cur :: s.R := by
  simp only [List.mem_append, List.mem_cons] at h ⊢
  rcases h with h | h | h
  · exact Or.inl (mem_delId h)
  · exact Or.inr (Or.inl h)
  · exact Or.inr (Or.inr (mem_delId h))

/-- delete the token `int_keyword` points to (or any identity all of whose tokens are `int`), with a new `int_keyword` value that is
    none or the identity of an `int` token -/
theorem keeps_del {s : St} {cur : Tok} (h : WF s cur) (k : Nat) (hk : ∀ t ∈ s.L ++ cur :: s.R, t.id = k → t.txt = "int")
    (kw' : Option Nat) (hkw' : ∀ j, kw' = some j → ∀ t ∈ s.L ++ cur :: s.R, t.id = j → t.txt = "int") :
    Keeps s { (s.del k) with intKw := kw' } cur := by
  refine ⟨⟨?_, ?_, ?_⟩, ?_, ?_, ?_, ?_⟩
  · exact sub_nodup k h.nodup
  · intro t ht; exact h.bound t (mem_del_all ht)
  · intro j hj t ht hid; exact hkw' j hj t (mem_del_all ht) hid
  · exact nonInt_delId k s.L (fun t ht => hk t (by simp [ht]))
  · exact nonInt_delId k s.R (fun t ht => hk t (by simp [ht]))
  · intro t ht; exact Or.inl (mem_delId ht)
  · intro t ht; exact Or.inl (mem_delId ht)

theorem keeps_setKw {s : St} {cur : Tok} (h : WF s cur) (kw' : Option Nat)
    (hkw' : ∀ j, kw' = some j → ∀ t ∈ s.L ++ cur :: s.R, t.id = j → t.txt = "int") : Keeps s { s with intKw := kw' } cur :=
  ⟨⟨h.nodup, h.bound, hkw'⟩, rfl, rfl, fun _ ht => Or.inl ht, fun _ ht => Or.inl ht⟩

theorem keeps_insert {s : St} {cur : Tok} (h : WF s cur) (back : Bool) (pp : Bool) : Keeps s (s.insertInt back pp) cur := by
  have hfresh : ∀ t ∈ s.L ++ cur :: s.R, t.id ≠ s.fresh := fun t ht => Nat.ne_of_lt (h.bound t ht)
  cases back
  · -- after: R := new :: R
    simp only [St.insertInt, Bool.false_eq_true, if_false]
    refine ⟨⟨?_, ?_, ?_⟩, rfl, ?_, fun _ ht => Or.inl ht, ?_⟩
    · have : (ids (s.L ++ cur :: { id := s.fresh, txt := "int", pp := pp } :: s.R)).Perm (s.fresh :: ids (s.L ++ cur :: s.R)) := by
        simp only [ids, List.map_append, List.map_cons]
        have : (List.map (·.id) s.L ++ cur.id :: s.fresh :: List.map (·.id) s.R).Perm
            (s.fresh :: (List.map (·.id) s.L ++ cur.id :: List.map (·.id) s.R)) := by
          have h1 : (cur.id :: s.fresh :: List.map (·.id) s.R).Perm (s.fresh :: cur.id :: List.map (·.id) s.R) := List.Perm.swap _ _ _
          exact (List.Perm.append_left _ h1).trans List.perm_middle
        exact this
      rw [this.nodup_iff, List.nodup_cons]
      refine ⟨?_, h.nodup⟩
      simp only [ids, List.mem_map, not_exists, not_and]
      intro t ht hid; exact hfresh t ht hid
    · intro t ht
      simp only [List.mem_append, List.mem_cons] at ht
      rcases ht with ht | ht | ht | ht
      · exact Nat.lt_succ_of_lt (h.bound t (by simp [ht]))
      · exact Nat.lt_succ_of_lt (h.bound t (by simp [ht]))
      · subst ht; exact Nat.lt_succ_self _
      · exact Nat.lt_succ_of_lt (h.bound t (by simp [ht]))
    · intro j hj t ht hid
      simp only [Option.some.injEq] at hj
      subst hj
      simp only [List.mem_append, List.mem_cons] at ht
      rcases ht with ht | ht | ht | ht
      · exact absurd hid (hfresh t (by simp [ht]))
      · exact absurd hid (hfresh t (by simp [ht]))
      · subst ht; rfl
      · exact absurd hid (hfresh t (by simp [ht]))
    · exact nonInt_int_cons _ _ _
    · intro t ht
      simp only [List.mem_cons] at ht
      rcases ht with ht | ht
      · subst ht; exact Or.inr rfl
      · exact Or.inl ht
  · simp only [St.insertInt, if_true]
    refine ⟨⟨?_, ?_, ?_⟩, ?_, rfl, ?_, fun _ ht => Or.inl ht⟩
    · simp only [List.cons_append, ids, List.map_cons, List.nodup_cons]
      refine ⟨?_, h.nodup⟩
      simp only [List.mem_map, not_exists, not_and]
      intro t ht hid; exact hfresh t ht hid
    · intro t ht
      simp only [List.cons_append, List.mem_cons] at ht
      rcases ht with ht | ht
      · subst ht; exact Nat.lt_succ_self _
      · exact Nat.lt_succ_of_lt (h.bound t ht)
    · intro j hj t ht hid
      simp only [Option.some.injEq] at hj
      subst hj
      simp only [List.cons_append, List.mem_cons] at ht
      rcases ht with ht | ht
      · subst ht; rfl
      · exact absurd hid (hfresh t ht)
    · exact nonInt_int_cons _ _ _
    · intro t ht
      simp only [List.mem_cons] at ht
      rcases ht with ht | ht
      · subst ht; exact Or.inr rfl
      · exact Or.inl ht

end Unc.IntTy

namespace Unc.IntTy

theorem keeps_del' {s : St} {cur : Tok} (h : WF s cur) (k : Nat) (hk : ∀ t ∈ s.L ++ cur :: s.R, t.id = k → t.txt = "int") :
    Keeps s (s.del k) cur :=
  keeps_del h k hk s.intKw h.kw

private theorem keeps_add {o : Opts} {s : St} {cur : Tok} (h : WF s cur) (back : Bool) (pp : Bool) :
    Keeps s (match s.intKw with
      | some k => if o.preferLeft then s else (s.del k).insertInt back pp
      | none => s.insertInt back pp) cur := by
  split
  · rename_i k hk
    split
    · exact Keeps.refl h
    · have k1 := keeps_del' h k (h.kw k hk)
      exact k1.trans (keeps_insert k1.wf back pp)
  · exact keeps_insert h back pp

theorem keeps_addOrRemove (o : Opts) {s : St} {cur : Tok} (h : WF s cur) (sib : Option Tok) (act : IARF) (back : Bool) (pp : Bool)
    (hs : ∀ t, sib = some t → t.txt = "int" → ∀ t' ∈ s.L ++ cur :: s.R, t'.id = t.id → t'.txt = "int") :
    Keeps s (addOrRemove o s sib act back pp) cur := by
  unfold addOrRemove
  split
  · rename_i t
    have hst := hs t rfl
    split
    · rename_i hint
      split
      · exact keeps_del h t.id (hst hint) _ (by
          intro j hj; split at hj
          · cases hj
          · exact h.kw j hj)
      · split
        · rename_i k hk
          split
          · split
            · exact keeps_del' h t.id (hst hint)
            · exact keeps_del h k (h.kw k hk) (some t.id) (by intro j hj; cases hj; exact hst hint)
          · exact keeps_setKw h _ (by intro j hj; cases hj; exact hst hint)
        · exact keeps_setKw h _ (by intro j hj; cases hj; exact hst hint)
    · split
      · exact keeps_add h back pp
      · exact Keeps.refl h
  · split
    · exact keeps_add h back pp
    · exact Keeps.refl h

theorem keeps_stepCur (o : Opts) {s : St} {cur : Tok} (h : WF s cur) : Keeps s (stepCur o cur s) cur := by
  unfold stepCur
  split
  · rename_i a1 a2 _
    simp only []
    split
    · exact Keeps.refl h
    · -- two edits: in front of the keyword, then behind it
      have hall : ∀ t ∈ s.L ++ cur :: s.R, ∀ t' ∈ s.L ++ cur :: s.R, t'.id = t.id → t' = t :=
        fun t ht t' ht' hid => eq_of_id_eq h.nodup ht' ht hid
      have k1 := keeps_addOrRemove o h (samePP cur (firstNonStorage s.L)) a1 true cur.pp (by
        intro t ht hint t' ht' hid
        have hm : t ∈ s.L ++ cur :: s.R := by simp [mem_firstNonStorage (samePP_some ht)]
        rw [hall t hm t' ht' hid]; exact hint)
      refine k1.trans (keeps_addOrRemove o k1.wf (samePP cur (firstNonStorage s.R)) a2 false cur.pp ?_)
      intro t ht hint t' ht' hid
      have hm : t ∈ s.L ++ cur :: s.R := by simp [mem_firstNonStorage (samePP_some ht)]
      simp only [List.mem_append, List.mem_cons] at ht'
      rcases ht' with ht' | ht' | ht'
      · rcases k1.subL t' ht' with h1 | h1
        · rw [hall t hm t' (by simp [h1]) hid]; exact hint
        · exact h1
      · subst ht'
        rw [hall t hm t' (by simp) hid]; exact hint
      · rcases k1.subR t' ht' with h1 | h1
        · rw [hall t hm t' (by simp [h1]) hid]; exact hint
        · exact h1
  · split
    · exact keeps_setKw h none (by intro j hj; cases hj)
    · exact Keeps.refl h

/-- moving on to the next token keeps the state well-formed -/
theorem wf_advance {s : St} {cur n : Tok} {r : List Tok} (h : WF s cur) (hr : s.R = n :: r) :
    WF { s with L := cur :: s.L, R := r } n := by
  have hmem : ∀ t, t ∈ (cur :: s.L) ++ n :: r ↔ t ∈ s.L ++ cur :: s.R := by
    intro t; simp only [hr, List.cons_append, List.mem_cons, List.mem_append]; constructor <;> (intro h'; rcases h' with h' | h' | h' | h' <;> simp [h'])
  refine ⟨?_, ?_, ?_⟩
  · have hp : (ids ((cur :: s.L) ++ n :: r)).Perm (ids (s.L ++ cur :: s.R)) := by
      simp only [hr, ids, List.cons_append, List.map_cons, List.map_append]
      exact List.perm_middle.symm
    exact hp.nodup_iff.mpr h.nodup
  · intro t ht; exact h.bound t ((hmem t).mp ht)
  · intro k hk t ht hid; exact h.kw k hk t ((hmem t).mp ht) hid

theorem run_nonInt (o : Opts) : ∀ (f : Nat) (s : St) (cur : Tok), WF s cur →
    nonInt (run o f s cur) = nonInt (s.L.reverse ++ cur :: s.R) := by
  intro f
  induction f with
  | zero => intro s cur _; rfl
  | succ f ih =>
    intro s cur h
    have K := keeps_stepCur o h
    have hL : nonInt (stepCur o cur s).L.reverse = nonInt s.L.reverse := by rw [nonInt_reverse, nonInt_reverse, K.left]
    simp only [run]
    split
    · rename_i hnil
      have hR : nonInt s.R = [] := by rw [← K.right, hnil]; rfl
      rw [nonInt_append, nonInt_append, hL, nonInt_cons, nonInt_cons, hR]
      rfl
    · rename_i n r hcons
      have hw := wf_advance K.wf hcons
      rw [ih _ n hw]
      have hR : nonInt s.R = nonInt (n :: r) := by rw [← K.right, hcons]
      simp only [List.reverse_cons, List.append_assoc, List.singleton_append]
      rw [nonInt_append, nonInt_append, hL, nonInt_cons, nonInt_cons (t := cur), hR]

end Unc.IntTy
