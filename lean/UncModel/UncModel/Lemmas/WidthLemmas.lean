import UncModel.WidthLoop

/-! helper lemmas for the code_width loop theorems of Props/C06.lean -/
namespace Unc

namespace Width

theorem free_setSlot_le (g : List Bool) (i : Nat) : free (setSlot g i) ≤ free g := by
  induction g generalizing i with
  | nil => simp [setSlot]
  | cons b bs ih =>
    cases i with
    | zero => cases b <;> simp [setSlot, free]
    | succ j => have := ih j; simp only [setSlot, free]; omega

theorem free_setSlot (g : List Bool) (i : Nat) (h : used g i = false) : free (setSlot g i) + 1 = free g := by
  induction g generalizing i with
  | nil => simp [used] at h
  | cons b bs ih =>
    cases i with
    | zero =>
      simp only [used] at h
      simp [setSlot, free, h]
      omega
    | succ j =>
      simp only [used] at h
      have := ih j h
      simp only [setSlot, free]
      omega

theorem free_setSlots_le (g : List Bool) (r : List Nat) : free (setSlots g r) ≤ free g := by
  induction r generalizing g with
  | nil => simp [setSlots]
  | cons i is ih =>
    have h1 := free_setSlot_le g i
    have h2 := ih (setSlot g i)
    simp only [setSlots, List.foldl] at h2 ⊢
    omega

theorem used_setSlot_mono (g : List Bool) (i j : Nat) (h : used g j = true) : used (setSlot g i) j = true := by
  induction g generalizing i j with
  | nil => simp [setSlot, used]
  | cons b bs ih =>
    cases i with
    | zero => cases j with
      | zero => simp [setSlot, used]
      | succ j' => simpa [setSlot, used] using h
    | succ i' => cases j with
      | zero => simpa [setSlot, used] using h
      | succ j' => simp only [setSlot, used] at h ⊢; exact ih i' j' h

/-- an effective request uses up at least one slot -/
theorem free_setSlots_lt (g : List Bool) (r : List Nat) (h : effective g r = true) : free (setSlots g r) + 1 ≤ free g := by
  induction r generalizing g with
  | nil => simp [effective] at h
  | cons i is ih =>
    simp only [effective, List.any_cons, Bool.or_eq_true, Bool.not_eq_true'] at h
    simp only [setSlots, List.foldl]
    rcases h with h | h
    · have h1 := free_setSlot g i h
      have h2 := free_setSlots_le (setSlot g i) is
      simp only [setSlots] at h2
      omega
    · by_cases hu : used g i = false
      · have h1 := free_setSlot g i hu
        have h2 := free_setSlots_le (setSlot g i) is
        simp only [setSlots] at h2
        omega
      · -- slot i was used already: the state is unchanged as far as `free` goes, and the rest is still effective or not -- either way
        -- fall back on monotonicity plus the induction hypothesis when the rest stays effective
        by_cases he : effective (setSlot g i) is = true
        · have h2 := ih (setSlot g i) he
          have h1 := free_setSlot_le g i
          simp only [setSlots] at h2
          omega
        · -- some slot j of `is` was free in g but is used in setSlot g i: then j = i, contradiction with hu
          exfalso
          simp only [effective, List.any_eq_true, Bool.not_eq_true', not_exists, not_and, Bool.not_eq_false] at he
          simp only [List.any_eq_true, Bool.not_eq_true'] at h
          obtain ⟨j, hj, hjf⟩ := h
          have := he j hj
          -- used (setSlot g i) j = true while used g j = false forces j = i
          have hkey : ∀ (g : List Bool) (i j : Nat), used g j = false → used (setSlot g i) j = true → used g i = false := by
            intro g
            induction g with
            | nil => intro i j h1; simp [used] at h1
            | cons b bs ihg =>
              intro i j h1 h2
              cases i with
              | zero => cases j with
                | zero => simpa [used] using h1
                | succ j' => simp only [setSlot, used] at h1 h2; rw [h1] at h2; cases h2
              | succ i' => cases j with
                | zero => simp only [setSlot, used] at h1 h2; rw [h1] at h2; cases h2
                | succ j' => simp only [setSlot, used] at h1 h2 ⊢; exact ihg i' j' h1 h2
          exact hu (hkey g i j hjf this)

/-- every counted change of the fixed pass uses up at least one slot -/
theorem passFixed_free (g : List Bool) (reqs : List (List Nat)) : free (passFixed g reqs).1 + (passFixed g reqs).2 ≤ free g := by
  induction reqs generalizing g with
  | nil => simp [passFixed]
  | cons r rs ih =>
    simp only [passFixed]
    split
    · rename_i h
      have := ih (setSlots g r)
      have := free_setSlots_lt g r h
      simp only []
      omega
    · exact ih g

end Width

end Unc
