import UncModel.Lemmas.FuseDefs
namespace Unc
set_option maxRecDepth 100000 in
theorem ppCheck_C : ppCheck 1 = true := by decide +kernel
theorem langFacts_C : langFacts 1 = true := by decide +kernel
end Unc
