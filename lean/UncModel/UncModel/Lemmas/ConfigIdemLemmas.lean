import UncModel.Lemmas.ConfigExtLemmas
/-!
# Loading a whole saved file
-/
namespace Unc
open Gen

def trailerHead : Bytes := B " option(s) with 'not default' value: "
theorem trailer_eq (n : Nat) : trailer n = [35 :: (trailerHead ++ natDec n), [35]] := by
  have : B "# option(s) with 'not default' value: " = 35 :: trailerHead := by decide +kernel
  simp [trailer, this]
theorem trailerHead_ascii : asciiB trailerHead = true := by decide +kernel

theorem nonPrintablePos_comment (cmt : Bytes) : nonPrintablePos 0 (35 :: cmt) = none := by
  simp [nonPrintablePos]

/-- the two trailer lines are comments -/
theorem loadLines_trailer (incl : Option (Bytes → Int → St → St)) (fname : Bytes) (compat : Int) (st : St)
    (n : Nat) (hlive : st.exit = none) :
    loadLines incl fname compat st (trailer n) = { st with lineNo := st.lineNo + 2 } := by
  rw [trailer_eq, loadLines_cons _ _ _ _ _ _ hlive (nonPrintablePos_comment _), processLine_comment]
  simp only []
  rw [loadLines_cons _ _ _ _ _ _ (by simpa using hlive) (nonPrintablePos_comment _), processLine_comment]
  simp [loadLines]

theorem optionLinesAux_congr (σ σ' : Valuation) (m : Bool) : ∀ (ds : List OptDecl) (k : Nat),
    (∀ j, k ≤ j → j < k + ds.length → getV σ j = getV σ' j) →
    optionLinesAux σ m k ds = optionLinesAux σ' m k ds ∧ nonDefaultCountAux σ k ds = nonDefaultCountAux σ' k ds := by
  intro ds
  induction ds with
  | nil => intro k _; simp [optionLinesAux, nonDefaultCountAux]
  | cons d ds ih =>
    intro k h
    have hk := h k (by omega) (by simp)
    have := ih (k + 1) (fun j h1 h2 => h j (by omega) (by simp at h2 ⊢; omega))
    simp only [optionLinesAux, nonDefaultCountAux, hk, this.1, this.2, and_self]

/-- what the writer can write and the loader can read back: every option holds an admissible ASCII value; the
    keyword map and the extension map are sorted (they are std::maps); their words are ASCII C strings; the
    tokens are real tokens and the languages real languages -/
structure Saveable (st : St) : Prop where
  vals : WellFormed st.vals
  kwsSorted : KeysSorted st.kws
  kwsOK : ∀ p ∈ st.kws, KwOK p ∧ asciiB p.1 = true
  extsSorted : KeysSorted st.exts
  extsOK : ∀ p ∈ st.exts, ExtOK p ∧ asciiB p.1 = true

/-- Loading the lines of a (non-minimal) dump of `st` into a state `fresh` with empty keyword and extension
    maps. -/
theorem loadLines_saveLines (st : St) (hs : Saveable st)
    (incl : Option (Bytes → Int → St → St)) (fname : Bytes) (compat : Int) (fresh : St)
    (hk : fresh.kws = []) (he : fresh.exts = []) (hlive : fresh.exit = none) :
    loadLines incl fname compat fresh (saveLines st false)
      = { fresh with vals := loadedVals st.vals 0 optionTable fresh.vals, kws := st.kws, exts := st.exts,
                     lineNo := fresh.lineNo + optionTable.length + st.kws.length
                                 + (extensionLines st.exts).length + 2 } := by
  have hfilter : st.exts.filter (fun p => false || (List.range languageNames.length).contains p.2) = st.exts := by
    rw [List.filter_eq_self]
    intro p hp
    have := (hs.extsOK p hp).1.2
    simp [List.mem_range, this]
  unfold saveLines
  rw [List.append_assoc, List.append_assoc,
    loadLines_optionLines st.vals hs.vals incl fname compat _ optionTable 0 fresh (by simp) hlive,
    loadLines_keywordLines incl fname compat _ st.kws [] _ (by simpa using hk) (by simpa using hs.kwsSorted)
      hs.kwsOK (by simpa using hlive),
    extensionLines_eq,
    loadLines_extLines st.exts hs.extsSorted hs.extsOK incl fname compat _ (List.range languageNames.length)
      (fun _ => false) _ List.nodup_range (by simp) (by simp [he]) (by simpa using hlive),
    loadLines_trailer _ _ _ _ _ (by simpa using hlive)]
  simp only [hfilter]
  simp [Nat.add_assoc]

theorem defaults_ascii : optionTable.all (fun d => asciiVal d.dflt) = true := by decide +kernel

/-- the default configuration can be saved -/
theorem WellFormed_default : WellFormed [] := by
  intro i d h
  have hg : getV [] i = d.dflt := by simp [getV, List.lookup, dfltOf_get h]
  rw [hg]
  exact ⟨(rowFacts h).dfltOK, List.all_eq_true.1 defaults_ascii d (List.mem_of_getElem? h)⟩

/-- … and so can every valuation obtained by storing admissible ASCII values -/
theorem WellFormed_set {σ : Valuation} (hw : WellFormed σ) {i : Nat} {d : OptDecl} (h : optionTable[i]? = some d)
    (v : Val) (hv : admissible d v = true) (ha : asciiVal v = true) : WellFormed (setV σ i v) := by
  intro j e hj
  by_cases hji : j = i
  · subst hji
    have : e = d := by rw [h] at hj; exact (Option.some.inj hj).symm
    subst this
    have hg : getV (setV σ j v) j = v := by simp [getV, setV]
    rw [hg]; exact ⟨hv, ha⟩
  · have hg : getV (setV σ i v) j = getV σ j := by
      have : (j == i) = false := by simp [hji]
      simp [getV, setV, List.lookup, this]
    rw [hg]; exact hw j e hj

/-! ## from lines to text -/

theorem splitLinesAux_line (acc l rest : Bytes) (h : ∀ c ∈ l, c ≠ 10) :
    splitLinesAux acc (l ++ 10 :: rest) = (acc.reverse ++ l) :: splitLinesAux [] rest := by
  induction l generalizing acc with
  | nil => simp [splitLinesAux]
  | cons c cs ih =>
    have : (c == 10) = false := by simp [h c (by simp)]
    simp only [List.cons_append, splitLinesAux, this, Bool.false_eq_true, ↓reduceIte]
    rw [ih (c :: acc) (fun x hx => h x (by simp [hx]))]
    simp

theorem splitLines_joinLines (ls : List Bytes) (h : ∀ l ∈ ls, ∀ c ∈ l, c ≠ 10) : splitLines (joinLines ls) = ls := by
  unfold splitLines joinLines
  induction ls with
  | nil => simp [splitLinesAux]
  | cons l ls ih =>
    simp only [List.map_cons, List.flatten_cons, List.append_assoc, List.cons_append, List.nil_append]
    rw [splitLinesAux_line [] l _ (h l (by simp))]
    simp only [List.reverse_nil, List.nil_append]
    rw [ih (fun l' hl' => h l' (by simp [hl']))]

theorem no_lf_of_ascii (l : Bytes) (h : asciiB l = true) : ∀ c ∈ l, c ≠ 10 := fun c hc => (asciiB_forall l h c hc).2

theorem optionLines_no_lf (σ : Valuation) (hwf : WellFormed σ) : ∀ (ds : List OptDecl) (k : Nat),
    (∀ j d, ds[j]? = some d → optionTable[k + j]? = some d) →
    ∀ l ∈ optionLinesAux σ false k ds, asciiB l = true := by
  intro ds
  induction ds with
  | nil => intro k _ l hl; simp [optionLinesAux] at hl
  | cons d ds ih =>
    intro k hget l hl
    have hd : optionTable[k]? = some d := by simpa using hget 0 d (by simp)
    simp only [optionLinesAux, Bool.false_and, Bool.false_eq_true, ↓reduceIte, List.mem_cons] at hl
    rcases hl with rfl | hl
    · exact saveLine_ascii hd _ (hwf k d hd).1 (hwf k d hd).2
    · exact ih (k + 1) (by intro j e hj; have := hget (j + 1) e (by simpa using hj); simpa [Nat.add_assoc, Nat.add_comm 1 j] using this) l hl

theorem saveLines_no_lf (st : St) (hs : Saveable st) :
    ∀ l ∈ saveLines st false, ∀ c ∈ l, c ≠ 10 := by
  intro l hl
  unfold saveLines at hl
  rw [trailer_eq] at hl
  rcases List.mem_append.1 hl with hl | hl
  · rcases List.mem_append.1 hl with hl | hl
    · rcases List.mem_append.1 hl with hl | hl
      · exact no_lf_of_ascii l (optionLines_no_lf st.vals hs.vals optionTable 0 (by simp) l hl)
      · obtain ⟨p, hp, rfl⟩ := List.mem_map.1 hl
        have := hs.kwsOK p hp
        exact no_lf_of_ascii _ (keywordLine_ascii p.1 p.2 this.1.1 this.2 this.1.2.2)
    · rw [extensionLines_eq] at hl
      simp only [extLinesFor, List.mem_filterMap, List.mem_range] at hl
      obtain ⟨lang, hlang, hsome⟩ := hl
      split at hsome
      · exact absurd hsome (by simp)
      · simp only [Option.some.injEq] at hsome
        subst hsome
        apply no_lf_of_ascii
        apply extLine_ascii lang _ hlang
        intro p hp
        have := hs.extsOK p (List.mem_filter.1 hp).1
        exact ⟨this.1.1, this.2⟩
  · simp only [List.mem_cons, List.not_mem_nil, or_false] at hl
    rcases hl with rfl | rfl
    · apply no_lf_of_ascii
      rw [asciiB_cons, asciiB_append, trailerHead_ascii, natDec_ascii]
      exact ⟨by omega, rfl⟩
    · intro c hc; simp at hc; omega

end Unc
