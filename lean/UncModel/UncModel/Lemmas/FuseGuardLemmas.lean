import UncModel.Lemmas.FuseDefs
/-! Completeness of the fusion guard up to the explicit exclusions: general lemmas. -/
namespace Unc

/-! ### character-class facts -/

theorem charBits_kw1_kw2 : (Gen.charBits.all fun p => !p.1 || p.2) = true := by decide

theorem isKw1_imp_isKw2 (c : CP) (h : isKw1 c = true) : isKw2 c = true := by
  unfold isKw1 at h
  unfold isKw2
  rw [List.getD_eq_getElem?_getD] at h ⊢
  cases hg : Gen.charBits[c]? with
  | none => rfl
  | some p =>
    rw [hg] at h
    simp only [Option.getD_some] at h ⊢
    have hm : p ∈ Gen.charBits := List.mem_of_getElem? hg
    have := (List.all_eq_true.1 charBits_kw1_kw2) p hm
    simp only [h, Bool.not_true, Bool.false_or] at this
    exact this

theorem isIdCont_imp_isKw2 (c : CP) (h : isIdCont c = true) : isKw2 c = true := by
  simp only [isIdCont, Bool.and_eq_true] at h
  exact h.1

theorem isIdStart_imp_isIdCont (c : CP) (h : isIdStart c = true) : isIdCont c = true := by
  have h2 := isKw1_imp_isKw2 c h
  simp only [isIdCont, h2, Bool.true_and, bne_iff_ne, ne_eq]
  intro h64; subst h64; revert h; decide

theorem lastC_ident_kw2 {a : List CP} (ha : IsIdent a) : isKw2 (lastC a) = true := by
  obtain ⟨c, r, rfl, hc, hr⟩ := ha
  unfold lastC
  cases hl : (c :: r).getLast? with
  | none => simp at hl
  | some x =>
    have hx : x ∈ c :: r := List.mem_of_getLast? hl
    simp only [Option.getD_some]
    rcases List.mem_cons.1 hx with rfl | hx
    · exact isIdCont_imp_isKw2 _ (isIdStart_imp_isIdCont _ hc)
    · exact isIdCont_imp_isKw2 _ (hr x hx)

/-! ### the guard forces a space between a KW2 character and a KW1 character -/

theorem forceSpace_kw (lang : Nat) (dig permit aAC bAC : Bool) (a b : List CP) (c : CP) (r : List CP)
    (ha : a = c :: r) (hc : c ≠ 91 ∧ c ≠ 123 ∧ c ≠ 125 ∧ c ≠ 40 ∧ c ≠ 64)
    (h1 : isKw2 (lastC a) = true) (h2 : isKw1 (headC b) = true) :
    forceSpace lang dig permit a aAC b bAC = true := by
  subst ha
  obtain ⟨c1, c2, c3, c4, c5⟩ := hc
  unfold lastC at h1
  unfold headC at h2
  unfold forceSpace
  have e1 : (c :: r != [91, 93]) = true := by simp [c1]
  have e2 : (c :: r != [123, 123]) = true := by simp [c2]
  have e3 : (c :: r != [125, 125]) = true := by simp [c3]
  have e4 : (c :: r != [40, 41]) = true := by simp [c4]
  simp [e1, e2, e3, e4, c5, h1, h2]

theorem forceSpace_noAC (lang : Nat) (dig permit : Bool) (a b : List CP) :
    forceSpace lang dig permit a false b false = forceSpace lang dig false a false b false := by
  unfold forceSpace
  simp

/-! ### list helpers -/

theorem prefix_longer {e a y : List CP} (hp : e <+: a ++ y) (hl : a.length < e.length) :
    ∃ d y', y = d :: y' ∧ a ++ [d] <+: e := by
  obtain ⟨t, ht⟩ := hp
  have hap : a <+: e ++ t := by rw [ht]; exact List.prefix_append _ _
  have hae : a <+: e := by
    rcases List.prefix_or_prefix_of_prefix hap (List.prefix_append e t) with h | h
    · exact h
    · have := h.length_le; omega
  obtain ⟨u, rfl⟩ := hae
  rw [List.append_assoc] at ht
  have hy : y = u ++ t := (List.append_cancel_left ht).symm
  cases u with
  | nil => simp at hl
  | cons d u' =>
    refine ⟨d, u' ++ t, by simpa using hy, ?_⟩
    exact ⟨u', by simp⟩

theorem mem_of_append_singleton_prefix {a e : List CP} {d : CP} (h : a ++ [d] <+: e) : d ∈ e := by
  obtain ⟨t, rfl⟩ := h
  simp

end Unc

namespace Unc

/-! ### unpacking the decidable facts -/

theorem punctHeadB_spec {a : List CP} (h : punctHeadB a = true) :
    PunctHead a ∧ ∀ c ∈ a.head?, isIdCont c = false := by
  match a, h with
  | c :: r, h =>
    simp only [punctHeadB, Bool.and_eq_true, bne_iff_ne, ne_eq, Bool.not_eq_true', Bool.or_eq_true,
      List.isEmpty_iff] at h
    obtain ⟨⟨⟨⟨⟨⟨h92, h34⟩, h39⟩, hid⟩, hdg⟩, hic⟩, hsq⟩ := h
    refine ⟨⟨by simp, by simpa using h92, by simpa using h34, by simpa using h39, ?_, ?_, ?_⟩, ?_⟩
    · intro x hx; simp at hx; subst hx; exact hid
    · intro x hx; simp at hx; subst hx; exact hdg
    · intro hx
      simp only [List.head?_cons, Option.some.injEq] at hx
      rcases hsq with h | h
      · exact absurd hx h
      · subst h; rfl
    · intro x hx; simp at hx; subst hx; exact hic

structure LangFacts (l : Nat) : Prop where
  nodig : langDig l = false
  heads : ∀ a ∈ punctToks l, PunctHead a ∧ ∀ c ∈ a.head?, isIdCont c = false
  tagChars : ∀ t ∈ enabledTags l, ∀ x ∈ t, isIdStart x = false ∧ isDigit x = false
  noDotExt : ∀ a ∈ punctToks l, a ++ [46] ∉ enabledTags l
  noCmt : ∀ a ∈ punctToks l, 2 ≤ a.length → opensComment a = false ∧ dotDigit a = false

theorem langFacts_spec {l : Nat} (h : langFacts l = true) : LangFacts l := by
  simp only [langFacts, Bool.and_eq_true, List.all_eq_true, beq_iff_eq] at h
  obtain ⟨⟨⟨⟨h1, h2⟩, h3⟩, h4⟩, h5⟩ := h
  refine ⟨h1, fun a ha => punctHeadB_spec (h2 a ha), ?_, ?_, ?_⟩
  · intro t ht x hx
    have := h3 t ht x hx
    simpa using this
  · intro a ha hc
    have := h4 a ha
    simp only [Bool.not_eq_true', List.contains_eq_mem, decide_eq_false_iff_not] at this
    exact this hc
  · intro a ha hl
    have := h5 a ha
    simp only [Bool.or_eq_true, decide_eq_true_eq, Bool.and_eq_true, Bool.not_eq_true'] at this
    rcases this with h | h
    · omega
    · exact h

theorem punctToks_enabled {l : Nat} {a : List CP} (h : a ∈ punctToks l) : a ∈ enabledTags l := by
  simp only [punctToks, List.mem_filter] at h
  exact h.1

/-! ### heads of tokens -/

theorem number_head {sep : Bool} {b : List CP} (hb : IsNumber sep b) :
    ∃ d b', b = d :: b' ∧ (isDigit d = true ∨ (d = 46 ∧ ∃ d2 b'', b' = d2 :: b'' ∧ isDigit d2 = true)) := by
  obtain ⟨hne, hlen⟩ := hb
  match b, hne, hlen with
  | d :: b', _, hlen =>
    refine ⟨d, b', rfl, ?_⟩
    simp only [ppNumLen] at hlen
    by_cases hd : isDigit d = true
    · exact Or.inl hd
    · right
      simp only [hd, Bool.false_eq_true, if_false] at hlen
      by_cases h46 : (d == 46) = true
      · simp only [h46, if_true] at hlen
        refine ⟨by simpa using h46, ?_⟩
        match b', hlen with
        | [], hlen => simp at hlen
        | d2 :: b'', hlen =>
          refine ⟨d2, b'', rfl, ?_⟩
          by_cases hd2 : isDigit d2 = true
          · exact hd2
          · simp [hd2] at hlen
      · simp [h46] at hlen

/-- what the proof needs to know about the first character of the second token -/
structure HeadInfo (l : Nat) (kb : TokClass) (b : List CP) (d : CP) (b' : List CP) : Prop where
  eq : b = d :: b'
  h34 : d ≠ 34
  h39 : d ≠ 39
  word : kb = .word → isIdStart d = true
  number : kb = .number → isDigit d = true ∨ (d = 46 ∧ ∃ d2 b'', b' = d2 :: b'' ∧ isDigit d2 = true)
  punct : kb = .punct → isIdCont d = false ∧ isIdStart d = false ∧ isDigit d = false

theorem headInfo {l : Nat} (hf : LangFacts l) {kb : TokClass} {b : List CP} (hb : IsTok l kb b) :
    ∃ d b', HeadInfo l kb b d b' := by
  cases kb with
  | word =>
    obtain ⟨c, r, rfl, hc, _⟩ := hb
    obtain ⟨_, _, h34, h39⟩ := isIdStart_ne c hc
    exact ⟨c, r, rfl, h34, h39, fun _ => hc, (fun h => by cases h), (fun h => by cases h)⟩
  | number =>
    obtain ⟨d, b', rfl, hd⟩ := number_head hb
    refine ⟨d, b', rfl, ?_, ?_, (fun h => by cases h), fun _ => hd, (fun h => by cases h)⟩
    · rcases hd with h | ⟨h, _⟩
      · exact (isDigit_facts d h).2.2.1
      · subst h; decide
    · rcases hd with h | ⟨h, _⟩
      · exact (isDigit_facts d h).2.2.2.1
      · subst h; decide
  | punct =>
    obtain ⟨hh, hic⟩ := hf.heads b hb
    match b, hh, hic with
    | d :: b', hh, hic =>
      refine ⟨d, b', rfl, by simpa using hh.h34, by simpa using hh.h39, (fun h => by cases h), (fun h => by cases h),
        fun _ => ⟨hic d (by simp), hh.notId d (by simp), hh.notDigit d (by simp)⟩⟩

/-! ### unpacking `guardGap = false` -/

structure NoGap (l : Nat) (a b : List CP) : Prop where
  g1 : (a == [47] && (headC b == 47 || headC b == 42)) = false
  g2 : (isKw2 (lastC a) && isDigit (headC b)) = false
  g3 : (isNumberB (langSep l) a && headC b == 46) = false
  g4 : (isNumberB (langSep l) a && isExpChar (lastC a) && isSign (headC b)) = false
  g5 : (isNumberB (langSep l) a && !isKw2 (lastC a) && isIdCont (headC b)) = false
  g6 : (a == [46] && isDigit (headC b)) = false
  g7 : ((decide (4 ≤ a.length) || decide (4 ≤ b.length)) && !isKw2 (lastC a) && !isIdCont (headC b)) = false
  g8 : tagPrefixGap l a b = false

theorem noGap_of {l : Nat} {a b : List CP} (h : guardGap l a b = false) : NoGap l a b := by
  simp only [guardGap, Bool.or_eq_false_iff] at h
  obtain ⟨⟨⟨⟨⟨⟨⟨h1, h2⟩, h3⟩, h4⟩, h5⟩, h6⟩, h7⟩, h8⟩ := h
  exact ⟨h1, h2, h3, h4, h5, h6, h7, h8⟩

theorem isNumberB_of {sep : Bool} {a : List CP} (h : IsNumber sep a) : isNumberB sep a = true := by
  obtain ⟨hne, hl⟩ := h
  cases a with
  | nil => exact absurd rfl hne
  | cons c r => simp [isNumberB, hl]

/-! ### first token is an identifier -/

theorem safe_word {l : Nat} (hf : LangFacts l) {a : List CP} (ha : IsIdent a) {kb : TokClass} {b : List CP}
    (hb : IsTok l kb b) (hgap : guardGap l a b = false)
    (hforce : forceSpace l false false a false b false = false) : SafePairK l a .ident b := by
  obtain ⟨d, b', hi⟩ := headInfo hf hb
  have hg := noGap_of hgap
  have hkw := lastC_ident_kw2 ha
  have hhd : headC b = d := by rw [hi.eq]; rfl
  by_cases hidc : isIdCont d = true
  · exfalso
    cases kb with
    | word =>
      obtain ⟨c, r, rfl, hc, hr⟩ := ha
      have hc5 : c ≠ 91 ∧ c ≠ 123 ∧ c ≠ 125 ∧ c ≠ 40 ∧ c ≠ 64 := by
        refine ⟨?_, ?_, ?_, ?_, ?_⟩ <;> (intro h; subst h; revert hc; decide)
      have := forceSpace_kw l false false false false (c :: r) b c r rfl hc5 hkw (by rw [hhd]; exact hi.word rfl)
      rw [this] at hforce; cases hforce
    | number =>
      rcases hi.number rfl with h | ⟨h, _⟩
      · have := hg.g2
        rw [hhd, hkw, h] at this; cases this
      · subst h; revert hidc; decide
    | punct =>
      have := (hi.punct rfl).1
      rw [this] at hidc; cases hidc
  · have hidc' : isIdCont d = false := by simpa using hidc
    exact safePairK_ident l ha b d b' hi.eq ⟨hidc', hi.h34, hi.h39⟩

/-! ### first token is a pp-number -/

theorem safe_number {l : Nat} (hf : LangFacts l) {a : List CP} (ha : IsNumber (langSep l) a) {kb : TokClass}
    {b : List CP} (hb : IsTok l kb b) (hgap : guardGap l a b = false)
    (hforce : forceSpace l false false a false b false = false) : SafePairK l a .number b := by
  obtain ⟨d, b', hi⟩ := headInfo hf hb
  have hg := noGap_of hgap
  have hnum := isNumberB_of ha
  have hhd : headC b = d := by rw [hi.eq]; rfl
  obtain ⟨c, r, hcr, hchead⟩ : ∃ c r, a = c :: r ∧ (isDigit c = true ∨ c = 46) := by
    obtain ⟨c, r, h, hd⟩ := number_head ha
    exact ⟨c, r, h, hd.imp id (fun x => x.1)⟩
  have hlast : a.getLast? = some (lastC a) := by
    unfold lastC
    cases hl : a.getLast? with
    | none => rw [hcr] at hl; simp at hl
    | some x => rfl
  have hstop : ∀ rest, NumStop a.getLast? (b ++ rest) := by
    intro rest x hx
    rw [hi.eq] at hx
    simp only [List.cons_append, List.head?_cons, Option.mem_def, Option.some.injEq] at hx
    subst hx
    have h46 : d ≠ 46 := by
      intro h
      have := hg.g3
      rw [hnum, hhd, h] at this; cases this
    have hidc : isIdCont d = false := by
      cases hidc : isIdCont d with
      | false => rfl
      | true =>
        exfalso
        by_cases hk : isKw2 (lastC a) = true
        · cases kb with
          | word =>
            have hc5 : c ≠ 91 ∧ c ≠ 123 ∧ c ≠ 125 ∧ c ≠ 40 ∧ c ≠ 64 := by
              rcases hchead with h | h
              · have hf := isDigit_facts c h
                refine ⟨?_, ?_, ?_, ?_, ?_⟩ <;> (intro hx; subst hx; revert h; decide)
              · subst h; decide
            have := forceSpace_kw l false false false false a b c r hcr hc5 hk (by rw [hhd]; exact hi.word rfl)
            rw [this] at hforce; cases hforce
          | number =>
            rcases hi.number rfl with h | ⟨h, _⟩
            · have := hg.g2
              rw [hhd, hk, h] at this; cases this
            · exact h46 h
          | punct =>
            have := (hi.punct rfl).1
            rw [this] at hidc; cases hidc
        · have hk' : isKw2 (lastC a) = false := by simpa using hk
          have := hg.g5
          rw [hnum, hhd, hk', hidc] at this; cases this
    refine ⟨hidc, h46, hi.h39, ?_⟩
    intro hs c' hc'
    rw [hlast] at hc'
    simp only [Option.mem_def, Option.some.injEq] at hc'
    subst hc'
    cases he : isExpChar (lastC a) with
    | false => rfl
    | true =>
      have := hg.g4
      rw [hnum, hhd, he, hs] at this; cases this
  intro rest
  exact munchTok_number_append l ha (b ++ rest) (hstop rest)

end Unc

namespace Unc

/-! ### first token is a punctuator -/

theorem opensComment_append2 (x z : List CP) (h : 2 ≤ x.length) : opensComment (x ++ z) = opensComment x := by
  match x, h with
  | c :: d :: x', _ =>
    simp only [List.cons_append]
    unfold opensComment
    split <;> split <;> simp_all

theorem dotDigit_append2 (x z : List CP) (h : 2 ≤ x.length) : dotDigit (x ++ z) = dotDigit x := by
  match x, h with
  | c :: d :: x', _ =>
    simp only [List.cons_append]
    unfold dotDigit
    split <;> split <;> simp_all

theorem isIdStart_not_digit (d : CP) (h : isIdStart d = true) : isDigit d = false := by
  cases hd : isDigit d with
  | false => rfl
  | true => have := (isDigit_facts d hd).2.2.2.2.2.1; rw [this] at h; cases h

theorem head_of_prefix {x z : List CP} (hx : x ≠ []) (h : x <+: z) : x.head? = z.head? := by
  obtain ⟨t, rfl⟩ := h
  cases x with
  | nil => exact absurd rfl hx
  | cons c x' => rfl

/-- punctuator followed by a punctuator: the finite check -/
theorem safe_punct_punct {l : Nat} (hf : LangFacts l) (hpp : ppCheck l = true) {a b : List CP}
    (ha : a ∈ punctToks l) (hb : b ∈ punctToks l) (hgap : guardGap l a b = false)
    (hforce : forceSpace l false false a false b false = false) : SafePairK l a .punct b := by
  have hchk := (List.all_eq_true.1 ((List.all_eq_true.1 hpp) a ha)) b hb
  simp only [hgap, hforce, Bool.or_false, Bool.not_eq_true', Bool.or_eq_false_iff] at hchk
  obtain ⟨⟨hfus, hcm⟩, hdd⟩ := hchk
  obtain ⟨hha, _⟩ := hf.heads a ha
  obtain ⟨hhb, _⟩ := hf.heads b hb
  have hab2 : 2 ≤ (a ++ b).length := by
    have h1 : 0 < a.length := List.length_pos_iff.2 hha.ne
    have h2 : 0 < b.length := List.length_pos_iff.2 hhb.ne
    simp only [List.length_append]; omega
  intro rest
  have e : a ++ (b ++ rest) = (a ++ b) ++ rest := by simp
  refine munchTok_punct_append l hf.nodig (punctToks_enabled ha) hha (b ++ rest) ?_ ?_ ?_
  · rw [e, opensComment_append2 _ _ hab2]; exact hcm
  · rw [e, dotDigit_append2 _ _ hab2]; exact hdd
  · intro h91 e' he' hen' hp'
    rcases Nat.lt_or_ge a.length e'.1.length with hlt | hge
    · exfalso
      have hfus' : fusableWith ((enabledTags l).filter (sameHead a)) a b = false := by
        cases hx : fusableWith ((enabledTags l).filter (sameHead a)) a b with
        | false => rfl
        | true =>
          rw [hx] at hfus
          simp only [Bool.true_and, bne_eq_false_iff_eq] at hfus
          exact absurd hfus h91
      have hcmp : e'.1 <+: a ++ b ∨ a ++ b <+: e'.1 := by
        rw [e] at hp'
        exact List.prefix_or_prefix_of_prefix hp' (List.prefix_append _ _)
      have hne' : e'.1 ≠ [] := by intro h; rw [h] at hlt; simp at hlt
      have hmem : e'.1 ∈ (enabledTags l).filter (sameHead a) := by
        simp only [List.mem_filter, enabledTags, List.mem_map]
        refine ⟨⟨e', ⟨he', hen'⟩, rfl⟩, ?_⟩
        have h1 := head_of_prefix hne' hp'
        have h2 := head_of_prefix hha.ne (List.prefix_append a (b ++ rest))
        show sameHead a e'.1 = true
        unfold sameHead
        rw [h1, h2]
        exact beq_self_eq_true _
      have : fusableWith ((enabledTags l).filter (sameHead a)) a b = true := by
        simp only [fusableWith, List.any_eq_true]
        refine ⟨e'.1, hmem, ?_⟩
        simp only [Bool.and_eq_true, decide_eq_true_eq, Bool.or_eq_true, List.isPrefixOf_iff_prefix]
        exact ⟨hlt, hcmp⟩
      rw [this] at hfus'; cases hfus'
    · exact hge

/-- punctuator followed by an identifier or a pp-number -/
theorem safe_punct_other {l : Nat} (hf : LangFacts l) {a : List CP} (ha : a ∈ punctToks l) {kb : TokClass}
    {b : List CP} (hkb : kb ≠ .punct) (hb : IsTok l kb b) (hgap : guardGap l a b = false) :
    SafePairK l a .punct b := by
  obtain ⟨d, b', hi⟩ := headInfo hf hb
  have hg := noGap_of hgap
  obtain ⟨hha, _⟩ := hf.heads a ha
  have hhd : headC b = d := by rw [hi.eq]; rfl
  -- facts about d
  have hd : (isIdStart d = true ∨ isDigit d = true) ∨ (d = 46 ∧ ∃ d2 b'', b' = d2 :: b'' ∧ isDigit d2 = true) := by
    cases kb with
    | word => exact Or.inl (Or.inl (hi.word rfl))
    | number => exact (hi.number rfl).elim (fun h => Or.inl (Or.inr h)) Or.inr
    | punct => exact absurd rfl hkb
  have hd47 : d ≠ 47 ∧ d ≠ 42 := by
    rcases hd with (h | h) | ⟨h, _⟩
    · exact ⟨by intro hx; subst hx; revert h; decide, by intro hx; subst hx; revert h; decide⟩
    · exact ⟨by intro hx; subst hx; revert h; decide, by intro hx; subst hx; revert h; decide⟩
    · subst h; exact ⟨by decide, by decide⟩
  intro rest
  refine munchTok_punct_append l hf.nodig (punctToks_enabled ha) hha (b ++ rest) ?_ ?_ ?_
  · rcases Nat.lt_or_ge a.length 2 with h1 | h2
    · match a, hha.ne, h1 with
      | [c], _, _ =>
        rw [hi.eq]
        simp only [List.cons_append, List.nil_append]
        unfold opensComment
        split
        · rename_i heq; simp at heq; exact absurd heq.2.1 hd47.1
        · rename_i heq; simp at heq; exact absurd heq.2.1 hd47.2
        · rfl
    · rw [opensComment_append2 _ _ h2]; exact (hf.noCmt a ha h2).1
  · rcases Nat.lt_or_ge a.length 2 with h1 | h2
    · match a, hha.ne, h1, hg with
      | [c], _, _, hg =>
        rw [hi.eq]
        simp only [List.cons_append, List.nil_append]
        by_cases hc : c = 46
        · subst hc
          simp only [dotDigit]
          cases hdd : isDigit d with
          | false => rfl
          | true =>
            have := hg.g6
            rw [hhd, hdd] at this
            simp at this
        · unfold dotDigit
          split
          · rename_i heq; simp at heq; exact absurd heq.1 hc
          · rfl
    · rw [dotDigit_append2 _ _ h2]; exact (hf.noCmt a ha h2).2
  · intro _ e' he' hen' hp'
    rcases Nat.lt_or_ge a.length e'.1.length with hlt | hge
    · exfalso
      have hetag : e'.1 ∈ enabledTags l := by
        simp only [enabledTags, List.mem_map, List.mem_filter]
        exact ⟨e', ⟨he', hen'⟩, rfl⟩
      obtain ⟨d', y', hy', hpre⟩ := prefix_longer hp' hlt
      rw [hi.eq] at hy'
      simp only [List.cons_append, List.cons.injEq] at hy'
      obtain ⟨rfl, hy''⟩ := hy'
      have hmem := mem_of_append_singleton_prefix hpre
      obtain ⟨t1, t2⟩ := hf.tagChars e'.1 hetag d hmem
      rcases hd with (h | h) | ⟨h, d2, b'', hb', hd2⟩
      · rw [t1] at h; cases h
      · rw [t2] at h; cases h
      · subst h
        rcases Nat.lt_or_ge (a ++ [46]).length e'.1.length with hlt2 | hge2
        · -- the tag would contain the digit d2
          have hp2 : e'.1 <+: (a ++ [46]) ++ (d2 :: b'' ++ rest) := by
            rw [hi.eq, hb'] at hp'
            simpa [List.append_assoc] using hp'
          obtain ⟨d3, y3, hy3, hpre3⟩ := prefix_longer hp2 hlt2
          simp only [List.cons_append, List.cons.injEq] at hy3
          obtain ⟨rfl, _⟩ := hy3
          have hmem3 := mem_of_append_singleton_prefix hpre3
          have := (hf.tagChars e'.1 hetag d2 hmem3).2
          rw [this] at hd2; cases hd2
        · -- the tag would be a ++ "."
          have : e'.1 = a ++ [46] := by
            obtain ⟨t, ht⟩ := hpre
            have hl : (a ++ [46] ++ t).length = e'.1.length := by rw [ht]
            simp only [List.length_append, List.length_cons, List.length_nil] at hl hge2
            have : t = [] := List.length_eq_zero_iff.1 (by omega)
            subst this
            simpa using ht.symm
          exact hf.noDotExt a ha (this ▸ hetag)
    · exact hge

theorem safePairK_safePair {l : Nat} {a b : List CP} {k : Kind} (h : SafePairK l a k b) : safePair l a b := by
  intro rest
  have := h rest
  unfold MunchesAs at this
  simp only [munchLen, List.append_assoc, this, Option.map_some]

/-- **completeness of the fusion guard up to `guardGap`**, for a language satisfying the decidable facts -/
theorem fuse_guard_core {l : Nat} (hf : LangFacts l) (hpp : ppCheck l = true) (permit : Bool)
    {ka kb : TokClass} {a b : List CP} (ha : IsTok l ka a) (hb : IsTok l kb b)
    (hgap : guardGap l a b = false) (hns : ¬ safePair l a b) :
    forceSpace l false permit a false b false = true := by
  rw [forceSpace_noAC]
  cases hforce : forceSpace l false false a false b false with
  | true => rfl
  | false =>
    exfalso
    apply hns
    cases ka with
    | word => exact safePairK_safePair (safe_word hf ha hb hgap hforce)
    | number => exact safePairK_safePair (safe_number hf ha hb hgap hforce)
    | punct =>
      cases kb with
      | punct => exact safePairK_safePair (safe_punct_punct hf hpp ha hb hgap hforce)
      | word => exact safePairK_safePair (safe_punct_other hf ha (by decide) hb hgap)
      | number => exact safePairK_safePair (safe_punct_other hf ha (by decide) hb hgap)

end Unc
