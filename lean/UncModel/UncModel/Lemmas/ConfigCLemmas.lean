import UncModel.Config
/-!
# Lemmas about the C-library pieces of `Config`: decimal printing and `strtol`
-/
namespace Unc

theorem isDigitB_iff (c : Nat) : isDigitB c = true ↔ 48 ≤ c ∧ c ≤ 57 := by
  simp [isDigitB]

theorem isSpaceB_of_digit {c : Nat} (h : isDigitB c = true) : isSpaceB c = false := by
  have := (isDigitB_iff c).1 h
  simp [isSpaceB]; omega

/-- left fold of decimal digits -/
def foldDigits (a : Nat) (l : Bytes) : Nat := l.foldl (fun a c => a * 10 + (c - 48)) a

theorem digitsVal_append (l rest : Bytes) (a : Nat) (hl : ∀ c ∈ l, isDigitB c = true) :
    digitsVal a (l ++ rest) = digitsVal (foldDigits a l) rest := by
  induction l generalizing a with
  | nil => simp [foldDigits]
  | cons c cs ih =>
    have hc : isDigitB c = true := hl c (by simp)
    simp only [List.cons_append, digitsVal, hc, ↓reduceIte]
    rw [ih _ (fun x hx => hl x (by simp [hx]))]
    simp [foldDigits]

theorem digitsVal_all (l : Bytes) (a : Nat) (hl : ∀ c ∈ l, isDigitB c = true) :
    digitsVal a l = (foldDigits a l, []) := by
  have := digitsVal_append l [] a hl
  simpa [digitsVal] using this

theorem natDecAux_append (f n : Nat) (acc : Bytes) : natDecAux f n acc = natDecAux f n [] ++ acc := by
  induction f generalizing n acc with
  | zero => simp [natDecAux]
  | succ f ih =>
    simp only [natDecAux]
    split
    · simp
    · rw [ih (n / 10) ((48 + n % 10) :: acc), ih (n / 10) [48 + n % 10]]; simp

theorem natDecAux_fuel2 (f g n : Nat) (acc : Bytes) (h : n < f) (h' : n < g) :
    natDecAux f n acc = natDecAux g n acc := by
  induction f generalizing g n acc with
  | zero => omega
  | succ f ih =>
    cases g with
    | zero => omega
    | succ g =>
      simp only [natDecAux]
      split
      · rfl
      · exact ih g (n / 10) _ (by omega) (by omega)

theorem natDecAux_fuel (f n : Nat) (acc : Bytes) (h : n < f) : natDecAux f n acc = natDecAux (n + 1) n acc :=
  natDecAux_fuel2 f (n + 1) n acc h (by omega)

theorem natDec_lt10 {n : Nat} (h : n < 10) : natDec n = [48 + n] := by
  simp [natDec, natDecAux, h]

theorem natDec_ge10 {n : Nat} (h : ¬ n < 10) : natDec n = natDec (n / 10) ++ [48 + n % 10] := by
  unfold natDec
  rw [natDecAux]
  simp only [h, ↓reduceIte]
  rw [natDecAux_append, natDecAux_fuel n (n / 10) [] (by omega)]

theorem natDec_digits (n : Nat) : ∀ c ∈ natDec n, isDigitB c = true := by
  induction n using Nat.strongRecOn with
  | _ n ih =>
    by_cases h : n < 10
    · rw [natDec_lt10 h]; intro c hc; simp at hc; subst hc; simp [isDigitB]; omega
    · rw [natDec_ge10 h]; intro c hc
      rcases List.mem_append.1 hc with hc | hc
      · exact ih (n / 10) (by omega) c hc
      · simp at hc; subst hc; simp [isDigitB]; omega

theorem foldDigits_append (a : Nat) (l m : Bytes) : foldDigits a (l ++ m) = foldDigits (foldDigits a l) m := by
  simp [foldDigits]

theorem foldDigits_natDec (n : Nat) : foldDigits 0 (natDec n) = n := by
  induction n using Nat.strongRecOn with
  | _ n ih =>
    by_cases h : n < 10
    · rw [natDec_lt10 h]; simp [foldDigits]
    · rw [natDec_ge10 h, foldDigits_append, ih (n / 10) (by omega)]
      simp [foldDigits]; omega

theorem natDec_ne_nil (n : Nat) : natDec n ≠ [] := by
  by_cases h : n < 10
  · rw [natDec_lt10 h]; simp
  · rw [natDec_ge10 h]; simp

theorem digitsVal_natDec (n : Nat) : digitsVal 0 (natDec n) = (n, []) := by
  rw [digitsVal_all _ _ (natDec_digits n), foldDigits_natDec]

/-- the first character of a decimal rendering -/
theorem natDec_head (n : Nat) : ∃ c cs, natDec n = c :: cs ∧ isDigitB c = true := by
  cases h : natDec n with
  | nil => exact absurd h (natDec_ne_nil n)
  | cons c cs => exact ⟨c, cs, rfl, natDec_digits n c (by simp [h])⟩

theorem takeSign_digit {c : Nat} (cs : Bytes) (hc : isDigitB c = true) : takeSign (c :: cs) = (false, c :: cs) := by
  have h48 := (isDigitB_iff c).1 hc
  unfold takeSign
  split
  · rename_i heq; simp at heq; omega
  · rename_i heq; simp at heq; omega
  · rfl

theorem strtol_natDec (n : Nat) (h : (n : Int) ≤ LONG_MAX) : strtol (natDec n) = ((n : Int), []) := by
  obtain ⟨c, cs, hcs, hc⟩ := natDec_head n
  have hd := digitsVal_natDec n
  have hs : isSpaceB c = false := isSpaceB_of_digit hc
  rw [hcs] at hd
  unfold strtol
  rw [hcs]
  simp only [List.dropWhile, hs, takeSign_digit cs hc, hc, ↓reduceIte, hd]
  simp [clampLong, LONG_MAX, LONG_MIN] at *
  omega

theorem strtol_neg_natDec (n : Nat) (h : -(n : Int) ≥ LONG_MIN) : strtol (45 :: natDec n) = (-(n : Int), []) := by
  obtain ⟨c, cs, hcs, hc⟩ := natDec_head n
  have hd := digitsVal_natDec n
  rw [hcs] at hd
  unfold strtol
  rw [hcs]
  have h45 : isSpaceB 45 = false := by decide
  simp only [List.dropWhile, h45, takeSign, hc, ↓reduceIte, hd]
  simp [clampLong, LONG_MAX, LONG_MIN] at *
  omega

/-- `strtol(to_string(v))` reads `v` back completely, for every `long` -/
theorem strtol_intDec (v : Int) (h1 : LONG_MIN ≤ v) (h2 : v ≤ LONG_MAX) : strtol (intDec v) = (v, []) := by
  unfold intDec
  split
  · rename_i hneg
    have : -((v.natAbs : Nat) : Int) = v := by omega
    rw [strtol_neg_natDec _ (by omega), this]
  · rename_i hpos
    have : ((v.natAbs : Nat) : Int) = v := by omega
    rw [strtol_natDec _ (by omega), this]

end Unc
