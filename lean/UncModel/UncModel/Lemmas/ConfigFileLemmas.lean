import UncModel.Lemmas.ConfigSaveLemmas
/-!
# Loading a saved file: the block of option lines, comment lines
-/
namespace Unc
open Gen

/-- text that can stand in a line of a configuration file: no byte ≥ 128, no LF -/
def asciiB (l : Bytes) : Bool := l.all (fun c => decide (c < 128) && c != 10)

theorem asciiB_cons (c : Nat) (cs : Bytes) : asciiB (c :: cs) = true ↔ (c < 128 ∧ c ≠ 10) ∧ asciiB cs = true := by
  simp [asciiB]

theorem nonPrintablePos_ascii (l : Bytes) (n : Nat) (h : asciiB l = true) : nonPrintablePos n l = none := by
  induction l generalizing n with
  | nil => rfl
  | cons c cs ih =>
    rw [asciiB_cons] at h
    have h2 : ¬ c ≥ 128 := by omega
    simp only [nonPrintablePos, h2, ↓reduceIte]
    split
    · rfl
    · exact ih _ h.2

theorem asciiB_append (a b : Bytes) : asciiB (a ++ b) = (asciiB a && asciiB b) := by simp [asciiB]

theorem asciiB_of_forall (l : Bytes) (h : ∀ c ∈ l, c < 128 ∧ c ≠ 10) : asciiB l = true := by
  simpa [asciiB] using h

theorem asciiB_forall (l : Bytes) (h : asciiB l = true) : ∀ c ∈ l, c < 128 ∧ c ≠ 10 := by
  simpa [asciiB] using h

/-- string values that a configuration FILE can hold: ASCII (bytes ≥ 128 are refused by `load_option_file`) -/
def asciiVal : Val → Bool
  | .s s => asciiB s
  | _ => true

theorem plain_lt_128_of_nameCh (l : Bytes) (h : l.all nameCh = true) : asciiB l = true := by
  apply asciiB_of_forall
  intro c hc
  have : ∀ c ∈ l, nameCh c = true := by simpa using h
  have h1 := nameCh_spec (this c hc)
  have h2 := plainCh_spec h1.1
  refine ⟨h1.2.2.2.1, ?_⟩
  intro e; subst e; simp [isArgSep, isSpaceB] at h2

theorem natDec_ascii (n : Nat) : asciiB (natDec n) = true := by
  apply asciiB_of_forall
  intro c hc
  have := (isDigitB_iff c).1 (natDec_digits n c hc)
  omega

theorem intDec_ascii (v : Int) : asciiB (intDec v) = true := by
  unfold intDec
  split
  · rw [asciiB_cons]; exact ⟨by omega, natDec_ascii _⟩
  · exact natDec_ascii _

theorem escapeArg_ascii (s : Bytes) (h : asciiB s = true) : asciiB (escapeArg s) = true := by
  induction s with
  | nil => rfl
  | cons c cs ih =>
    rw [asciiB_cons] at h
    have ih' := ih h.2
    simp only [escapeArg]
    split
    · rw [asciiB_cons, asciiB_cons]; exact ⟨by omega, h.1, ih'⟩
    · rw [asciiB_cons]; exact ⟨h.1, ih'⟩

theorem names_lookup_ascii (k : OKind) (hk : k = .bool ∨ k = .iarf ∨ k = .lineend ∨ k = .tokenpos) (x : Nat) (nm : Bytes)
    (h : (namesOf k).lookup x = some nm) : asciiB nm = true := by
  have ht := enumTableOK_of_kind k hk
  simp only [enumTableOK, Bool.and_eq_true, List.all_eq_true] at ht
  have := ht.1.2 _ (mem_of_lookup _ _ _ h)
  exact plain_lt_128_of_nameCh _ (by simpa using this.2)

theorem saveLine_ascii {i : Nat} {d : OptDecl} (h : optionTable[i]? = some d) (v : Val)
    (hv : admissible d v = true) (ha : asciiVal v = true) : asciiB (saveLine d v) = true := by
  have hf := rowFacts h
  have hname := plain_lt_128_of_nameCh _ hf.nameCh
  have hsp : ∀ n, asciiB (spaces n) = true := by
    intro n; apply asciiB_of_forall; intro c hc
    simp only [spaces, List.mem_replicate] at hc; omega
  unfold saveLine
  simp only [asciiB_append, hname, hsp, Bool.true_and]
  have h2 : asciiB [61, 32] = true := by decide
  simp only [h2, Bool.true_and]
  cases hkind : d.kind <;> cases v <;> simp only [admissible, hkind, Bool.false_eq_true] at hv
  · rename_i b
    cases b
    · exact names_lookup_ascii .bool (Or.inl rfl) 0 _ rfl
    · exact names_lookup_ascii .bool (Or.inl rfl) 1 _ rfl
  · rename_i x
    obtain ⟨nm, hnm⟩ := Option.isSome_iff_exists.1 hv
    simpa [valStr, hnm] using names_lookup_ascii .iarf (by simp) x nm hnm
  · rename_i x
    obtain ⟨nm, hnm⟩ := Option.isSome_iff_exists.1 hv
    simpa [valStr, hnm] using names_lookup_ascii .lineend (by simp) x nm hnm
  · rename_i x
    obtain ⟨nm, hnm⟩ := Option.isSome_iff_exists.1 hv
    simpa [valStr, hnm] using names_lookup_ascii .tokenpos (by simp) x nm hnm
  · simpa [valStr] using intDec_ascii _
  · simpa [valStr] using intDec_ascii _
  · rename_i s
    have hz : ∀ c ∈ s, c ≠ 0 := by
      intro c hc; have := List.all_eq_true.1 hv c hc; simpa using this
    simp only [beq_self_eq_true, ↓reduceIte, valStr, cstr_quote s hz]
    simp only [quoteArg, Bool.not_true, Bool.false_and, Bool.false_eq_true, ↓reduceIte]
    have := escapeArg_ascii s (by simpa [asciiVal] using ha)
    rw [asciiB_cons, asciiB_append, this]
    exact ⟨by omega, by decide⟩

/-- one step of the `getline` loop on a live state and a printable line -/
theorem loadLines_cons (incl : Option (Bytes → Int → St → St)) (fname : Bytes) (compat : Int) (st : St)
    (l : Bytes) (ls : List Bytes) (hlive : st.exit = none) (hp : nonPrintablePos 0 l = none) :
    loadLines incl fname compat st (l :: ls)
      = loadLines incl fname (processLine incl fname compat { st with lineNo := st.lineNo + 1 } l).2
          (processLine incl fname compat { st with lineNo := st.lineNo + 1 } l).1 ls := by
  rw [loadLines]
  simp [hlive, hp]

/-- the valuation after loading the option lines for the table suffix `ds` (which starts at index `k`) -/
def loadedVals (σ : Valuation) : Nat → List OptDecl → Valuation → Valuation
  | _, [], acc => acc
  | k, _ :: ds, acc => loadedVals σ (k + 1) ds (setV acc k (getV σ k))

/-- every option holds an admissible, ASCII value -/
def WellFormed (σ : Valuation) : Prop :=
  ∀ i d, optionTable[i]? = some d → admissible d (getV σ i) = true ∧ asciiVal (getV σ i) = true

/-- Loading the block of option lines that the writer produces for `σ` (non-minimal dump), followed by any
    further lines `tail`: after the block every option of the block holds its value of `σ`; nothing else
    changed; the line counter advanced; no diagnostics. -/
theorem loadLines_optionLines (σ : Valuation) (hwf : WellFormed σ)
    (incl : Option (Bytes → Int → St → St)) (fname : Bytes) (compat : Int) (tail : List Bytes) :
    ∀ (ds : List OptDecl) (k : Nat) (st : St), (∀ j d, ds[j]? = some d → optionTable[k + j]? = some d) →
      st.exit = none →
      loadLines incl fname compat st (optionLinesAux σ false k ds ++ tail)
        = loadLines incl fname compat
            { st with vals := loadedVals σ k ds st.vals, lineNo := st.lineNo + ds.length } tail := by
  intro ds
  induction ds with
  | nil => intro k st _ _; simp [optionLinesAux, loadedVals]
  | cons d ds ih =>
    intro k st hget hlive
    have hd : optionTable[k]? = some d := by simpa using hget 0 d (by simp)
    obtain ⟨hadm, hasc⟩ := hwf k d hd
    simp only [optionLinesAux, Bool.false_and, Bool.false_eq_true, ↓reduceIte, List.cons_append]
    rw [loadLines_cons _ _ _ _ _ _ hlive (nonPrintablePos_ascii _ 0 (saveLine_ascii hd _ hadm hasc)),
      processLine_saveLine hd _ hadm]
    simp only []
    have := ih (k + 1) ({ st with lineNo := st.lineNo + 1 }.setOpt k (getV σ k))
      (by intro j e hj; have := hget (j + 1) e (by simpa using hj); simpa [Nat.add_assoc, Nat.add_comm 1 j] using this)
      (by simp [St.setOpt, hlive])
    rw [this]
    congr 1
    simp only [St.setOpt, loadedVals, List.length_cons]
    congr 1
    omega

theorem getV_loadedVals (σ : Valuation) : ∀ (ds : List OptDecl) (k : Nat) (acc : Valuation) (j : Nat),
    getV (loadedVals σ k ds acc) j = if k ≤ j ∧ j < k + ds.length then getV σ j else getV acc j := by
  intro ds
  induction ds with
  | nil => intro k acc j; simp [loadedVals]; omega
  | cons d ds ih =>
    intro k acc j
    simp only [loadedVals, List.length_cons]
    rw [ih]
    by_cases hj : j = k
    · subst hj
      have h1 : ¬ (j + 1 ≤ j ∧ j < j + 1 + ds.length) := by omega
      have h2 : j ≤ j ∧ j < j + (ds.length + 1) := by omega
      simp [h1, h2, getV, setV]
    · by_cases hr : k + 1 ≤ j ∧ j < k + 1 + ds.length
      · have : k ≤ j ∧ j < k + (ds.length + 1) := by omega
        simp [hr, this]
      · have : ¬ (k ≤ j ∧ j < k + (ds.length + 1)) := by omega
        have hjk : (j == k) = false := by simp [hj]
        simp [hr, this, getV, setV, List.lookup, hjk]

/-- a comment line has no effect -/
theorem processLine_comment (incl : Option (Bytes → Int → St → St)) (fname : Bytes) (compat : Int) (st : St)
    (cmt : Bytes) : processLine incl fname compat st (35 :: cmt) = (st, compat) := by
  have := splitArgs_comment [] cmt (by simp)
  simp only [List.nil_append] at this
  simp [processLine, this]

end Unc
