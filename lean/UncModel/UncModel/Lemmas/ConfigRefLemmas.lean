import UncModel.Lemmas.ConfigReadLemmas
/-!
# References to other options, and the `--set` path
-/
namespace Unc
open Gen

theorem findOption_name {j : Nat} {e : OptDecl} (h : optionTable[j]? = some e) : findOption e.name = some j := by
  unfold findOption
  rw [toLowerS_name _ (rowFacts h).nameCh, findExact_name h]

theorem spellings_lower (k : OKind) (hk : k = .bool ∨ k = .iarf ∨ k = .lineend ∨ k = .tokenpos) :
    ∀ p ∈ spellingsOf k, toLowerS p.1 = p.1 := by
  have := enumTableOK_of_kind k hk
  simp only [enumTableOK, Bool.and_eq_true, List.all_eq_true] at this
  intro p hp
  exact toLowerS_name _ (by simpa using this.2 p hp)

theorem spellings_sub_all (k : OKind) (hk : k = .bool ∨ k = .iarf ∨ k = .lineend ∨ k = .tokenpos) :
    ∀ p ∈ spellingsOf k, p ∈ allSpellings := by
  intro p hp
  rcases hk with rfl | rfl | rfl | rfl <;> simp [allSpellings, spellingsOf] at hp ⊢ <;> simp [hp]

/-- an option name is never a spelling of a value -/
theorem convertString_name_none {j : Nat} {e : OptDecl} (h : optionTable[j]? = some e) (k : OKind)
    (hk : k = .bool ∨ k = .iarf ∨ k = .lineend ∨ k = .tokenpos) :
    convertString (spellingsOf k) e.name = none := by
  unfold convertString
  have hb := rowOKb_of_get h
  simp only [rowOKb, List.all_eq_true, bne_iff_ne, ne_eq] at hb
  have : (spellingsOf k).find? (fun p => strcaseEq e.name p.1) = none := by
    rw [List.find?_eq_none]
    intro p hp
    have hne := hb p (spellings_sub_all k hk p hp)
    unfold strcaseEq
    rw [toLowerS_name _ (rowFacts h).nameCh, spellings_lower k hk p hp]
    simp only [beq_iff_eq]
    exact fun e' => hne e'.symm
  simp [this]

/-- a name of an option is not a number -/
theorem strtol_name {j : Nat} {e : OptDecl} (h : optionTable[j]? = some e) :
    (strtol e.name).2 ≠ [] ∧ stripMinus e.name = (false, e.name) := by
  have hf := rowFacts h
  cases hn : e.name with
  | nil => exact absurd hn hf.nameNe
  | cons c cs =>
    have hfl := hf.firstLetter
    rw [hn] at hfl
    simp only [List.head?_cons, Option.all_some, Bool.and_eq_true, decide_eq_true_eq] at hfl
    have hsp : isSpaceB c = false := by simp [isSpaceB]; omega
    have hdg : isDigitB c = false := by simp [isDigitB]; omega
    refine ⟨?_, stripMinus_of_not_minus c cs (by omega)⟩
    simp [strtol, List.dropWhile, hsp, takeSign_of_not_sign c cs (by omega) (by omega), hdg]

end Unc
