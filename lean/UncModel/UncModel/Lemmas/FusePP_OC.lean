import UncModel.Lemmas.FuseDefs
namespace Unc
set_option maxRecDepth 100000 in
theorem ppCheck_OC : ppCheck 32 = true := by decide +kernel
theorem langFacts_OC : langFacts 32 = true := by decide +kernel
end Unc
