import UncModel.Lemmas.ConfigProcLemmas
/-!
# Outcome of the value readers: a value is stored, or diagnostics are added and nothing else changes
-/
namespace Unc
open Gen

/-- `st` with the diagnostics `ds` (newest first) added and nothing else changed -/
def St.plusDiags (st : St) (ds : List Diag) : St := { st with diags := ds ++ st.diags }

@[simp] theorem St.plusDiags_nil (st : St) : st.plusDiags [] = st := by simp [St.plusDiags]
theorem St.plusDiags_plusDiags (st : St) (a b : List Diag) : (st.plusDiags a).plusDiags b = st.plusDiags (b ++ a) := by
  simp [St.plusDiags]
@[simp] theorem St.plusDiags_vals (st : St) (ds : List Diag) : (st.plusDiags ds).vals = st.vals := rfl
@[simp] theorem St.plusDiags_cfgName (st : St) (ds : List Diag) : (st.plusDiags ds).cfgName = st.cfgName := rfl
@[simp] theorem St.plusDiags_lineNo (st : St) (ds : List Diag) : (st.plusDiags ds).lineNo = st.lineNo := rfl

theorem St.warnO_eq (st : St) (k : DiagKind) (i : Nat) (a : Bytes) :
    st.warnO k i a = st.plusDiags [⟨k, st.cfgName, st.lineNo, nameOf i, a⟩] := by
  simp [St.warnO, St.plusDiags]

theorem St.warnF_eq (st : St) (f : Bytes) (k : DiagKind) (n a : Bytes) :
    st.warnF f k n a = st.plusDiags [⟨k, f, st.lineNo, n, a⟩] := by
  simp [St.warnF, St.plusDiags]

/-- a diagnostic of the `Option<T>: at FILE:LINE:` kind for option `i` in state `st` -/
def Diag.names (x : Diag) (st : St) (i : Nat) : Prop :=
  x.file = st.cfgName ∧ x.line = st.lineNo ∧ x.name = nameOf i

/-- every option holds a value of its type and within its bounds -/
def WellTyped (σ : Valuation) : Prop := ∀ j e, optionTable[j]? = some e → admissible e (getV σ j) = true

/-- `v` is admissible for `d` provided the state it was read in is well-typed (a reference copies the value of
    another option) -/
def AdmIfWT (st : St) (d : OptDecl) (v : Val) : Prop := WellTyped st.vals → admissible d v = true

/-- the two outcomes of reading a value: one value satisfying `P` is stored, silently; or the value is refused
    with diagnostics naming file, line and option, and nothing else changes -/
inductive ReadResult (st : St) (i : Nat) (P : Val → Prop) : St × Bool → Prop
  | stored (v : Val) (hv : P v) : ReadResult st i P (st.setOpt i v, true)
  | refused (ds : List Diag) (hne : ds ≠ []) (hn : ∀ x ∈ ds, x.names st i) : ReadResult st i P (st.plusDiags ds, false)

theorem names_warnO (st : St) (k : DiagKind) (i : Nat) (a : Bytes) :
    ∀ x ∈ [(⟨k, st.cfgName, st.lineNo, nameOf i, a⟩ : Diag)], x.names st i := by
  intro x hx; simp at hx; subst hx; exact ⟨rfl, rfl, rfl⟩

/-- `validate` either accepts silently — then the value is within the bounds of a bounded option — or adds one
    diagnostic naming file, line and option -/
theorem validate_cases {i : Nat} {d : OptDecl} (h : optionTable[i]? = some d) (st : St) (v : Int) :
    (validate st i v = (st, true) ∧ (d.bounded = true → d.lo ≤ v ∧ v ≤ d.hi)) ∨
    ∃ x : Diag, x.names st i ∧ (x.kind = .lessThanMin ∨ x.kind = .greaterThanMax) ∧ x.arg = intDec v ∧
      validate st i v = (st.plusDiags [x], false) := by
  by_cases hb : d.bounded = true
  · by_cases h1 : v < d.lo
    · right
      refine ⟨⟨.lessThanMin, st.cfgName, st.lineNo, nameOf i, intDec v⟩, ⟨rfl, rfl, rfl⟩, Or.inl rfl, rfl, ?_⟩
      simp [validate, h, hb, h1, St.warnO_eq]
    · by_cases h2 : v > d.hi
      · right
        refine ⟨⟨.greaterThanMax, st.cfgName, st.lineNo, nameOf i, intDec v⟩, ⟨rfl, rfl, rfl⟩, Or.inr rfl, rfl, ?_⟩
        simp [validate, h, hb, h1, h2, St.warnO_eq]
      · left
        refine ⟨?_, fun _ => ⟨by omega, by omega⟩⟩
        simp [validate, h, hb, h1, h2]
  · left
    refine ⟨?_, fun e => absurd e hb⟩
    simp [validate, h, hb]

theorem wrap32_range (v : Int) : -2147483648 ≤ wrap32 v ∧ wrap32 v ≤ 2147483647 := by
  unfold wrap32; simp only; split <;> omega

/-- storing a validated number: what is stored is admissible for the option (in bounds; within `int`) -/
theorem storeNumber_cases {i : Nat} {d : OptDecl} (h : optionTable[i]? = some d) (hk : d.kind = .num ∨ d.kind = .unum)
    (st : St) (v : Int) :
    (∃ x, admissible d (.n x) = true ∧ storeNumber st i v = (st.setOpt i (.n x), true)) ∨
    ∃ x : Diag, x.names st i ∧ (x.kind = .lessThanMin ∨ x.kind = .greaterThanMax) ∧ x.arg = intDec v ∧
      storeNumber st i v = (st.plusDiags [x], false) := by
  have hf := rowFacts h
  unfold storeNumber
  rcases validate_cases h st v with ⟨hv, hb⟩ | ⟨x, hx, hxk, hxa, hv⟩
  · left
    refine ⟨castNum (kindOf i) v, ?_, by simp [hv]⟩
    rw [kindOf_get h]
    rcases hk with hk | hk
    · simp only [castNum, hk, beq_self_eq_true, ↓reduceIte, admissible]
      by_cases hbd : d.bounded = true
      · have := hf.boundedNum hbd
        have hr := hb hbd
        rw [wrap32_id (by omega) (by omega)]
        simp [hbd, hr.1, hr.2]
      · have := wrap32_range v
        simp [hbd, this.1, this.2]
    · have hu := hf.unumBounded hk
      have hbn := hf.boundedNum hu.1
      have hr := hb hu.1
      have hne : (OKind.unum == OKind.num) = false := by decide
      simp only [castNum, hk, hne, Bool.false_eq_true, ↓reduceIte, admissible]
      have hmod : v % 4294967296 = v := by omega
      simp [hmod, hu.1, hr.1, hr.2]
  · right; exact ⟨x, hx, hxk, hxa, by simp [hv]⟩

end Unc

namespace Unc
open Gen

/-! ## a complete number is never an option name: validation failure ends in a refusal -/

def isLetterB (c : Nat) : Bool := (97 ≤ c && c ≤ 122) || (65 ≤ c && c ≤ 90)

theorem findExact_none_of_head (s : Bytes) (h : s.head?.any (fun c => 97 ≤ c && c ≤ 122) = false) :
    findExact s = none := by
  unfold findExact
  rw [List.findIdx?_eq_none_iff]
  intro d hd
  have hrow := List.all_eq_true.1 rows_ok_a d hd
  simp only [rowOKa, Bool.and_eq_true] at hrow
  have hfl := hrow.1.1.1.1.1.2
  have hne := hrow.1.1.1.1.1.1.1
  by_cases heq : d.name = s
  · exfalso
    rw [heq] at hfl hne
    cases s with
    | nil => simp at hne
    | cons c cs =>
      simp only [List.head?_cons, Option.all_some, Option.any_some] at hfl h
      rw [hfl] at h; exact Bool.noConfusion h
  · simpa using heq

theorem toLowerS_head_not_letter (s : Bytes) (h : s.head?.any isLetterB = false) :
    (toLowerS s).head?.any (fun c => 97 ≤ c && c ≤ 122) = false := by
  cases s with
  | nil => simp [toLowerS, cstr]
  | cons c cs =>
    simp only [List.head?_cons, Option.any_some] at h
    unfold toLowerS cstr
    by_cases h0 : c = 0
    · subst h0; simp
    · have hb : (c != 0) = true := by simp [h0]
      simp only [List.takeWhile, hb, List.map_cons, List.head?_cons, Option.any_some]
      simp only [isLetterB, Bool.or_eq_false_iff, Bool.and_eq_false_imp, decide_eq_true_eq, decide_eq_false_iff_not] at h
      simp only [lowerB]
      split <;> simp <;> omega

theorem takeSign_of_not_sign (c : Nat) (cs : Bytes) (h1 : c ≠ 45) (h2 : c ≠ 43) : takeSign (c :: cs) = (false, c :: cs) := by
  unfold takeSign
  split
  · rename_i heq; simp at heq; omega
  · rename_i heq; simp at heq; omega
  · rfl

theorem stripMinus_of_not_minus (c : Nat) (cs : Bytes) (h1 : c ≠ 45) : stripMinus (c :: cs) = (false, c :: cs) := by
  unfold stripMinus
  split
  · rename_i heq; simp at heq; omega
  · rfl

/-- if `strtol` consumed the whole text, the text (without a leading '-') does not start with a letter -/
theorem strtol_complete_head (w : Bytes) (v : Int) (h : strtol w = (v, [])) :
    (stripMinus w).2.head?.any isLetterB = false := by
  cases w with
  | nil => rfl
  | cons c cs =>
    by_cases h45 : c = 45
    · subst h45
      have hs : isSpaceB 45 = false := by decide
      simp only [strtol, List.dropWhile, hs, takeSign] at h
      simp only [stripMinus]
      cases cs with
      | nil => rfl
      | cons e es =>
        simp only [] at h
        by_cases hd : isDigitB e = true
        · have := (isDigitB_iff e).1 hd
          simp [isLetterB]; omega
        · simp [hd] at h
    · rw [stripMinus_of_not_minus c cs h45]
      simp only [List.head?_cons, Option.any_some]
      by_cases hl : isLetterB c = true
      · exfalso
        have hl' := hl
        simp only [isLetterB, Bool.or_eq_true, Bool.and_eq_true, decide_eq_true_eq] at hl'
        have hsp : isSpaceB c = false := by simp [isSpaceB]; omega
        have hdg : isDigitB c = false := by simp [isDigitB]; omega
        simp only [strtol, List.dropWhile, hsp, takeSign_of_not_sign c cs h45 (by omega), hdg,
          Bool.false_eq_true, ↓reduceIte] at h
        simp at h
      · simpa using hl

theorem findOption_none_of_complete (w : Bytes) (v : Int) (h : strtol w = (v, [])) :
    findOption (stripMinus w).2 = none :=
  findExact_none_of_head _ (toLowerS_head_not_letter _ (strtol_complete_head w v h))

/-! ## results of the readers -/

theorem findOption_get {w : Bytes} {j : Nat} (h : findOption w = some j) : ∃ e, optionTable[j]? = some e := by
  unfold findOption findExact at h
  have := (List.findIdx?_eq_some_iff_findIdx_eq.1 h).1
  exact ⟨optionTable[j], List.getElem?_eq_getElem this⟩

theorem admissible_enum_congr {d e : OptDecl} (hk : d.kind = e.kind)
    (hd : d.kind = .iarf ∨ d.kind = .lineend ∨ d.kind = .tokenpos) (v : Val) (h : admissible e v = true) :
    admissible d v = true := by
  have he : e.kind = d.kind := hk.symm
  unfold admissible at h ⊢
  rcases hd with hd | hd | hd <;> rw [hd] at he <;> rw [he] at h <;> rw [hd] <;> cases v <;> simp_all

theorem admissible_of_spelling {d : OptDecl} (hd : d.kind = .iarf ∨ d.kind = .lineend ∨ d.kind = .tokenpos)
    (w : Bytes) (v : Nat) (h : convertString (spellingsOf d.kind) w = some v) : admissible d (.e v) = true := by
  have ht := enumTableOK_of_kind d.kind (Or.inr hd)
  simp only [enumTableOK, Bool.and_eq_true, List.all_eq_true] at ht
  unfold convertString at h
  cases hfind : (spellingsOf d.kind).find? (fun p => strcaseEq w p.1) with
  | none => simp [hfind] at h
  | some p =>
    simp only [hfind, Option.map_some, Option.some.injEq] at h
    have := ht.1.1.2 p (List.mem_of_find?_eq_some hfind)
    rw [h] at this
    rcases hd with hd | hd | hd <;> simp_all [admissible]

theorem readNumberRef_result {i : Nat} {d : OptDecl} (h : optionTable[i]? = some d) (hk : d.kind = .num ∨ d.kind = .unum)
    (st : St) (w : Bytes) : ReadResult st i (AdmIfWT st d) (readNumberRef st i w) := by
  unfold readNumberRef
  simp only []
  cases hfo : findOption (stripMinus w).2 with
  | none =>
    simp only []
    rw [St.warnO_eq]
    exact .refused _ (by simp) (names_warnO _ _ _ _)
  | some j =>
    simp only []
    split
    · rcases storeNumber_cases h hk st
        (if (stripMinus w).1 = true then -numOfVal (getV st.vals j) else numOfVal (getV st.vals j)) with ⟨x, hx, hv⟩ | ⟨x, hx, _, _, hv⟩
      · rw [hv]; exact .stored _ (fun _ => hx)
      · rw [hv]
        exact .refused _ (by simp) (by intro y hy; simp at hy; subst hy; exact hx)
    · rw [St.warnO_eq]
      exact .refused _ (by simp) (names_warnO _ _ _ _)

theorem readNumber_result {i : Nat} {d : OptDecl} (h : optionTable[i]? = some d) (hk : d.kind = .num ∨ d.kind = .unum)
    (st : St) (w : Bytes) : ReadResult st i (AdmIfWT st d) (readNumber st i w) := by
  unfold readNumber
  simp only []
  split
  · rename_i hrest
    have hcomplete : strtol w = ((strtol w).1, []) := by
      have : (strtol w).2 = [] := by simpa using hrest
      rw [← this]
    rcases storeNumber_cases h hk st (strtol w).1 with ⟨x, hx, hv⟩ | ⟨x, hx, _, _, hv⟩
    · simp only [hv, ↓reduceIte]; exact .stored _ (fun _ => hx)
    · simp only [hv, Bool.false_eq_true, ↓reduceIte]
      have hnone := findOption_none_of_complete w _ hcomplete
      unfold readNumberRef
      simp only [hnone]
      rw [St.warnO_eq, St.plusDiags_plusDiags]
      refine .refused _ (by simp) ?_
      intro y hy
      simp at hy
      rcases hy with rfl | rfl
      · exact ⟨rfl, rfl, rfl⟩
      · exact hx
  · exact readNumberRef_result h hk st w

theorem readBool_result {i : Nat} {d : OptDecl} (hd : d.kind = .bool) (st : St) (w : Bytes) :
    ReadResult st i (AdmIfWT st d) (readBool st i w) := by
  have hadm : ∀ b, admissible d (.b b) = true := by intro b; simp [admissible, hd]
  unfold readBool
  repeat' split
  all_goals first
    | exact .stored _ (fun _ => hadm _)
    | (rw [St.warnO_eq]; exact .refused _ (by simp) (names_warnO _ _ _ _))

theorem readEnum_result {i : Nat} {d : OptDecl} (h : optionTable[i]? = some d)
    (hd : d.kind = .iarf ∨ d.kind = .lineend ∨ d.kind = .tokenpos) (st : St) (w : Bytes) :
    ReadResult st i (AdmIfWT st d) (readEnum st i w) := by
  have hki := kindOf_get h
  unfold readEnum
  rw [hki]
  cases hc : convertString (spellingsOf d.kind) w with
  | some v => exact .stored _ (fun _ => admissible_of_spelling hd w v hc)
  | none =>
    simp only []
    cases hfo : findOption w with
    | none => simp only []; rw [St.warnO_eq]; exact .refused _ (by simp) (names_warnO _ _ _ _)
    | some j =>
      simp only []
      obtain ⟨e, he⟩ := findOption_get hfo
      split
      · rw [St.warnO_eq]; exact .refused _ (by simp) (names_warnO _ _ _ _)
      · rename_i hkk
        have hke : e.kind = d.kind := by
          have := kindOf_get he
          simp only [bne_iff_ne, ne_eq, Decidable.not_not] at hkk
          rw [← this, hkk]
        exact .stored _ (fun hwt => admissible_enum_congr hke.symm hd _ (hwt j e he))

/-- **Outcome of reading any text as the value of option `i`** (well-typed state, C-string text):
    a value admissible for the option is stored silently, or the text is refused with diagnostics naming
    file, line and option and nothing else changes. -/
theorem readOption_result {i : Nat} {d : OptDecl} (h : optionTable[i]? = some d) (st : St)
    (w : Bytes) (hz : ∀ c ∈ w, c ≠ 0) :
    ReadResult st i (AdmIfWT st d) (readOption st i w) := by
  have hki := kindOf_get h
  unfold readOption
  rw [hki]
  cases hk : d.kind <;> simp only []
  · exact readBool_result hk st w
  · exact readEnum_result h (Or.inl hk) st w
  · exact readEnum_result h (Or.inr (Or.inl hk)) st w
  · exact readEnum_result h (Or.inr (Or.inr hk)) st w
  · exact readNumber_result h (Or.inl hk) st w
  · exact readNumber_result h (Or.inr hk) st w
  · exact .stored _ (fun _ => by simp [admissible, hk]; exact hz)

theorem cstr_nonzero (s : Bytes) : ∀ c ∈ cstr s, c ≠ 0 := by
  unfold cstr
  induction s with
  | nil => intro c hc; simp at hc
  | cons a as ih =>
    intro c hc
    by_cases ha : a = 0
    · subst ha; simp [List.takeWhile] at hc
    · have hb : (a != 0) = true := by simp [ha]
      simp only [List.takeWhile, hb, List.mem_cons] at hc
      rcases hc with rfl | hc
      · exact ha
      · exact ih c hc

/-- storing an admissible value keeps the state well-typed -/
theorem WellTyped_set {σ : Valuation} (hw : WellTyped σ) {i : Nat} {d : OptDecl} (h : optionTable[i]? = some d)
    (v : Val) (hv : admissible d v = true) : WellTyped (setV σ i v) := by
  intro j e hj
  by_cases hji : j = i
  · subst hji
    have : e = d := by rw [h] at hj; exact (Option.some.inj hj).symm
    subst this
    have hg : getV (setV σ j v) j = v := by simp [getV, setV]
    rw [hg]; exact hv
  · have hg : getV (setV σ i v) j = getV σ j := by
      have : (j == i) = false := by simp [hji]
      simp [getV, setV, List.lookup, this]
    rw [hg]; exact hw j e hj

theorem not_directive_of_contains {cmd : Bytes} (h : directives.contains cmd = false) :
    (cmd == sType) = false ∧ (cmd == sSet) = false ∧ (cmd == sFileExt) = false ∧
    (cmd == sMacroOpen) = false ∧ (cmd == sMacroClose) = false ∧ (cmd == sMacroElse) = false ∧
    (cmd == sInclude) = false ∧ (cmd == sUsing) = false := by
  simp only [directives, List.contains_cons, List.contains_nil, Bool.or_false, Bool.or_eq_false_iff] at h
  obtain ⟨a, b, c, e, f, g, i, j⟩ := h
  exact ⟨a, b, c, e, f, g, i, j⟩


end Unc
