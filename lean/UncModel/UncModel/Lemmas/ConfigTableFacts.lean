import UncModel.Lemmas.ConfigTableDefs
/-!
# Facts decided over the WHOLE generated tables (`decide +kernel`), part 1 (names, types, bounds)

Re-checked whenever `Gen/*.lean` is regenerated from the sources.  Only linear-time checks (the kernel
needs ~0.1 ms per list step; a quadratic check over 857 options takes minutes); spread over several
files so that lake checks them in parallel.
-/
namespace Unc
open Gen

theorem nameHashes_distinct : distinctMask nameHashes 0 = true := by decide +kernel

theorem optionTable_length : optionTable.length = optionCount := by decide +kernel

theorem rows_ok_a : optionTable.all rowOKa = true := by decide +kernel

end Unc
