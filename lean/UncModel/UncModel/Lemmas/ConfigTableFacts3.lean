import UncModel.Lemmas.ConfigTableDefs
/-!
# Facts decided over the WHOLE generated tables (`decide +kernel`), part 3 (guarded options, languages, tokens)

Re-checked whenever `Gen/*.lean` is regenerated from the sources.  Only linear-time checks (the kernel
needs ~0.1 ms per list step; a quadratic check over 857 options takes minutes); spread over several
files so that lake checks them in parallel.
-/
namespace Unc
open Gen

theorem guardIdx_ok : guardIdxOK = true := by decide +kernel

/-- `language_name_from_flags(language_flags_from_name(name))` is the entry itself, for every entry -/
theorem languages_ok :
    ((List.range languageNames.length).all fun l => findLanguage (languageNames.getD l ([], 0)).1 == some l) = true := by
  decide +kernel

theorem languageShape_ok : languageShapeOK = true := by decide +kernel

theorem tokenHashes_distinct : distinctMask tokenHashes 0 = true := by decide +kernel

theorem tokenNamesShape_ok : tokenNamesShapeOK = true := by decide +kernel

end Unc
