import UncModel.Lemmas.RenderLemmas
/-!
# More lemmas about the output machine and `output_text()`

1. verbatim text: `add_text` of a text without line breaks writes the text itself (C03)
2. disabled regions: a run of `IGNORED` / `NEWLINE` chunks is copied through (C07)
-/

namespace Unc

/-! ## 1. verbatim text -/

/-- what is written once the pending spaces are flushed (oldest first) -/
def fout (s : OutSt) : List CP := s.out ++ List.replicate s.spaces 32

/-- one `add_char` of a code point that is not a line break, when no CR is pending, tabs are not expanded
    to spaces, and (literal, or not a tab): the code point itself is written (or left pending, for a space) -/
theorem addChar_verbatim (c : OutCfg) (s : OutSt) (ch : CP) (lit : Bool) (h10 : ch ≠ 10) (h13 : ch ≠ 13)
    (hl : s.last ≠ 13) (hts : s.tabSp = false) (hlit : lit = true ∨ ch ≠ 9) :
    fout (addChar c s ch lit) = fout s ++ [ch] ∧ (addChar c s ch lit).last = ch ∧
    (addChar c s ch lit).tabSp = false ∧ (ch ≠ 32 → (addChar c s ch lit).spaces = 0) := by
  have hp : addChar c s ch lit = addPlain c s ch := by
    unfold addChar
    rw [crPrologue_of_ne c s ch hl]
    rcases hlit with h | h
    · simp [hts, h]
    · simp [h]
  rw [hp]
  unfold addPlain
  rw [crPrologue_of_ne c s ch hl]
  simp only [h10, h13, if_false]
  split
  · rename_i h
    refine ⟨?_, rfl, hts, fun hne => absurd h.1 hne⟩
    simp [fout, OutSt.out, List.replicate_succ', h.1]
  · refine ⟨?_, rfl, hts, fun _ => rfl⟩
    simp [fout, OutSt.out, flushSpaces]

theorem addText_verbatim (c : OutCfg) (txt : List CP) (lit : Bool) :
    ∀ (s : OutSt), (∀ x ∈ txt, x ≠ 10 ∧ x ≠ 13) → s.last ≠ 13 → s.tabSp = false →
      (lit = true ∨ ∀ x ∈ txt, x ≠ 9) →
      fout (addText c s txt lit) = fout s ++ txt ∧ (addText c s txt lit).tabSp = false ∧
      (∀ x, txt.getLast? = some x → x ≠ 32 → (addText c s txt lit).spaces = 0) := by
  induction txt with
  | nil => intro s _ _ hts _; exact ⟨by simp [addText], hts, by simp⟩
  | cons y t ih =>
    intro s hx hl hts hlit
    have hy := hx y (by simp)
    obtain ⟨h1, h2, h3, h4⟩ := addChar_verbatim c s y lit hy.1 hy.2 hl hts
      (hlit.imp id (fun h => h y (by simp)))
    obtain ⟨i1, i2, i3⟩ := ih (addChar c s y lit) (fun x hx' => hx x (by simp [hx']))
      (by rw [h2]; exact hy.2) h3 (hlit.imp id (fun h x hx' => h x (by simp [hx'])))
    have e : addText c s (y :: t) lit = addText c (addChar c s y lit) t lit := rfl
    rw [e]
    refine ⟨by rw [i1, h1]; simp, i2, ?_⟩
    intro x hx' hne
    cases t with
    | nil =>
      simp at hx'
      subst hx'
      exact h4 hne
    | cons z t' =>
      rw [List.getLast?_cons_cons] at hx'
      exact i3 x hx' hne

theorem addText_verbatim_out (c : OutCfg) (s : OutSt) (txt : List CP) (lit : Bool)
    (hx : ∀ x ∈ txt, x ≠ 10 ∧ x ≠ 13) (hne : txt ≠ []) (hlast : ∀ x, txt.getLast? = some x → x ≠ 32)
    (hts : s.tabSp = false) (hl : s.last ≠ 13) (hlit : lit = true ∨ ∀ x ∈ txt, x ≠ 9) :
    (addText c s txt lit).out = s.out ++ List.replicate s.spaces 32 ++ txt ∧
    (addText c s txt lit).spaces = 0 := by
  obtain ⟨h1, _, h3⟩ := addText_verbatim c txt lit s hx hl hts hlit
  cases hg : txt.getLast? with
  | none => exact absurd (List.getLast?_eq_none_iff.1 hg) hne
  | some x =>
    have hsp := h3 x hg (hlast x hg)
    refine ⟨?_, hsp⟩
    have : fout (addText c s txt lit) = (addText c s txt lit).out := by simp [fout, hsp]
    rw [← this, h1]; rfl

/-! ### `output_tab_as_space` is not touched by the machine -/

theorem crPrologue_tabSp (c : OutCfg) (s : OutSt) (ch : CP) : (crPrologue c s ch).tabSp = s.tabSp := by
  unfold crPrologue; split <;> rfl

theorem addPlain_tabSp (c : OutCfg) (s : OutSt) (ch : CP) : (addPlain c s ch).tabSp = s.tabSp := by
  unfold addPlain; simp only []
  split
  · exact crPrologue_tabSp c s ch
  · split
    · exact crPrologue_tabSp c s ch
    · split <;> exact crPrologue_tabSp c s ch

theorem addSpacesTo_tabSp (c : OutCfg) (n : Nat) (s : OutSt) : (addSpacesTo c n s).tabSp = s.tabSp := by
  induction n generalizing s with
  | zero => rfl
  | succ n ih => exact (ih _).trans (addPlain_tabSp c s 32)

theorem addChar_tabSp (c : OutCfg) (s : OutSt) (ch : CP) (lit : Bool) :
    (addChar c s ch lit).tabSp = s.tabSp := by
  unfold addChar; simp only []
  split
  · exact (addSpacesTo_tabSp c _ _).trans (crPrologue_tabSp c s ch)
  · split
    · exact (addSpacesTo_tabSp c _ _).trans (crPrologue_tabSp c s ch)
    · exact addPlain_tabSp c s ch

theorem tabsTo_tabSp (c : OutCfg) (t f : Nat) (s : OutSt) : (tabsTo c t f s).tabSp = s.tabSp := by
  induction f generalizing s with
  | zero => rfl
  | succ f ih => unfold tabsTo; split
                 · exact (ih _).trans (addChar_tabSp c s 9 false)
                 · rfl

theorem spacesTo_tabSp (c : OutCfg) (t f : Nat) (s : OutSt) : (spacesTo c t f s).tabSp = s.tabSp := by
  induction f generalizing s with
  | zero => rfl
  | succ f ih => unfold spacesTo; split
                 · exact (ih _).trans (addChar_tabSp c s 32 false)
                 · rfl

theorem outputToColumn_tabSp (c : OutCfg) (s : OutSt) (col : Nat) (at' : Bool) :
    (outputToColumn c s col at').tabSp = s.tabSp := by
  unfold outputToColumn
  simp only []
  rw [spacesTo_tabSp]
  cases at'
  · rfl
  · exact tabsTo_tabSp c _ _ _

/-- the indentation of the general branch: blanks only, no CR pending afterwards, flag untouched -/
theorem textIndent_bext (c : OutCfg) (o : RenderOpts) (s : OutSt) (pc : Chunk) (prevCol prevLen : Nat)
    (hl : s.last ≠ 13) :
    BExt s (textIndent c o s pc prevCol prevLen) ∧ (textIndent c o s pc prevCol prevLen).tabSp = s.tabSp := by
  have h0 : BExt s { s with trail := pc.ty = "STRING_MULTI" } := ⟨hl, ExtP.of_out_eq rfl⟩
  cases hdn : s.didNl with
  | true =>
    rw [textIndent_of_didNl c o s pc prevCol prevLen hdn]
    have hp : BExt { s with trail := pc.ty = "STRING_MULTI" } (preIndent c { s with trail := pc.ty = "STRING_MULTI" } pc) ∧
        (preIndent c { s with trail := pc.ty = "STRING_MULTI" } pc).tabSp = s.tabSp := by
      unfold preIndent
      split
      · split
        · exact ⟨outputToColumn_bext c _ _ _ hl, outputToColumn_tabSp c _ _ _⟩
        · exact ⟨⟨hl, ExtP.refl _ _⟩, rfl⟩
      · exact ⟨⟨hl, ExtP.refl _ _⟩, rfl⟩
    exact ⟨h0.trans (hp.1.trans (outputToColumn_bext c _ _ _ hp.1.1)),
      (outputToColumn_tabSp c _ _ _).trans hp.2⟩
  | false =>
    rw [textIndent_of_not_didNl c o s pc prevCol prevLen hdn]
    exact ⟨h0.trans (outputToColumn_bext c _ _ _ hl), outputToColumn_tabSp c _ _ _⟩

/-! ## 2. disabled regions -/

/-- the chunks of a disabled region: `CT_IGNORED` lines and `CT_NEWLINE` chunks -/
inductive RegionItem
  | line (txt : List CP)
  | brk (n : Nat)

def RegionItem.chunk : RegionItem → Chunk
  | .line t => { ty := "IGNORED", txt := t }
  | .brk n => { ty := "NEWLINE", nl := n, nlCol := 0 }

def regionChunks (items : List RegionItem) : List Chunk := items.map RegionItem.chunk

def RegionItem.bytes (nl : List CP) : RegionItem → List CP
  | .line t => t
  | .brk n => (List.replicate n nl).flatten

def regionBytes (nl : List CP) (items : List RegionItem) : List CP := items.flatMap (RegionItem.bytes nl)

theorem renderLoop_ignored (c : OutCfg) (o : RenderOpts) (cs : Array Chunk) (cmt : Nat → Option CmtInfo)
    (f i : Nat) (prev : Nat × Nat) (s : RSt) (t : List CP)
    (h : cs[i]? = some (RegionItem.line t).chunk) :
    renderLoop c o cs cmt (f + 1) i prev s =
      renderLoop c o cs cmt f (i + 1) ((RegionItem.line t).chunk.col, (RegionItem.line t).chunk.len)
        (rRaw { s with o := { s.o with tabSp := false } } t) := by
  rw [renderLoop]
  simp only [h, RegionItem.chunk]
  rw [if_neg (by decide), if_neg (by decide), if_neg (by simp [Chunk.isCommentTy]), if_pos (by decide)]

theorem renderLoop_newline (c : OutCfg) (o : RenderOpts) (cs : Array Chunk) (cmt : Nat → Option CmtInfo)
    (f i : Nat) (prev : Nat × Nat) (s : RSt) (n : Nat)
    (h : cs[i]? = some (RegionItem.brk n).chunk) :
    renderLoop c o cs cmt (f + 1) i prev s =
      renderLoop c o cs cmt f (i + 1) ((RegionItem.brk n).chunk.col, (RegionItem.brk n).chunk.len)
        (renderNewline c { s with o := { s.o with tabSp := false } } (RegionItem.brk n).chunk) := by
  rw [renderLoop]
  simp only [h, RegionItem.chunk]
  rw [if_pos (by decide)]

/-- a `NEWLINE` chunk with `nl_column ≤ 1` reached with nothing pending: exactly `nl_count` terminators -/
theorem renderNewline_plain (c : OutCfg) (s : RSt) (pc : Chunk) (hs : s.o.spaces = 0) (hcol : pc.nlCol ≤ 1) :
    (renderNewline c s pc).o.rout = (List.replicate pc.nl c.nl).flatten.reverse ++ s.o.rout ∧
    (renderNewline c s pc).o.spaces = 0 := by
  unfold renderNewline
  simp only []
  refine nl_fold_plain c _ pc.nl ?_ s hs
  intro s k _
  have : ¬ (k > 0 ∧ pc.nlCol > 1) := by omega
  simp only [this, if_false]
  rfl

theorem renderNewline_region (c : OutCfg) (s : RSt) (n : Nat) (hs : s.o.spaces = 0) :
    (renderNewline c s (RegionItem.brk n).chunk).o.out = s.o.out ++ (List.replicate n c.nl).flatten ∧
    (renderNewline c s (RegionItem.brk n).chunk).o.spaces = 0 := by
  obtain ⟨h1, h2⟩ := renderNewline_plain c s (RegionItem.brk n).chunk hs (by show 0 ≤ 1; omega)
  refine ⟨?_, h2⟩
  show (renderNewline c s (RegionItem.brk n).chunk).o.rout.reverse = _
  rw [h1]
  simp [OutSt.out, RegionItem.chunk]

/-- a disabled region embedded in a chunk list: the loop walks over it and writes its bytes -/
theorem renderLoop_region (c : OutCfg) (o : RenderOpts) (cs : Array Chunk) (cmt : Nat → Option CmtInfo)
    (items : List RegionItem) :
    ∀ (post : List Chunk) (f i : Nat) (prev : Nat × Nat) (s : RSt),
      cs.toList.drop i = regionChunks items ++ post → items.length ≤ f → s.o.spaces = 0 →
      (∀ t, RegionItem.line t ∈ items → ∀ x ∈ t, x ≠ 10 ∧ x ≠ 13) →
      ∃ prev' s', renderLoop c o cs cmt f i prev s =
          renderLoop c o cs cmt (f - items.length) (i + items.length) prev' s' ∧
        s'.o.out = s.o.out ++ regionBytes c.nl items ∧ s'.o.spaces = 0 := by
  induction items with
  | nil =>
    intro post f i prev s _ _ hs _
    exact ⟨prev, s, by simp, by simp [regionBytes], hs⟩
  | cons it items ih =>
    intro post f i prev s hd hf hs hl
    obtain ⟨f', rfl⟩ : ∃ f', f = f' + 1 := ⟨f - 1, by simp at hf; omega⟩
    have hpc : cs[i]? = some it.chunk := by
      have := @List.getElem?_drop _ cs.toList i 0
      rw [hd] at this
      simpa [regionChunks] using this.symm
    have hd' : cs.toList.drop (i + 1) = regionChunks items ++ post := by
      rw [← List.drop_drop, hd]; simp [regionChunks]
    have hl' : ∀ t, RegionItem.line t ∈ items → ∀ x ∈ t, x ≠ 10 ∧ x ≠ 13 :=
      fun t ht => hl t (List.mem_cons_of_mem _ ht)
    have ef : f' + 1 - (it :: items).length = f' - items.length := by simp
    have ei : i + (it :: items).length = i + 1 + items.length := by simp; omega
    simp at hf
    cases it with
    | line t =>
      have e1 := renderLoop_ignored c o cs cmt f' i prev s t hpc
      have hs1 : (rRaw { s with o := { s.o with tabSp := false } } t).o.spaces = 0 := by
        rw [rRaw_o]; exact hs
      obtain ⟨p2, s2, e2, o2, sp2⟩ := ih post f' (i + 1) _ _ hd' hf hs1 hl'
      refine ⟨p2, s2, by rw [e1, e2, ef, ei], ?_, sp2⟩
      rw [o2, rRaw_o, addRaw_out]
      simp [regionBytes, RegionItem.bytes, OutSt.out]
    | brk n =>
      have e1 := renderLoop_newline c o cs cmt f' i prev s n hpc
      obtain ⟨ho, hs1⟩ := renderNewline_region c { s with o := { s.o with tabSp := false } } n hs
      obtain ⟨p2, s2, e2, o2, sp2⟩ := ih post f' (i + 1) _ _ hd' hf hs1 hl'
      refine ⟨p2, s2, by rw [e1, e2, ef, ei], ?_, sp2⟩
      rw [o2, ho]
      simp [regionBytes, RegionItem.bytes, OutSt.out]

end Unc
