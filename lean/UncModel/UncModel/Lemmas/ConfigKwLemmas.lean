import UncModel.Lemmas.ConfigFileLemmas
/-!
# Keyword and extension lines written by the writer, read back by the loader
-/
namespace Unc
open Gen

/-! ## token names -/

theorem tokenLower_nodup : (tokenNames.map toLowerS).Nodup := by
  have h := (distinctMask_sound _ _ tokenHashes_distinct).1
  have e : tokenHashes = (tokenNames.map toLowerS).map (fun n => encB n % tokenHashMod) := by
    simp [tokenHashes, List.map_map, Function.comp_def]
  rw [e] at h
  exact List.Pairwise.of_map (fun n => encB n % tokenHashMod) (fun a b hab e => hab (by rw [e])) h

theorem tokenName_shape {t : Nat} {n : Bytes} (h : tokenNames[t]? = some n) :
    n ≠ [] ∧ (∀ c ∈ n, plainCh c = true) ∧ asciiB n = true := by
  have hs := tokenNamesShape_ok
  simp only [tokenNamesShapeOK, Bool.and_eq_true] at hs
  have hn := List.all_eq_true.1 hs.1.1.1.1 n (List.mem_of_getElem? h)
  simp only [Bool.and_eq_true, Bool.not_eq_eq_eq_not, Bool.not_true, List.all_eq_true, decide_eq_true_eq,
    List.isEmpty_eq_false_iff] at hn
  refine ⟨hn.1, fun c hc => (hn.2 c hc).1, ?_⟩
  apply asciiB_of_forall
  intro c hc
  refine ⟨(hn.2 c hc).2, ?_⟩
  intro e; subst e
  have := plainCh_spec (hn.2 10 hc).1
  simp [isArgSep, isSpaceB] at this

theorem plain_nonzero {c : Nat} (h : plainCh c = true) : c ≠ 0 := by
  intro e; subst e; simp [plainCh, isQuoteCh] at h

/-- `find_token_name(token_names[t]) = t` for every token but CT_NONE -/
theorem findTokenName_name {t : Nat} {n : Bytes} (h : tokenNames[t]? = some n) (ht : 1 ≤ t) :
    findTokenName (cstr n) = t := by
  obtain ⟨hne, hpl, _⟩ := tokenName_shape h
  rw [cstr_of_nonzero n (fun c hc => plain_nonzero (hpl c hc))]
  unfold findTokenName
  have he : n.isEmpty = false := by simpa using hne
  simp only [he, Bool.false_eq_true, ↓reduceIte]
  have hnd : ((tokenNames.drop 1).map toLowerS).Nodup := by
    have := tokenLower_nodup
    rw [List.map_drop]
    exact List.Nodup.sublist (List.drop_sublist 1 _) this
  have hget : ((tokenNames.drop 1).map toLowerS)[t - 1]? = some (toLowerS n) := by
    rw [List.getElem?_map, List.getElem?_drop]
    have : 1 + (t - 1) = t := by omega
    rw [this, h]; rfl
  have := findIdx?_of_nodup _ hnd (t - 1) (toLowerS n) hget
  rw [List.findIdx?_map] at this
  have hpred : (fun n' => strcaseEq n n') = ((fun x => x == toLowerS n) ∘ toLowerS) := by
    funext n'; simp only [strcaseEq, Function.comp]; exact BEq.comm
  rw [hpred, this]
  simp; omega

/-! ## how `quote_config_arg(word)` reads back -/

theorem quoteArg_renders (w : Bytes) (hz : ∀ c ∈ w, c ≠ 0) : Renders (quoteArg false w) w := by
  unfold quoteArg
  by_cases hq : needsQuote w = true
  · simp only [Bool.not_false, hq, Bool.not_true, Bool.and_false, Bool.false_eq_true, ↓reduceIte]
    exact Renders.quoted w
  · have hq' : needsQuote w = false := by simpa using hq
    simp only [hq', Bool.not_false, Bool.and_self, ↓reduceIte]
    simp only [needsQuote, Bool.or_eq_false_iff, List.isEmpty_eq_false_iff, List.any_eq_false, Bool.not_eq_true] at hq'
    refine Renders.plain w hq'.1 ?_
    intro c hc
    have h1 := hq'.2 c hc
    have h0 := hz c hc
    simp only [beq_eq_false_iff_ne, ne_eq] at h1
    simp only [plainCh, isQuoteCh, Bool.and_eq_true, Bool.not_eq_eq_eq_not, Bool.not_true, bne_iff_ne, ne_eq,
      Bool.or_eq_false_iff, beq_eq_false_iff_ne]
    obtain ⟨⟨⟨⟨⟨a, b⟩, c'⟩, d⟩, e⟩, f⟩ := h1
    exact ⟨⟨⟨a, b⟩, c'⟩, ⟨⟨⟨d, e⟩, f⟩, h0⟩⟩

theorem cstr_quoteArg_false (w : Bytes) (hz : ∀ c ∈ w, c ≠ 0) : cstr (quoteArg false w) = quoteArg false w := by
  apply cstr_of_nonzero
  unfold quoteArg
  split
  · exact hz
  · intro c hc
    simp only [List.mem_cons, List.mem_append, List.not_mem_nil, or_false] at hc
    rcases hc with rfl | hc | rfl
    · decide
    · exact escapeArg_nonzero w hz c hc
    · decide

theorem quoteArg_ascii (b : Bool) (w : Bytes) (h : asciiB w = true) : asciiB (quoteArg b w) = true := by
  unfold quoteArg
  split
  · exact h
  · rw [asciiB_cons, asciiB_append, escapeArg_ascii w h]
    exact ⟨by omega, by decide⟩

/-! ## three-argument lines -/

theorem splitArgs_three (name s1 t1 w1 s2 t2 w2 : Bytes) (hn : name ≠ []) (hp : ∀ c ∈ name, plainCh c = true)
    (h1 : s1 ≠ []) (hs1 : ∀ c ∈ s1, isArgSep c = true) (hr1 : Renders t1 w1)
    (h2 : s2 ≠ []) (hs2 : ∀ c ∈ s2, isArgSep c = true) (hr2 : Renders t2 w2) :
    splitArgs isArgSep (name ++ s1 ++ t1 ++ s2 ++ t2) = .ok [name, w1, w2] := by
  unfold splitArgs
  cases s1 with
  | nil => exact absurd rfl h1
  | cons a as =>
    cases s2 with
    | nil => exact absurd rfl h2
    | cons b bs =>
      have e : name ++ a :: as ++ t1 ++ b :: bs ++ t2 = name ++ a :: (as ++ (t1 ++ b :: (bs ++ t2))) := by simp
      rw [e, splitRun_skip_renders_sep (Renders.plain name hn hp) [] a _ (hs1 a (by simp)),
        splitRun_skip_seps as _ _ (fun x hx => hs1 x (by simp [hx])),
        splitRun_skip_renders_sep hr1 _ b _ (hs2 b (by simp)),
        splitRun_skip_seps bs _ _ (fun x hx => hs2 x (by simp [hx])),
        splitRun_skip_renders hr2]
      simp

theorem sep_spaces (n : Nat) : (32 :: spaces n) ≠ [] ∧ ∀ c ∈ 32 :: spaces n, isArgSep c = true := by
  refine ⟨by simp, ?_⟩
  intro c hc
  rcases List.mem_cons.1 hc with rfl | hc
  · decide
  · exact spaces_sep n c hc

/-! ## keyword lines -/

/-- a keyword as the writer can print and the loader can read it back: a C string; the token is a real token -/
def KwOK (p : Bytes × Nat) : Prop := (∀ c ∈ p.1, c ≠ 0) ∧ 1 ≤ p.2 ∧ p.2 < tokenNames.length

theorem processLine_keywordLine (w : Bytes) (tok : Nat) (hk : KwOK (w, tok))
    (incl : Option (Bytes → Int → St → St)) (fname : Bytes) (compat : Int) (st : St) :
    processLine incl fname compat st (keywordLine w tok) = (st.addKeyword w tok, compat) := by
  obtain ⟨hz, ht1, ht2⟩ := hk
  simp only at hz ht1 ht2
  have hr := quoteArg_renders w hz
  have hc := cstr_quoteArg_false w hz
  unfold keywordLine
  simp only [hc]
  by_cases h1 : tok = CT_TYPE
  · subst h1
    simp only [beq_self_eq_true, ↓reduceIte]
    have hs := splitArgs_name_value sType (32 :: spaces (maxOptionNameLen - 5)) _ w (by decide) (by decide)
      (sep_spaces _).1 (sep_spaces _).2 hr
    have e : sType ++ [32] ++ spaces (maxOptionNameLen - 5) ++ quoteArg false w
        = sType ++ 32 :: spaces (maxOptionNameLen - 5) ++ quoteArg false w := by simp
    rw [e]
    unfold processLine
    rw [hs]
    have : toLowerS sType = sType := by decide
    have a1 : (sType == sSet) = false := by decide
    have a2 : (sType == sFileExt) = false := by decide
    simp [this, a1, a2, St.addKeyword]
  · have n1 : (tok == CT_TYPE) = false := by simp [h1]
    simp only [n1, Bool.false_eq_true, ↓reduceIte]
    by_cases h2 : tok = CT_MACRO_OPEN
    · subst h2
      simp only [beq_self_eq_true, ↓reduceIte]
      have hs := splitArgs_name_value sMacroOpen (32 :: spaces (maxOptionNameLen - 11)) _ w (by decide) (by decide)
        (sep_spaces _).1 (sep_spaces _).2 hr
      have e : sMacroOpen ++ [32] ++ spaces (maxOptionNameLen - 11) ++ quoteArg false w
          = sMacroOpen ++ 32 :: spaces (maxOptionNameLen - 11) ++ quoteArg false w := by simp
      rw [e]
      unfold processLine
      rw [hs]
      have : toLowerS sMacroOpen = sMacroOpen := by decide
      have a1 : (sMacroOpen == sSet) = false := by decide
      have a2 : (sMacroOpen == sFileExt) = false := by decide
      have a3 : (sMacroOpen == sType) = false := by decide
      simp [this, a1, a2, a3]
    · have n2 : (tok == CT_MACRO_OPEN) = false := by simp [h2]
      simp only [n2, Bool.false_eq_true, ↓reduceIte]
      by_cases h3 : tok = CT_MACRO_CLOSE
      · subst h3
        simp only [beq_self_eq_true, ↓reduceIte]
        have hs := splitArgs_name_value sMacroClose (32 :: spaces (maxOptionNameLen - 12)) _ w (by decide) (by decide)
          (sep_spaces _).1 (sep_spaces _).2 hr
        have e : sMacroClose ++ [32] ++ spaces (maxOptionNameLen - 12) ++ quoteArg false w
            = sMacroClose ++ 32 :: spaces (maxOptionNameLen - 12) ++ quoteArg false w := by simp
        rw [e]
        unfold processLine
        rw [hs]
        have : toLowerS sMacroClose = sMacroClose := by decide
        have a1 : (sMacroClose == sSet) = false := by decide
        have a2 : (sMacroClose == sFileExt) = false := by decide
        have a3 : (sMacroClose == sType) = false := by decide
        have a4 : (sMacroClose == sMacroOpen) = false := by decide
        simp [this, a1, a2, a3, a4]
      · have n3 : (tok == CT_MACRO_CLOSE) = false := by simp [h3]
        simp only [n3, Bool.false_eq_true, ↓reduceIte]
        by_cases h4 : tok = CT_MACRO_ELSE
        · subst h4
          simp only [beq_self_eq_true, ↓reduceIte]
          have hs := splitArgs_name_value sMacroElse (32 :: spaces (maxOptionNameLen - 11)) _ w (by decide) (by decide)
            (sep_spaces _).1 (sep_spaces _).2 hr
          have e : sMacroElse ++ [32] ++ spaces (maxOptionNameLen - 11) ++ quoteArg false w
              = sMacroElse ++ 32 :: spaces (maxOptionNameLen - 11) ++ quoteArg false w := by simp
          rw [e]
          unfold processLine
          rw [hs]
          have : toLowerS sMacroElse = sMacroElse := by decide
          have a1 : (sMacroElse == sSet) = false := by decide
          have a2 : (sMacroElse == sFileExt) = false := by decide
          have a3 : (sMacroElse == sType) = false := by decide
          have a4 : (sMacroElse == sMacroOpen) = false := by decide
          have a5 : (sMacroElse == sMacroClose) = false := by decide
          simp [this, a1, a2, a3, a4, a5]
        · have n4 : (tok == CT_MACRO_ELSE) = false := by simp [h4]
          simp only [n4, Bool.false_eq_true, ↓reduceIte]
          -- `set TOKEN word`
          obtain ⟨tn, htn⟩ : ∃ tn, tokenNames[tok]? = some tn := by
            exact ⟨tokenNames[tok], List.getElem?_eq_getElem ht2⟩
          obtain ⟨tne, tpl, _⟩ := tokenName_shape htn
          have hgd : tokenNames.getD tok [] = tn := by simp [List.getD, htn]
          rw [hgd]
          have hs := splitArgs_three sSet [32] tn tn
            (32 :: spaces ((maxOptionNameLen : Int) - ((4 + tn.length : Nat) : Int)).natAbs) _ w
            (by decide) (by decide) (by simp) (by intro c hc; simp at hc; subst hc; decide)
            (Renders.plain tn tne tpl) (sep_spaces _).1 (sep_spaces _).2 hr
          have e : sSet ++ [32] ++ tn ++ [32] ++ spaces ((maxOptionNameLen : Int) - ((4 + tn.length : Nat) : Int)).natAbs
                ++ quoteArg false w
              = sSet ++ [32] ++ tn ++ 32 :: spaces ((maxOptionNameLen : Int) - ((4 + tn.length : Nat) : Int)).natAbs
                ++ quoteArg false w := by simp
          rw [e]
          unfold processLine
          rw [hs]
          have : toLowerS sSet = sSet := by decide
          have a3 : (sSet == sType) = false := by decide
          have a4 : (sSet == sMacroOpen) = false := by decide
          have a5 : (sSet == sMacroClose) = false := by decide
          have a6 : (sSet == sMacroElse) = false := by decide
          have hft := findTokenName_name htn ht1
          have htok0 : (tok != 0) = true := by simp; omega
          simp [this, a3, a4, a5, a6, hft, htok0, St.addKeyword]

end Unc

namespace Unc
open Gen

/-! ## the keyword block of a saved file -/

theorem bytesLt_irrefl (a : Bytes) : bytesLt a a = false := by
  induction a with
  | nil => rfl
  | cons x xs ih => simp [bytesLt, ih]

theorem bytesLt_asymm (a b : Bytes) (h : bytesLt a b = true) : bytesLt b a = false := by
  induction a generalizing b with
  | nil => cases b <;> simp_all [bytesLt]
  | cons x xs ih =>
    cases b with
    | nil => simp [bytesLt] at h
    | cons y ys =>
      simp only [bytesLt] at h ⊢
      by_cases h1 : x < y
      · have : ¬ y < x := by omega
        simp [this, h1]
      · by_cases h2 : y < x
        · simp [h1, h2] at h
        · simp only [h1, h2, ↓reduceIte] at h ⊢
          exact ih ys h

/-- inserting a key greater than all present keys appends -/
theorem mapInsert_append (k : Bytes) (v : Nat) (m : List (Bytes × Nat)) (h : ∀ p ∈ m, bytesLt p.1 k = true) :
    mapInsert k v m = m ++ [(k, v)] := by
  induction m with
  | nil => rfl
  | cons p ps ih =>
    obtain ⟨k', v'⟩ := p
    have hlt : bytesLt k' k = true := h (k', v') (by simp)
    have hne : (k == k') = false := by
      simp only [beq_eq_false_iff_ne, ne_eq]
      intro e; subst e; rw [bytesLt_irrefl] at hlt; exact Bool.noConfusion hlt
    have hnl : bytesLt k k' = false := bytesLt_asymm _ _ hlt
    simp only [mapInsert, hne, hnl, Bool.false_eq_true, ↓reduceIte, List.cons_append]
    rw [ih (fun q hq => h q (by simp [hq]))]

/-- keys strictly increasing -/
@[reducible] def KeysSorted (m : List (Bytes × Nat)) : Prop := m.Pairwise (fun a b => bytesLt a.1 b.1 = true)

theorem keywordLine_ascii (w : Bytes) (tok : Nat) (hz : ∀ c ∈ w, c ≠ 0) (ha : asciiB w = true) (ht : tok < tokenNames.length) :
    asciiB (keywordLine w tok) = true := by
  have hsp : ∀ n, asciiB (spaces n) = true := by
    intro n; apply asciiB_of_forall; intro c hc
    simp only [spaces, List.mem_replicate] at hc; omega
  have hw : asciiB (cstr (quoteArg false w)) = true := by
    rw [cstr_quoteArg_false w hz]; exact quoteArg_ascii false w ha
  have h32 : asciiB [32] = true := by decide
  unfold keywordLine
  simp only []
  split
  · simp only [asciiB_append, hsp, hw, h32, Bool.and_true]; decide
  · split
    · simp only [asciiB_append, hsp, hw, h32, Bool.and_true]; decide
    · split
      · simp only [asciiB_append, hsp, hw, h32, Bool.and_true]; decide
      · split
        · simp only [asciiB_append, hsp, hw, h32, Bool.and_true]; decide
        · have htn : tokenNames[tok]? = some (tokenNames.getD tok []) := by
            simp [List.getD, List.getElem?_eq_getElem ht]
          have := (tokenName_shape htn).2.2
          simp only [asciiB_append, hsp, hw, h32, this, Bool.and_true]; decide

/-- Loading the keyword lines written for the (sorted) entries `ks` on top of a state whose keyword map `pre`
    has only smaller keys: afterwards the map is `pre ++ ks`. -/
theorem loadLines_keywordLines (incl : Option (Bytes → Int → St → St)) (fname : Bytes) (compat : Int)
    (tail : List Bytes) :
    ∀ (ks pre : List (Bytes × Nat)) (st : St), st.kws = pre → KeysSorted (pre ++ ks) →
      (∀ p ∈ ks, KwOK p ∧ asciiB p.1 = true) → st.exit = none →
      loadLines incl fname compat st (ks.map (fun p => keywordLine p.1 p.2) ++ tail)
        = loadLines incl fname compat { st with kws := pre ++ ks, lineNo := st.lineNo + ks.length } tail := by
  intro ks
  induction ks with
  | nil => intro pre st hp _ _ _; simp [← hp]
  | cons p ps ih =>
    intro pre st hp hsorted hok hlive
    obtain ⟨hk, ha⟩ := hok p (by simp)
    simp only [List.map_cons, List.cons_append]
    rw [loadLines_cons _ _ _ _ _ _ hlive
      (nonPrintablePos_ascii _ 0 (keywordLine_ascii p.1 p.2 hk.1 ha hk.2.2)),
      processLine_keywordLine p.1 p.2 hk]
    simp only []
    have hins : mapInsert p.1 p.2 pre = pre ++ [p] := by
      apply mapInsert_append
      intro q hq
      have := List.pairwise_append.1 hsorted
      exact this.2.2 q hq p (by simp)
    have := ih (pre ++ [p]) ({ st with lineNo := st.lineNo + 1 }.addKeyword p.1 p.2)
      (by simp [St.addKeyword, hp, hins])
      (by simpa using hsorted)
      (fun q hq => hok q (by simp [hq]))
      (by simp [St.addKeyword, hlive])
    rw [this]
    congr 1
    simp only [St.addKeyword, List.length_cons, List.append_assoc, List.cons_append, List.nil_append]
    congr 1
    omega

end Unc
