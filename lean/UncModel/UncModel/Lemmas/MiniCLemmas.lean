import UncModel.MiniC
namespace Unc.MiniC
open Stmt Tok

/-- the tail condition under which `unparse s ++ rest` parses back to `s`: an `else` may follow only a closed `s` -/
def tailOk (st : Stmt) (rest : List Tok) : Prop := rest.head? = some els → openEnd st = false

theorem parse_unparse (st : Stmt) : ∀ (f : Nat) (rest : List Tok), wf st = true → tailOk st rest → f ≥ size st →
    parse f (unparse st ++ rest) = some (st, rest) := by
  induction st with
  | simple i =>
    intro f rest _ _ hf
    cases f with
    | zero => simp [size] at hf
    | succ f => simp [unparse, parse]
  | blockN i =>
    intro f rest _ _ hf
    cases f with
    | zero => simp [size] at hf
    | succ f => simp [unparse, parse]
  | block1 b ih =>
    intro f rest hw _ hf
    cases f with
    | zero => simp [size] at hf
    | succ f =>
      have hb : parse f (unparse b ++ (rb :: rest)) = some (b, rb :: rest) :=
        ih f (rb :: rest) (by simpa [wf] using hw) (by intro h; simp at h) (by simp [size] at hf; omega)
      simp [unparse, parse, List.append_assoc, hb]
  | ifT c t ih =>
    intro f rest hw ht hf
    cases f with
    | zero => simp [size] at hf
    | succ f =>
      have hne : rest.head? ≠ some els := by
        intro h; have := ht h; simp [openEnd] at this
      have hb : parse f (unparse t ++ rest) = some (t, rest) :=
        ih f rest (by simpa [wf] using hw) (by intro h; exact absurd h hne) (by simp [size] at hf; omega)
      simp only [unparse, List.cons_append, parse, hb]
      cases rest with
      | nil => rfl
      | cons x xs =>
        cases x <;> first | rfl | (exfalso; exact hne rfl)
  | ifE c t e iht ihe =>
    intro f rest hw ht hf
    cases f with
    | zero => simp [size] at hf
    | succ f =>
      simp only [wf, Bool.and_eq_true, Bool.not_eq_true'] at hw
      have h1 : parse f (unparse t ++ (els :: (unparse e ++ rest))) = some (t, els :: (unparse e ++ rest)) :=
        iht f _ hw.1.1 (by intro _; exact hw.2) (by simp [size] at hf; omega)
      have h2 : parse f (unparse e ++ rest) = some (e, rest) :=
        ihe f rest hw.1.2 (by intro h; have := ht h; simpa [openEnd] using this) (by simp [size] at hf; omega)
      simp [unparse, parse, List.append_assoc, h1, h2]
  | loop c b ih =>
    intro f rest hw ht hf
    cases f with
    | zero => simp [size] at hf
    | succ f =>
      have hb : parse f (unparse b ++ rest) = some (b, rest) :=
        ih f rest (by simpa [wf] using hw) (by intro h; have := ht h; simpa [openEnd] using this) (by simp [size] at hf; omega)
      simp [unparse, parse, hb]

theorem closed_rmB (st : Stmt) : ∀ body : Bool, openEnd st = false → openEnd (rmB true body st) = false := by
  induction st with
  | simple i => intro body h; cases body <;> simpa [rmB] using h
  | blockN i => intro body h; cases body <;> simpa [rmB] using h
  | block1 b _ =>
    intro body _
    cases body with
    | false => simp [rmB, openEnd]
    | true =>
      simp only [rmB, Bool.true_and]
      by_cases hc : openEnd (rmB true false b) = true
      · simp [hc, openEnd]
      · have hc' : openEnd (rmB true false b) = false := by simpa using hc
        simp [hc']
  | ifT c t _ => intro body h; simp [openEnd] at h
  | ifE c t e _ ihe =>
    intro body h
    simp only [openEnd] at h
    cases body <;> simp only [rmB, openEnd] <;> exact ihe true h
  | loop c b ihb =>
    intro body h
    simp only [openEnd] at h
    cases body <;> simp only [rmB, openEnd] <;> exact ihb true h

theorem wf_rmB (st : Stmt) : ∀ ef body : Bool, wf st = true → wf (rmB ef body st) = true := by
  induction st with
  | simple i => intro ef body h; cases body <;> simpa [rmB] using h
  | blockN i => intro ef body h; cases body <;> simpa [rmB] using h
  | block1 b ih =>
    intro ef body h
    simp only [wf] at h
    cases body with
    | false => simp only [rmB, wf]; exact ih false false h
    | true =>
      simp only [rmB]
      split
      · simp only [wf]; exact ih false false h
      · exact ih ef false h
  | ifT c t ih => intro ef body h; simp only [wf] at h; cases body <;> simp only [rmB, wf] <;> exact ih ef true h
  | loop c b ih => intro ef body h; simp only [wf] at h; cases body <;> simp only [rmB, wf] <;> exact ih ef true h
  | ifE c t e iht ihe =>
    intro ef body h
    simp only [wf, Bool.and_eq_true, Bool.not_eq_true'] at h
    have h1 := iht true true h.1.1
    have h2 := ihe ef true h.1.2
    have h3 := closed_rmB t true h.2
    cases body <;> simp only [rmB, wf, Bool.and_eq_true, Bool.not_eq_true'] <;> exact ⟨⟨h1, h2⟩, h3⟩

theorem norm_rmB (st : Stmt) : ∀ ef body : Bool, norm (rmB ef body st) = norm st := by
  induction st with
  | simple i => intro ef body; cases body <;> simp [rmB]
  | blockN i => intro ef body; cases body <;> simp [rmB]
  | block1 b ih =>
    intro ef body
    cases body with
    | false => simp only [rmB, norm]; exact ih false false
    | true =>
      simp only [rmB]
      split
      · simp only [norm]; exact ih false false
      · simp only [norm]; exact ih ef false
  | ifT c t ih => intro ef body; cases body <;> simp only [rmB, norm, ih]
  | loop c b ih => intro ef body; cases body <;> simp only [rmB, norm, ih]
  | ifE c t e iht ihe => intro ef body; cases body <;> simp only [rmB, norm, iht, ihe]

theorem isBlock_closed (x : Stmt) (h : isBlock x = true) : openEnd x = false := by
  cases x <;> simp_all [isBlock, openEnd]

theorem enblock_closed (x : Stmt) : openEnd (enblock x) = false := by
  unfold enblock
  split
  · exact isBlock_closed x ‹_›
  · simp [openEnd]

theorem wf_enblock (x : Stmt) (h : wf x = true) : wf (enblock x) = true := by
  unfold enblock; split
  · exact h
  · simpa [wf] using h

theorem norm_enblock (x : Stmt) : norm (enblock x) = norm x := by
  unfold enblock; split <;> simp [norm]

theorem wf_addBraces (st : Stmt) : wf (addBraces st) = true := by
  induction st with
  | simple i => simp [addBraces, wf]
  | blockN i => simp [addBraces, wf]
  | block1 b ih => simpa [addBraces, wf] using ih
  | ifT c t ih => simp only [addBraces, wf]; exact wf_enblock _ ih
  | loop c b ih => simp only [addBraces, wf]; exact wf_enblock _ ih
  | ifE c t e iht ihe =>
    simp only [addBraces, wf, Bool.and_eq_true, Bool.not_eq_true']
    exact ⟨⟨wf_enblock _ iht, wf_enblock _ ihe⟩, enblock_closed _⟩

theorem norm_addBraces (st : Stmt) : norm (addBraces st) = norm st := by
  induction st with
  | simple i => simp [addBraces]
  | blockN i => simp [addBraces]
  | block1 b ih => simpa [addBraces, norm] using ih
  | ifT c t ih => simp only [addBraces, norm, norm_enblock, ih]
  | loop c b ih => simp only [addBraces, norm, norm_enblock, ih]
  | ifE c t e iht ihe => simp only [addBraces, norm, norm_enblock, iht, ihe]

end Unc.MiniC
