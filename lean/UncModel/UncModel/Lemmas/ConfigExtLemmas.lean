import UncModel.Lemmas.ConfigKwLemmas
/-!
# The `file_ext` lines of a saved file: re-inserting the groups rebuilds the sorted extension map
-/
namespace Unc
open Gen

/-! ## several rendered arguments separated by blanks -/

/-- `t` followed by blank-separated further arguments -/
theorem splitRun_skip_many (rs : List (Bytes × Bytes)) (hr : ∀ r ∈ rs, Renders r.1 r.2) :
    ∀ (t w : Bytes) (out : List Bytes), Renders t w →
      splitRun isArgSep .skip out (t ++ (rs.map (fun r => 32 :: r.1)).flatten)
        = .ok (((rs.map (·.2)).reverse ++ w :: out).reverse) := by
  induction rs with
  | nil => intro t w out ht; simpa using splitRun_skip_renders ht out
  | cons r rs ih =>
    intro t w out ht
    have h32 : isArgSep 32 = true := by decide
    simp only [List.map_cons, List.flatten_cons, List.cons_append]
    rw [splitRun_skip_renders_sep ht out 32 _ h32, ih (fun x hx => hr x (by simp [hx])) r.1 r.2 (w :: out) (hr r (by simp))]
    simp

/-! ## ordered maps -/

def insertAll (ps : List (Bytes × Nat)) (m : List (Bytes × Nat)) : List (Bytes × Nat) :=
  ps.foldl (fun m p => mapInsert p.1 p.2 m) m

theorem mapInsert_lt_head (k : Bytes) (v : Nat) (m : List (Bytes × Nat)) (h : ∀ p ∈ m, bytesLt k p.1 = true) :
    mapInsert k v m = (k, v) :: m := by
  cases m with
  | nil => rfl
  | cons p ps =>
    obtain ⟨k', v'⟩ := p
    have hlt : bytesLt k k' = true := h (k', v') (by simp)
    have hne : (k == k') = false := by
      simp only [beq_eq_false_iff_ne, ne_eq]
      intro e; subst e; rw [bytesLt_irrefl] at hlt; exact Bool.noConfusion hlt
    simp [mapInsert, hne, hlt]

theorem mapInsert_gt_head (k : Bytes) (v : Nat) (k0 : Bytes) (v0 : Nat) (m : List (Bytes × Nat)) (h : bytesLt k0 k = true) :
    mapInsert k v ((k0, v0) :: m) = (k0, v0) :: mapInsert k v m := by
  have hne : (k == k0) = false := by
    simp only [beq_eq_false_iff_ne, ne_eq]
    intro e; subst e; rw [bytesLt_irrefl] at h; exact Bool.noConfusion h
  simp [mapInsert, hne, bytesLt_asymm _ _ h]

theorem insertAll_gt_head (ps : List (Bytes × Nat)) (k0 : Bytes) (v0 : Nat) (m : List (Bytes × Nat))
    (h : ∀ p ∈ ps, bytesLt k0 p.1 = true) :
    insertAll ps ((k0, v0) :: m) = (k0, v0) :: insertAll ps m := by
  induction ps generalizing m with
  | nil => rfl
  | cons p ps ih =>
    simp only [insertAll, List.foldl_cons]
    rw [mapInsert_gt_head _ _ _ _ _ (h p (by simp))]
    exact ih _ (fun q hq => h q (by simp [hq]))

/-- merging two disjoint sub-maps of a sorted map by insertion gives the union sub-map -/
theorem insertAll_filter (T : List (Bytes × Nat)) (hT : KeysSorted T) (p q : Bytes × Nat → Bool)
    (hd : ∀ x ∈ T, ¬ (p x = true ∧ q x = true)) :
    insertAll (T.filter q) (T.filter p) = T.filter (fun x => p x || q x) := by
  induction T with
  | nil => rfl
  | cons t T ih =>
    obtain ⟨ht, hT'⟩ := List.pairwise_cons.1 hT
    have ih' := ih hT' (fun x hx => hd x (by simp [hx]))
    have hgt : ∀ (f : Bytes × Nat → Bool), ∀ x ∈ T.filter f, bytesLt t.1 x.1 = true :=
      fun f x hx => ht x (List.mem_filter.1 hx).1
    by_cases hp : p t = true
    · have hq : q t = false := by
        have := hd t (by simp); simp [hp] at this; exact this
      simp only [List.filter_cons, hp, hq, ↓reduceIte, Bool.true_or, Bool.false_eq_true]
      rw [show t = (t.1, t.2) from rfl, insertAll_gt_head _ _ _ _ (hgt q), ih']
    · have hp' : p t = false := by simpa using hp
      by_cases hq : q t = true
      · simp only [List.filter_cons, hp', hq, ↓reduceIte, Bool.false_or, Bool.false_eq_true]
        simp only [insertAll, List.foldl_cons]
        rw [mapInsert_lt_head _ _ _ (hgt p)]
        have := insertAll_gt_head (T.filter q) t.1 t.2 (T.filter p) (hgt q)
        simp only [insertAll] at this
        rw [this]
        have ih'' := ih'
        simp only [insertAll] at ih''
        rw [ih'']
      · have hq' : q t = false := by simpa using hq
        simp only [List.filter_cons, hp', hq', Bool.or_self, Bool.false_eq_true, ↓reduceIte]
        exact ih'

end Unc

namespace Unc
open Gen

/-! ## one `file_ext` line -/

theorem languageName_shape {l : Nat} {p : Bytes × Nat} (h : languageNames[l]? = some p) :
    p.1 ≠ [] ∧ (∀ c ∈ p.1, plainCh c = true) ∧ asciiB p.1 = true := by
  have hs := languageShape_ok
  simp only [languageShapeOK] at hs
  have hn := List.all_eq_true.1 hs p (List.mem_of_getElem? h)
  simp only [Bool.and_eq_true, Bool.not_eq_eq_eq_not, Bool.not_true, List.all_eq_true, decide_eq_true_eq,
    List.isEmpty_eq_false_iff] at hn
  refine ⟨hn.1, fun c hc => (hn.2 c hc).1, ?_⟩
  apply asciiB_of_forall
  intro c hc
  refine ⟨(hn.2 c hc).2, ?_⟩
  intro e; subst e
  have := plainCh_spec (hn.2 10 hc).1
  simp [isArgSep, isSpaceB] at this

theorem findLanguage_name {l : Nat} {p : Bytes × Nat} (h : languageNames[l]? = some p) :
    findLanguage (cstr p.1) = some l := by
  have hl : l < languageNames.length := (List.getElem?_eq_some_iff.1 h).1
  have := List.all_eq_true.1 languages_ok l (List.mem_range.2 hl)
  have hgd : languageNames.getD l ([], 0) = p := by simp [List.getD, h]
  rw [hgd] at this
  obtain ⟨_, hpl, _⟩ := languageName_shape h
  rw [cstr_of_nonzero _ (fun c hc => plain_nonzero (hpl c hc))]
  simpa using this

/-- the text of the `file_ext` line for language `l` and its (non-empty) list of extensions -/
def extLine (l : Nat) (mine : List (Bytes × Nat)) : Bytes :=
  sFileExt ++ [32] ++ (languageNames.getD l ([], 0)).1 ++ (mine.map fun p => 32 :: cstr (quoteArg false p.1)).flatten

/-- extension keys the writer can print and the loader can read back -/
def ExtOK (p : Bytes × Nat) : Prop := (∀ c ∈ p.1, c ≠ 0) ∧ p.2 < languageNames.length

theorem processLine_extLine (l : Nat) (mine : List (Bytes × Nat)) (hne : mine ≠ [])
    (hok : ∀ p ∈ mine, ExtOK p ∧ p.2 = l)
    (incl : Option (Bytes → Int → St → St)) (fname : Bytes) (compat : Int) (st : St) :
    processLine incl fname compat st (extLine l mine) = ({ st with exts := insertAll mine st.exts }, compat) := by
  have hl : l < languageNames.length := by
    cases mine with
    | nil => exact absurd rfl hne
    | cons p _ => have := hok p (by simp); rw [← this.2]; exact this.1.2
  obtain ⟨nm, hnm⟩ : ∃ nm, languageNames[l]? = some nm := ⟨languageNames[l], List.getElem?_eq_getElem hl⟩
  obtain ⟨nne, npl, _⟩ := languageName_shape hnm
  have hgd : languageNames.getD l ([], 0) = nm := by simp [List.getD, hnm]
  -- the arguments
  let rs : List (Bytes × Bytes) := (nm.1, nm.1) :: mine.map (fun p => (cstr (quoteArg false p.1), p.1))
  have hrs : ∀ r ∈ rs, Renders r.1 r.2 := by
    intro r hr
    simp only [rs, List.mem_cons, List.mem_map] at hr
    rcases hr with rfl | ⟨p, hp, rfl⟩
    · exact Renders.plain _ nne npl
    · simp only []
      rw [cstr_quoteArg_false _ (hok p hp).1.1]
      exact quoteArg_renders _ (hok p hp).1.1
  have hsplit : splitArgs isArgSep (extLine l mine) = .ok (sFileExt :: nm.1 :: mine.map (·.1)) := by
    unfold splitArgs extLine
    rw [hgd]
    have e : sFileExt ++ [32] ++ nm.1 ++ (mine.map fun p => 32 :: cstr (quoteArg false p.1)).flatten
        = sFileExt ++ (rs.map (fun r => 32 :: r.1)).flatten := by
      simp [rs, List.map_map, Function.comp_def]
    rw [e, splitRun_skip_many rs hrs sFileExt sFileExt [] (Renders.plain _ (by decide) (by decide))]
    simp [rs, List.map_map, Function.comp_def]
  unfold processLine
  rw [hsplit]
  have h0 : toLowerS sFileExt = sFileExt := by decide
  have a1 : (sFileExt == sSet) = false := by decide
  have a3 : (sFileExt == sType) = false := by decide
  have a4 : (sFileExt == sMacroOpen) = false := by decide
  have a5 : (sFileExt == sMacroClose) = false := by decide
  have a6 : (sFileExt == sMacroElse) = false := by decide
  have a7 : (sFileExt == sInclude) = false := by decide
  have hlen : ¬ ((nm.1 :: mine.map (·.1)).length < 2) := by
    cases mine with
    | nil => exact absurd rfl hne
    | cons _ _ => simp
  simp only [h0, a1, a3, a4, a5, a6, a7, beq_self_eq_true, Bool.or_true, ↓reduceIte, hlen,
    Bool.false_eq_true, findLanguage_name hnm]
  congr 2
  -- the fold over the argument texts is the fold over the pairs
  have : ∀ (m : List (Bytes × Nat)) (ps : List (Bytes × Nat)), (∀ p ∈ ps, ExtOK p ∧ p.2 = l) →
      (ps.map (·.1)).foldl (fun m e => mapInsert (cstr e) l m) m = insertAll ps m := by
    intro m ps
    induction ps generalizing m with
    | nil => intro _; rfl
    | cons p ps ih =>
      intro h
      have hp := h p (by simp)
      simp only [List.map_cons, List.foldl_cons, insertAll]
      rw [cstr_of_nonzero _ hp.1.1, ← hp.2]
      have := ih (mapInsert p.1 p.2 m) (fun q hq => h q (by simp [hq]))
      simp only [insertAll] at this
      rw [← this, hp.2]
  exact this st.exts mine hok

end Unc

namespace Unc
open Gen

/-! ## the block of `file_ext` lines -/

def extLinesFor (ls : List Nat) (T : List (Bytes × Nat)) : List Bytes :=
  ls.filterMap fun l =>
    let mine := T.filter (fun p => p.2 == l)
    if mine.isEmpty then none else some (extLine l mine)

theorem extensionLines_eq (T : List (Bytes × Nat)) :
    extensionLines T = extLinesFor (List.range languageNames.length) T := rfl

theorem extLine_ascii (l : Nat) (mine : List (Bytes × Nat)) (hl : l < languageNames.length)
    (hok : ∀ p ∈ mine, (∀ c ∈ p.1, c ≠ 0) ∧ asciiB p.1 = true) : asciiB (extLine l mine) = true := by
  obtain ⟨nm, hnm⟩ : ∃ nm, languageNames[l]? = some nm := ⟨languageNames[l], List.getElem?_eq_getElem hl⟩
  have hgd : languageNames.getD l ([], 0) = nm := by simp [List.getD, hnm]
  unfold extLine
  rw [hgd]
  have h1 : asciiB sFileExt = true := by decide
  have h2 : asciiB [32] = true := by decide
  simp only [asciiB_append, h1, h2, (languageName_shape hnm).2.2, Bool.true_and]
  apply asciiB_of_forall
  intro c hc
  simp only [List.mem_flatten, List.mem_map] at hc
  obtain ⟨seg, ⟨p, hp, rfl⟩, hcs⟩ := hc
  rcases List.mem_cons.1 hcs with rfl | hcs
  · omega
  · rw [cstr_quoteArg_false _ (hok p hp).1] at hcs
    exact asciiB_forall _ (quoteArg_ascii false _ (hok p hp).2) c hcs

theorem loadLines_extLines (T : List (Bytes × Nat)) (hT : KeysSorted T)
    (hok : ∀ p ∈ T, ExtOK p ∧ asciiB p.1 = true)
    (incl : Option (Bytes → Int → St → St)) (fname : Bytes) (compat : Int) (tail : List Bytes) :
    ∀ (ls : List Nat) (done : Nat → Bool) (st : St), ls.Nodup → (∀ l ∈ ls, done l = false) →
      st.exts = T.filter (fun p => done p.2) → st.exit = none →
      loadLines incl fname compat st (extLinesFor ls T ++ tail)
        = loadLines incl fname compat
            { st with exts := T.filter (fun p => done p.2 || ls.contains p.2),
                      lineNo := st.lineNo + (extLinesFor ls T).length } tail := by
  intro ls
  induction ls with
  | nil =>
    intro done st _ _ hst _
    simp [extLinesFor, ← hst]
  | cons l ls ih =>
    intro done st hnd hdone hst hlive
    obtain ⟨hl_notin, hnd'⟩ := List.nodup_cons.1 hnd
    have hdl : done l = false := hdone l (by simp)
    let done' : Nat → Bool := fun x => done x || x == l
    have hdone' : ∀ l' ∈ ls, done' l' = false := by
      intro l' hl'
      have : l' ≠ l := fun e => hl_notin (e ▸ hl')
      simp [done', hdone l' (by simp [hl']), this]
    have hfilt : (fun p : Bytes × Nat => done' p.2 || ls.contains p.2)
        = (fun p : Bytes × Nat => done p.2 || (l :: ls).contains p.2) := by
      funext p; simp only [done']; rw [List.contains_cons, Bool.or_assoc]
    by_cases hempty : (T.filter (fun p => p.2 == l)).isEmpty = true
    · -- no extension of this language: no line
      have hlines : extLinesFor (l :: ls) T = extLinesFor ls T := by
        simp [extLinesFor, hempty]
      have hst' : st.exts = T.filter (fun p => done' p.2) := by
        rw [hst]
        apply List.filter_congr
        intro p hp
        have : (p.2 == l) = false := by
          cases hcon : (p.2 == l) with
          | false => rfl
          | true =>
            have hmem : p ∈ T.filter (fun p => p.2 == l) := List.mem_filter.2 ⟨hp, hcon⟩
            rw [List.isEmpty_iff] at hempty
            rw [hempty] at hmem; exact absurd hmem (by simp)
        simp [done', this]
      rw [hlines, ih done' st hnd' hdone' hst' hlive, hfilt]
    · -- one line
      have hne : T.filter (fun p => p.2 == l) ≠ [] := by
        intro e; rw [e] at hempty; exact hempty rfl
      have hlines : extLinesFor (l :: ls) T = extLine l (T.filter (fun p => p.2 == l)) :: extLinesFor ls T := by
        simp [extLinesFor, hempty]
      have hmine : ∀ p ∈ T.filter (fun p => p.2 == l), ExtOK p ∧ p.2 = l := by
        intro p hp
        obtain ⟨h1, h2⟩ := List.mem_filter.1 hp
        exact ⟨(hok p h1).1, by simpa using h2⟩
      have hl : l < languageNames.length := by
        cases hm : T.filter (fun p => p.2 == l) with
        | nil => exact absurd hm hne
        | cons p _ =>
          have := hmine p (by rw [hm]; simp)
          rw [← this.2]; exact this.1.2
      have hasc : asciiB (extLine l (T.filter (fun p => p.2 == l))) = true :=
        extLine_ascii l _ hl (fun p hp => ⟨(hok p (List.mem_filter.1 hp).1).1.1, (hok p (List.mem_filter.1 hp).1).2⟩)
      rw [hlines, List.cons_append, loadLines_cons _ _ _ _ _ _ hlive (nonPrintablePos_ascii _ 0 hasc),
        processLine_extLine l _ hne hmine]
      simp only []
      have hmerge : insertAll (T.filter (fun p => p.2 == l)) st.exts = T.filter (fun p => done' p.2) := by
        rw [hst]
        exact insertAll_filter T hT (fun p => done p.2) (fun p => p.2 == l)
          (by intro x _ ⟨h1, h2⟩; have : x.2 = l := by simpa using h2
              rw [this, hdl] at h1; exact Bool.noConfusion h1)
      rw [ih done' _ hnd' hdone' (by simpa using hmerge) (by simpa using hlive), hfilt]
      congr 1
      simp only [List.length_cons]
      congr 1
      omega

end Unc
