/-
`remove_extra_returns()` (src/remove_extra_returns.cpp, option mod_remove_empty_return), transliterated over a list of chunks that
carry what the pass reads: type, level, parent type, PCF_IN_PREPROC.  Comments and newlines are the chunks `GetNextNcNnl()` skips.
-/
namespace Unc.RmRet

inductive T | ret | semi | braceClose | cmtNl | other
deriving DecidableEq, Repr

inductive P | funcDef | funcClassDef | other
deriving DecidableEq, Repr

structure Ck where
  t : T
  level : Nat
  parent : P
  pp : Bool := false
  id : Nat := 0           -- only to tell chunks apart in the driver's output
deriving DecidableEq, Repr

/-- index of the first chunk of the list with the type BRACE_CLOSE at the given level (`GetNextType(CT_BRACE_CLOSE, level)`) -/
def findClose (level : Nat) : List Ck → Option Nat
  | [] => none
  | c :: r => if c.t = .braceClose ∧ c.level = level then some 0 else (findClose level r).map (· + 1)

/-- index of the first chunk that is neither comment nor newline (`GetNextNcNnl()`) -/
def nextNcNnl : List Ck → Option Nat
  | [] => none
  | c :: r => if c.t = .cmtNl then (nextNcNnl r).map (· + 1) else some 0

/-- the decision of the pass for a `return` chunk `pc` followed by `r`: the index (in `r`) of the closing brace it accepts -/
def closingBrace (pc : Ck) (r : List Ck) : Option Nat :=
  match findClose 1 r with
  | some j =>
    match r[j]? with
    | some cb =>
      if cb.parent = .funcClassDef then none                       -- "we have a class. Do nothing"
      else if cb.parent = .funcDef ∧ pc.level < 2 then some j
      else none
    | none => none
  | none =>
    match findClose 0 r with
    | some j =>
      match r[j]? with
      | some cb => if cb.parent = .funcDef ∧ pc.level < 2 then some j else none
      | none => none
    | none => none

/-- the leading comments / newlines of a list and what follows them -/
def spanCmt : List Ck → List Ck × List Ck
  | [] => ([], [])
  | c :: r => if c.t = .cmtNl then ((c :: (spanCmt r).1), (spanCmt r).2) else ([], c :: r)

/-- the whole test for removing `pc` (a `return` outside a preprocessor line) and the semicolon behind it: the comments/newlines
    between `return` and `;`, those between `;` and the next chunk, that chunk, and the rest.  Since fix dd7928b that chunk must be the
    closing brace the search found (`semicolon->GetNextNcNnl() == closing_brace`). -/
def removable (pc : Ck) (r : List Ck) : Option (List Ck × List Ck × Ck × List Ck) :=
  match closingBrace pc r with
  | some j =>
    match spanCmt r with
    | (g1, sc :: r1) =>
      if sc.t = .semi then
        match spanCmt r1 with
        | (g2, cb :: rest) => if g1.length + 1 + g2.length = j then some (g1, g2, cb, rest) else none
        | _ => none
      else none
    | _ => none
  | none => none

/-- the test before the fix: any semicolon behind the `return`; the walk goes on behind the closing brace that was found, wherever it is -/
def removableOld (pc : Ck) (r : List Ck) : Option (List Ck × List Ck × Ck × List Ck) :=
  match closingBrace pc r with
  | some j =>
    match spanCmt r with
    | (g1, sc :: r1) =>
      if sc.t = .semi then
        match (g1 ++ sc :: r1)[j]? with
        | some cb => some (g1, (r1.take (j - g1.length - 1)), cb, (g1 ++ sc :: r1).drop (j + 1))
        | none => none
      else none
    | _ => none
  | none => none

/-- the loop; after a removal it continues behind the closing brace (`pc = closing_brace; ... pc = pc->GetNext()`) -/
def run (test : Ck → List Ck → Option (List Ck × List Ck × Ck × List Ck)) : Nat → List Ck → List Ck
  | 0, l => l
  | _, [] => []
  | f + 1, pc :: r =>
    if pc.t = .ret ∧ pc.pp = false then
      match test pc r with
      | some (g1, g2, cb, rest) => g1 ++ g2 ++ cb :: run test f rest       -- `pc` and the semicolon are deleted
      | none => pc :: run test f r
    else pc :: run test f r

def removeExtraReturns (l : List Ck) : List Ck := run removable (l.length + 1) l

end Unc.RmRet
