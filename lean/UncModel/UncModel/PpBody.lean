import UncModel.TokStrip
/-!
# L2c: the body of an "unknown" directive (`#pragma`, `#error`, `#warning`, `#region` ...): `parse_next()`,
`src/tokenizer/tokenize.cpp`, "Handle unknown/unhandled preprocessors"

```
size_t last = 0;  ctx.save(ss);
while (ctx.more()) {
   ch = ctx.peek();
   if (last == '\\' && (ch == ' ' || ch == '\t')) { ctx.get(); continue; }      // blanks after a backslash are dropped
   if (ch == '\n' || ch == '\r') {
      if (last == '\\') { ctx.restore(ss); pc.Str().pop_back(); }               // back off: leave the `\` to parse_bs_newline()
      break;
   }
   if (ch == '/' && (peek(1) == '/' || peek(1) == '*')) break;                  // comment start
   last = ch;  ctx.save(ss);  pc.Str().append(ctx.get());
}
```
`last` is always the last appended character, so the model keeps the appended text **reversed** (`accR`, last character
first) and reads `last` off its head.  `since` is what was consumed since `ss` was saved (the last appended character and the
blanks dropped behind it): `restore(ss)` puts it back in front of the rest.

`scanOld` is the loop before the repair (only ' ' was dropped after a backslash, a TAB was kept).
-/
namespace Unc.PpBody

def isEol (c : Nat) : Bool := c = 10 || c = 13

/-- the loop; result = (chunk text, input left for the following calls of `parse_next`) -/
def scan (accR since : List Nat) : List Nat → List Nat × List Nat
  | [] => (accR.reverse, [])
  | ch :: rest =>
    if accR.head? = some 92 ∧ isBlankCh ch = true then scan accR (since ++ [ch]) rest
    else if isEol ch = true then
      (if accR.head? = some 92 then (accR.tail.reverse, since ++ ch :: rest) else (accR.reverse, ch :: rest))
    else if ch = 47 ∧ (rest.head? = some 47 ∨ rest.head? = some 42) then (accR.reverse, ch :: rest)
    else scan (ch :: accR) [ch] rest

/-- text of the CT_PREPROC_BODY chunk that `tokenize()` stores: the loop, then the trailing-blank strip -/
def body (inp : List Nat) : List Nat := stripTrailing (scan [] [] inp).1

def rest (inp : List Nat) : List Nat := (scan [] [] inp).2

/-- the loop before the repair: only a space is dropped behind a backslash -/
def scanOld (accR since : List Nat) : List Nat → List Nat × List Nat
  | [] => (accR.reverse, [])
  | ch :: rest =>
    if accR.head? = some 92 ∧ ch = 32 then scanOld accR (since ++ [ch]) rest
    else if isEol ch = true then
      (if accR.head? = some 92 then (accR.tail.reverse, since ++ ch :: rest) else (accR.reverse, ch :: rest))
    else if ch = 47 ∧ (rest.head? = some 47 ∨ rest.head? = some 42) then (accR.reverse, ch :: rest)
    else scanOld (ch :: accR) [ch] rest

def bodyOld (inp : List Nat) : List Nat := stripTrailing (scanOld [] [] inp).1

/-- no backslash is directly followed by a blank (on the reversed text: no blank sits on a backslash) -/
def cleanR : List Nat → Bool
  | b :: a :: t => !(a = 92 && isBlankCh b) && cleanR (a :: t)
  | _ => true

end Unc.PpBody
