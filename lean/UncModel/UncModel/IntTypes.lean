import UncModel.Unicode
/-
`change_int_types()` (src/change_int_types.cpp; options mod_int_short, mod_short_int, mod_int_long, mod_long_int, mod_int_signed,
mod_signed_int, mod_int_unsigned, mod_unsigned_int, mod_int_prefer_int_on_left), transliterated statement by statement over a
list of tokens.  Chunks are tokens with an identity (`id`), the chunk list is a zipper (`L` = the tokens left of the current one,
nearest first; `R` = the tokens right of it), `int_keyword` is the identity of a token or none (Chunk::NullChunkPtr).
Comments and newlines are skipped by the `GetNextNcNnl` / `GetPrevNcNnl` walks of the real code and do not occur here.
-/
namespace Unc.IntTy

structure Tok where
  id : Nat
  txt : String
  pp : Bool := false      -- PCF_IN_PREPROC
deriving DecidableEq, Repr

structure Opts where
  intShort : IARF := .ignore      -- mod_int_short     `int short`  (before)
  shortInt : IARF := .ignore      -- mod_short_int     `short int`  (after)
  intLong : IARF := .ignore
  longInt : IARF := .ignore
  intSigned : IARF := .ignore
  signedInt : IARF := .ignore
  intUnsigned : IARF := .ignore
  unsignedInt : IARF := .ignore
  preferLeft : Bool := true       -- mod_int_prefer_int_on_left
deriving Repr

def isStorage (s : String) : Bool :=
  s == "auto" || s == "const" || s == "extern" || s == "mutable" || s == "register" || s == "static" || s == "thread_local" ||
  s == "typedef" || s == "volatile" || s == "_Atomic" || s == "_Thread_local"

def isNonInteger (s : String) : Bool := s == "char" || s == "double"

structure St where
  L : List Tok
  R : List Tok
  intKw : Option Nat
  fresh : Nat
deriving Repr

/-- the first token of the list that is not a storage keyword (`while (is_storage_keyword(x)) x = x->Get..NcNnl()`); `none` = NullChunk -/
def firstNonStorage : List Tok → Option Tok
  | [] => none
  | t :: ts => if isStorage t.txt then firstNonStorage ts else some t

/-- `pc->IsSamePreproc(sib)`, else the null chunk -/
def samePP (cur : Tok) : Option Tok → Option Tok
  | some t => if t.pp = cur.pp then some t else none
  | none => none

/-- `Text()` of a chunk pointer; the null chunk has the empty text -/
def txtOf : Option Tok → String
  | none => ""
  | some t => t.txt

/-- `Chunk::Delete(c)` for the chunk with identity `id` -/
def delId (id : Nat) (l : List Tok) : List Tok := l.filter fun t => t.id != id

def St.del (s : St) (id : Nat) : St := { s with L := delId id s.L, R := delId id s.R }

/-- `pc->CopyAndAddBefore(pc)` / `CopyAndAddAfter(pc)` with the text set to "int" -/
def St.insertInt (s : St) (back : Bool) (pp : Bool := false) : St :=
  let t : Tok := { id := s.fresh, txt := "int", pp := pp }
  if back then { s with L := t :: s.L, intKw := some s.fresh, fresh := s.fresh + 1 }
  else { s with R := t :: s.R, intKw := some s.fresh, fresh := s.fresh + 1 }

/-- `add_or_remove_int_keyword(pc, sibling, action, dir, int_keyword)` -/
def addOrRemove (o : Opts) (s : St) (sib : Option Tok) (act : IARF) (back : Bool) (pp : Bool := false) : St :=
  match sib with
  | some t =>
    if t.txt = "int" then
      if act = .remove then
        { (s.del t.id) with intKw := if s.intKw = some t.id then none else s.intKw }
      else
        match s.intKw with
        | some k =>
          if k ≠ t.id then
            if o.preferLeft then s.del t.id
            else { (s.del k) with intKw := some t.id }
          else { s with intKw := some t.id }
        | none => { s with intKw := some t.id }
    else
      if act = .add ∨ act = .force then
        match s.intKw with
        | some k => if o.preferLeft then s else (s.del k).insertInt back pp
        | none => s.insertInt back pp
      else s
  | none =>
    if act = .add ∨ act = .force then
      match s.intKw with
      | some k => if o.preferLeft then s else (s.del k).insertInt back pp
      | none => s.insertInt back pp
    else s

/-- the two options of a keyword: (in front of it, behind it) -/
def actsOf (o : Opts) (txt : String) : Option (IARF × IARF) :=
  if txt = "short" then some (o.intShort, o.shortInt)
  else if txt = "long" then some (o.intLong, o.longInt)
  else if txt = "signed" then some (o.intSigned, o.signedInt)
  else if txt = "unsigned" then some (o.intUnsigned, o.unsignedInt)
  else none

/-- the body of the `for` loop of `change_int_types()` for the current token -/
def stepCur (o : Opts) (cur : Tok) (s : St) : St :=
  match actsOf o cur.txt with
  | some (a1, a2) =>
    -- since fix c166db5 a neighbour on the other side of the end of a preprocessor line counts as absent (`IsSamePreproc`)
    let prev := samePP cur (firstNonStorage s.L)
    let next := samePP cur (firstNonStorage s.R)
    if isNonInteger (txtOf prev) || isNonInteger (txtOf next) then s
    else addOrRemove o (addOrRemove o s prev a1 true cur.pp) next a2 false cur.pp
  | none =>
    if cur.txt ≠ "int" ∧ ¬ isStorage cur.txt then { s with intKw := none } else s

/-- the loop: `pc = pc->GetNextNcNnl()` after the edits of this iteration -/
def run (o : Opts) : Nat → St → Tok → List Tok
  | 0, s, cur => s.L.reverse ++ cur :: s.R
  | f + 1, s, cur =>
    let s' := stepCur o cur s
    match s'.R with
    | [] => s'.L.reverse ++ [cur]
    | n :: r => run o f { s' with L := cur :: s'.L, R := r } n

def mkToks : Nat → List (String × Bool) → List Tok
  | _, [] => []
  | i, w :: ws => { id := i, txt := w.1, pp := w.2 } :: mkToks (i + 1) ws

/-- `change_int_types()` on a token list; every token comes with its PCF_IN_PREPROC flag -/
def changeIntTypesPP (o : Opts) (ws : List (String × Bool)) : List String :=
  match mkToks 0 ws with
  | [] => []
  | c :: r => (run o (2 * ws.length + 2) { L := [], R := r, intKw := none, fresh := ws.length } c).map (·.txt)

/-- the same for a token list without preprocessor lines -/
def changeIntTypes (o : Opts) (ws : List String) : List String := changeIntTypesPP o (ws.map fun w => (w, false))

/-- the tokens other than `int` -/
def nonInt (l : List Tok) : List String := (l.map (·.txt)).filter (· != "int")

end Unc.IntTy
