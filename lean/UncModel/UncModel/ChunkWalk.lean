/-
Walks along the chunk list.

The list ends in the null chunk: `GetNext()` of the last chunk and of the null chunk itself is the null chunk.  A loop
`while (cond(pc)) { ...; pc = pc->GetNext(); }` is modelled over the remaining chunks (`List α`), `none` standing for the null chunk.
-/
namespace Unc.Walk

/-- the chunk the walk variable points to after `i` more steps: an element of the rest of the list, then the null chunk for ever -/
def at' {α : Type} (rest : List α) (i : Nat) : Option α := rest[i]?

/-- run the loop with fuel: the number of body executions, `none` if the fuel runs out -/
def steps {α : Type} (cond : Option α → Bool) : Nat → List α → Option Nat
  | 0, _ => none
  | f + 1, [] => if cond none then (steps cond f []).map (· + 1) else some 0
  | f + 1, c :: rest => if cond (some c) then (steps cond f rest).map (· + 1) else some 0

end Unc.Walk
