import UncModel.Basic
/-!
# L2a: line-terminator census and choice (`src/tokenizer/tokenize.cpp`)

* `chooseNewline` — the tail of `tokenize()`: `cpd.newline` from the `newlines` option and `cpd.le_counts`.
* `wsScan` — the loop of `parse_whitespace()` as far as terminators are concerned: it consumes a run of
  whitespace, counts line breaks (`nl_count`) and increments `LE_COUNT(LF/CRLF/CR)`.
  (`unc_isspace` is modelled for the ASCII whitespace set ` \t\n\v\f\r`.)
-/
namespace Unc

inductive LineEnd | lf | crlf | cr | auto
deriving DecidableEq, Repr

def LineEnd.ofName : String → LineEnd
  | "lf" | "LF" => .lf | "crlf" | "CRLF" => .crlf | "cr" | "CR" => .cr | _ => .auto

structure LeCounts where
  lf : Nat := 0
  crlf : Nat := 0
  cr : Nat := 0
deriving DecidableEq, Repr

/-- tail of `tokenize()`: the chosen `cpd.newline` -/
def chooseNewline (opt : LineEnd) (n : LeCounts) : List CP :=
  if opt = .lf ∨ (opt = .auto ∧ n.lf ≥ n.crlf ∧ n.lf ≥ n.cr) then [10]
  else if opt = .crlf ∨ (opt = .auto ∧ n.crlf ≥ n.lf ∧ n.crlf ≥ n.cr) then [13, 10]
  else [13]

def isWs (c : CP) : Bool := c = 32 || c = 9 || c = 10 || c = 11 || c = 12 || c = 13

/-- `parse_whitespace`: consume the leading whitespace run; returns (nl_count, census, rest) -/
def wsScan : List CP → Nat → LeCounts → Nat × LeCounts × List CP
  | [], n, k => (n, k, [])
  | 13 :: 10 :: r, n, k => wsScan r (n + 1) { k with crlf := k.crlf + 1 }
  | 13 :: r, n, k => wsScan r (n + 1) { k with cr := k.cr + 1 }
  | 10 :: r, n, k => wsScan r (n + 1) { k with lf := k.lf + 1 }
  | c :: r, n, k => if isWs c then wsScan r n k else (n, k, c :: r)

/-- a line terminator as it appears in a file -/
inductive Term | lf | crlf | cr
deriving DecidableEq, Repr

def Term.cps : Term → List CP
  | .lf => [10] | .crlf => [13, 10] | .cr => [13]

/-- a whitespace run described structurally: blanks (no CR/LF), then a terminator, repeated; then final blanks -/
def encWs : List (List CP × Term) → List CP → List CP
  | [], fin => fin
  | (b, t) :: rest, fin => b ++ t.cps ++ encWs rest fin

/-- blanks: whitespace other than CR and LF -/
def IsBlanks (b : List CP) : Prop := ∀ c ∈ b, isWs c = true ∧ c ≠ 10 ∧ c ≠ 13

/-- the structural description is unambiguous: a CR terminator is never directly followed by an LF terminator -/
def Unamb : List (List CP × Term) → Prop
  | [] => True
  | [_] => True
  | (_, t) :: (b', t') :: rest => ¬ (t = .cr ∧ b' = [] ∧ t' = .lf) ∧ Unamb ((b', t') :: rest)

def census (segs : List (List CP × Term)) : LeCounts :=
  { lf := (segs.filter (·.2 = .lf)).length, crlf := (segs.filter (·.2 = .crlf)).length,
    cr := (segs.filter (·.2 = .cr)).length }

end Unc
