import UncModel.Props.C19
import UncModel.Props.C17
import UncModel.Props.C18
/-!
# C05 — formatting is a fixed point: idempotence of the appliers (PARTIAL)

The second run reads back what the first run wrote.  For the modelled appliers this file proves that the second
application changes nothing, given that the decision oracle (which rule governs a pair, what the nesting depth is)
answers the second time as it did the first time (H-stable, monitored by the C05 check through byte comparison
of run 2 with run 1):

* spacing (`space_text()` arithmetic): re-reading the produced gap as the original gap reproduces the gap;
* blank lines at the file edges (`do_blank_lines` edge rule + `newlines_eat_start_end`);
* indentation: the stack-machine model does not read original columns at all (`C18_indent_ignores_orig`).

Not covered: the decision oracles themselves (do_space's conditions, newline insertion/removal rules, alignment,
width splitting, comment re-flow) — their stability is what the differential part of the check observes.
-/
namespace Unc

/-- geometry the second run reads for the same pair, when the first run produced `gap` blank columns after a chunk that it
    placed at column `col` (no tab inside the gap, or equal tab sizes): orig_col_end = col + len, next.orig_col = that + gap -/
def reread (g : SpGeom) (col gap : Nat) : SpGeom :=
  { g with column := col, origColEnd := col + g.len, nextOrigCol := col + g.len + gap }

theorem origGap_reread (g : SpGeom) (col gap : Nat) (hc : 0 < col) : origGap (reread g col gap) = gap := by
  have h1 : (reread g col gap).origColEnd = col + g.len := rfl
  have h2 : (reread g col gap).nextOrigCol = col + g.len + gap := rfl
  unfold origGap
  rw [if_pos (by rw [h1, h2]; exact ⟨by omega, by omega⟩), h1, h2]
  omega

/-- **space_apply_idem**: for a pair on one line that does not start at a virtual brace, with the same decision
    (`av0`, forced flag, `min_sp`) the second run produces the gap the first run produced. -/
theorem C05_space_apply_idem (av0 : IARF) (forced : Bool) (minSp : Nat) (g : SpGeom) (col : Nat)
    (hv : g.isVbraceOpen = false) (hc : 0 < col) (hf : av0 = .ignore → forced = false) :
    gapOf av0 forced minSp (reread g col (gapOf av0 forced minSp g)) = gapOf av0 forced minSp g := by
  have hv' : (reread g col (gapOf av0 forced minSp g)).isVbraceOpen = false := hv
  have m1 := C19_apply_meaning forced minSp g hv
  have m2 := C19_apply_meaning forced minSp (reread g col (gapOf av0 forced minSp g)) hv'
  cases av0 with
  | remove =>
    cases forced
    · rw [m2.1, m1.1]
    · rw [m2.2.1, m1.2.1]
  | force => rw [m2.2.2.1, m1.2.2.1]
  | add =>
    rw [m2.2.2.2.1, origGap_reread _ _ _ hc, m1.2.2.2.1]
    omega
  | ignore =>
    have : forced = false := hf rfl
    subst this
    rw [m2.2.2.2.2.1, origGap_reread _ _ _ hc]

example : gapOf .add false 1 (reread ⟨5, 3, 0, 8, 12, false, 0⟩ 5 (gapOf .add false 1 ⟨5, 3, 0, 8, 12, false, 0⟩)) = 4 := by decide

/-- **file edges**: applying the edge passes to their own result changes nothing (every option value, every `min`) -/
theorem C05_file_edge_idem (opt : IARF) (min : Nat) (edge : Option Nat) :
    fileEdge false opt min (fileEdge false opt min edge) = fileEdge false opt min edge := by
  cases opt <;> cases edge <;> simp [fileEdge, blankEdge, eatEdge, IARF.hasRemove, IARF.hasAdd] <;>
    (repeat' split) <;> simp_all <;> omega

/-- **indentation**: the column of a first-on-line token is a function of token kinds and `indent_columns` only, hence
    re-formatting formatted text (same token kinds, different original columns) places it at the same column -/
theorem C05_indent_idem (o : IndentOpts) (ts : List ITok) (h : WellNested 0 ts) :
    indentRun o [] ts = closedForm o 0 ts := C18_column_closed_form o 0 ts h

end Unc
