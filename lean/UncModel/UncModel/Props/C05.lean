import UncModel.Props.C19
import UncModel.Props.C17
import UncModel.Props.C18
/-!
# C05 — formatting is a fixed point: idempotence of the appliers (PARTIAL)

The second run reads back what the first run wrote.  For the modelled appliers this file proves that the second
application changes nothing, given that the decision oracle (which rule governs a pair, what the nesting depth is)
answers the second time as it did the first time (H-stable, monitored by the C05 check through byte comparison
of run 2 with run 1):

* spacing (`space_text()` arithmetic): re-reading the produced gap as the original gap reproduces the gap;
* blank lines at the file edges (`do_blank_lines` edge rule + `newlines_eat_start_end`);
* indentation: the stack-machine model does not read original columns at all (`C18_indent_ignores_orig`).

Not covered: the decision oracles themselves (do_space's conditions, newline insertion/removal rules, alignment,
width splitting, comment re-flow) — their stability is what the differential part of the check observes.
-/
namespace Unc

/-- geometry the second run reads for the same pair, when the first run produced `gap` blank columns after a chunk that it
    placed at column `col` (no tab inside the gap, or equal tab sizes): orig_col_end = col + len, next.orig_col = that + gap -/
def reread (g : SpGeom) (col gap : Nat) : SpGeom :=
  { g with column := col, origColEnd := col + g.len, nextOrigCol := col + g.len + gap }

theorem origGap_reread (g : SpGeom) (col gap : Nat) (hc : 0 < col) : origGap (reread g col gap) = gap := by
  have h1 : (reread g col gap).origColEnd = col + g.len := rfl
  have h2 : (reread g col gap).nextOrigCol = col + g.len + gap := rfl
  unfold origGap
  rw [if_pos (by rw [h1, h2]; exact ⟨by omega, by omega⟩), h1, h2]
  omega

/-- **space_apply_idem**: for a pair on one line that does not start at a virtual brace, with the same decision
    (`av0`, forced flag, `min_sp`) the second run produces the gap the first run produced. -/
theorem C05_space_apply_idem (av0 : IARF) (forced : Bool) (minSp : Nat) (g : SpGeom) (col : Nat)
    (hv : g.isVbraceOpen = false) (hc : 0 < col) (hf : av0 = .ignore → forced = false) :
    gapOf av0 forced minSp (reread g col (gapOf av0 forced minSp g)) = gapOf av0 forced minSp g := by
  have hv' : (reread g col (gapOf av0 forced minSp g)).isVbraceOpen = false := hv
  have m1 := C19_apply_meaning forced minSp g hv
  have m2 := C19_apply_meaning forced minSp (reread g col (gapOf av0 forced minSp g)) hv'
  cases av0 with
  | remove =>
    cases forced
    · rw [m2.1, m1.1]
    · rw [m2.2.1, m1.2.1]
  | force => rw [m2.2.2.1, m1.2.2.1]
  | add =>
    rw [m2.2.2.2.1, origGap_reread _ _ _ hc, m1.2.2.2.1]
    omega
  | ignore =>
    have : forced = false := hf rfl
    subst this
    rw [m2.2.2.2.2.1, origGap_reread _ _ _ hc]

example : gapOf .add false 1 (reread ⟨5, 3, 0, 8, 12, false, 0⟩ 5 (gapOf .add false 1 ⟨5, 3, 0, 8, 12, false, 0⟩)) = 4 := by decide

/-- **file edges**: applying the edge passes to their own result changes nothing (every option value, every `min`) -/
theorem C05_file_edge_idem (opt : IARF) (min : Nat) (edge : Option Nat) :
    fileEdge false opt min (fileEdge false opt min edge) = fileEdge false opt min edge := by
  cases opt <;> cases edge <;> simp [fileEdge, blankEdge, eatEdge, IARF.hasRemove, IARF.hasAdd] <;>
    (repeat' split) <;> simp_all <;> omega

/-- **indentation**: the column of a first-on-line token is a function of token kinds and `indent_columns` only, hence
    re-formatting formatted text (same token kinds, different original columns) places it at the same column -/
theorem C05_indent_idem (o : IndentOpts) (ts : List ITok) (h : WellNested 0 ts) :
    indentRun o [] ts = closedForm o 0 ts := C18_column_closed_form o 0 ts h

/-- what the second run reads for a whole line: every chunk now stands where the first run put it -/
def rereadPairs (c0 : Nat) : List PairIn → List PairIn
  | [] => []
  | p :: ps =>
    let c1 := spaceApply p.av0 p.forced p.minSp (p.geom c0) p.t
    { p with origColEnd := c0 + p.len, nextOrigCol := c1 } :: rereadPairs c1 ps

/-- **a whole line is a fixed point of `space_text()`**: for every sequence of decisions, forced flags, minimum widths and token
    lengths (no virtual brace, no trailing-comment adjustment, Ignore not forced), the second run hands out the columns of the first -/
theorem C05_line_idem (c0 : Nat) (ps : List PairIn) (hc : 0 < c0)
    (h : ∀ p ∈ ps, p.isVbraceOpen = false ∧ p.t = TrCmt.none ∧ (p.av0 = .ignore → p.forced = false)) :
    lineCols c0 (rereadPairs c0 ps) = lineCols c0 ps := by
  induction ps generalizing c0 with
  | nil => rfl
  | cons p ps ih =>
    obtain ⟨hv, ht, hf⟩ := h p (by simp)
    have hcol := C19_apply_column p.av0 p.forced p.minSp (p.geom c0) rfl hv
    -- the column the first run gives to the second chunk of the pair
    have hc1 : spaceApply p.av0 p.forced p.minSp (p.geom c0) p.t = c0 + p.len + gapOf p.av0 p.forced p.minSp (p.geom c0) := by
      rw [ht]; simpa [PairIn.geom] using hcol
    have hpos : 0 < spaceApply p.av0 p.forced p.minSp (p.geom c0) p.t := by rw [hc1]; omega
    -- the geometry the second run reads is `reread`
    have hgeom : ({ p with origColEnd := c0 + p.len, nextOrigCol := spaceApply p.av0 p.forced p.minSp (p.geom c0) p.t } : PairIn).geom c0
        = reread (p.geom c0) c0 (gapOf p.av0 p.forced p.minSp (p.geom c0)) := by
      have h1 := hc1
      simp only [PairIn.geom] at h1 ⊢
      simp only [reread, h1]
    have hidem := C05_space_apply_idem p.av0 p.forced p.minSp (p.geom c0) c0 hv hc hf
    have hcol2 := C19_apply_column p.av0 p.forced p.minSp (reread (p.geom c0) c0 (gapOf p.av0 p.forced p.minSp (p.geom c0))) rfl hv
    have hsame : spaceApply p.av0 p.forced p.minSp
        (({ p with origColEnd := c0 + p.len, nextOrigCol := spaceApply p.av0 p.forced p.minSp (p.geom c0) p.t } : PairIn).geom c0) p.t
        = spaceApply p.av0 p.forced p.minSp (p.geom c0) p.t := by
      rw [hgeom, ht, hcol2, hidem]
      rw [ht] at hc1
      rw [hc1]
      simp [reread, PairIn.geom]
    simp only [rereadPairs, lineCols]
    rw [hsame]
    congr 1
    exact ih _ hpos (fun q hq => h q (by simp [hq]))

example : lineCols 5 (rereadPairs 5 [{ av0 := .add, forced := false, minSp := 1, len := 3, origColEnd := 8, nextOrigCol := 12, isVbraceOpen := false, prevOrigCol := 0, t := TrCmt.none },
                                      { av0 := .remove, forced := false, minSp := 1, len := 2, origColEnd := 14, nextOrigCol := 17, isVbraceOpen := false, prevOrigCol := 0, t := TrCmt.none }])
    = [12, 14] := by decide

end Unc
