import UncModel.Lemmas.PpBodyLemmas
/-!
Theorems about the CT_PREPROC_BODY chunk of an unknown directive (`#pragma`, `#error`, `#region` ...; C17, C02):

* `PpBody_no_backslash_blank`  – the chunk text never holds a backslash directly followed by a blank;
* `PpBody_no_trailing_blank`   – so, after the trailing-blank strip of `tokenize()` (which keeps ONE blank behind a backslash),
                                 the text does not end in a blank at all: the directive line cannot end in ` ` or TAB (C17);
* `PpBody_no_line_break`       – the text holds no line break;
* `PpBody_only_blanks_dropped` – the non-blank characters of (chunk text ++ input left to the tokenizer) are exactly those of the
                                 input, in order: the loop drops blanks, nothing else (C02);
* `PpBody_old_trailing_tab_witness` – the loop before the repair (TAB behind a backslash kept) produced a text ending in a TAB.
-/
namespace Unc.PpBody

theorem PpBody_no_backslash_blank (inp : List Nat) : cleanR (scan [] [] inp).1.reverse = true :=
  scan_cleanR inp [] [] rfl

theorem PpBody_no_trailing_blank (inp : List Nat) (c : Nat) (h : (body inp).getLast? = some c) : isBlankCh c = false := by
  have hs := strip_no_trailing_blank (scan [] [] inp).1
  obtain ⟨tail, ht, _⟩ := strip_only_blanks (scan [] [] inp).1
  have hc := PpBody_no_backslash_blank inp
  rw [ht, List.reverse_append] at hc
  have hc' := cleanR_suffix _ _ hc
  rw [getLast?_reverse_head] at h
  unfold body at h
  cases hr : (stripTrailing (scan [] [] inp).1).reverse with
  | nil => rw [hr] at h; simp at h
  | cons d rest =>
    rw [hr] at h hs hc'
    simp only [List.head?_cons, Option.some.injEq] at h
    subst h
    rcases hs with hs | hs
    · exact hs
    · have := (cleanR_cons d rest).1 hc'
      cases hb : isBlankCh d with
      | false => rfl
      | true => exact absurd ⟨hs, hb⟩ this.1

theorem PpBody_no_line_break (inp : List Nat) : ∀ x ∈ body inp, isEol x = false := by
  intro x hx
  obtain ⟨tail, ht, _⟩ := strip_only_blanks (scan [] [] inp).1
  have : x ∈ (scan [] [] inp).1 := by
    rw [ht]; exact List.mem_append_left _ hx
  exact scan_noEol inp [] [] (by simp) x this

theorem PpBody_only_blanks_dropped (inp : List Nat) :
    ((scan [] [] inp).1 ++ rest inp).filter nb = inp.filter nb := by
  have := scan_filter inp [] [] (Or.inl ⟨rfl, rfl⟩)
  simpa [rest] using this

-- `mark x \ TAB blank LF`: the repaired loop leaves `mark x ` (then stripped to `mark x`), the `\` goes to parse_bs_newline()
example : body [109, 32, 120, 32, 92, 32, 9, 32, 10, 122] = [109, 32, 120] := by decide
example : rest [109, 32, 120, 32, 92, 32, 9, 32, 10, 122] = [92, 32, 9, 32, 10, 122] := by decide
-- a comment start ends the body; a backslash in the middle keeps what follows
example : body [97, 32, 47, 47, 98] = [97] := by decide
example : body [97, 92, 32, 98] = [97, 92, 98] := by decide

/-- before the repair: `x \ TAB LF` gave the text `x \ TAB` (ends in a TAB; the line then ended in a TAB) -/
theorem PpBody_old_trailing_tab_witness : (bodyOld [120, 32, 92, 32, 9, 32, 10]).getLast? = some 9 := by decide

end Unc.PpBody
