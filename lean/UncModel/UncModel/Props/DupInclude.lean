import UncModel.Lemmas.DupIncludeLemmas
/-!
Theorems about `remove_duplicate_include()` (C04: the option removes only redundant `#include` lines; C01: the translation unit
keeps its meaning):

* `DupInc_deleted_is_covered`   – every deleted `#include` has the same text as a KEPT earlier one that sits in the same or in an
                                  enclosing `#if`/`#else` branch;
* `DupInc_same_headers_every_configuration` – for every choice of taken branches (every assignment of the conditions, consistent
                                  or not) exactly the same headers are included before and after the pass;
* `DupInc_first_kept`           – the first `#include` of a file is never deleted;
* `DupInc_old_loses_header_witness` – the pass before the repair deleted the `#include` of the `#else` branch because the `#if`
                                  branch held the same one: with the condition false the header was no longer included.
-/
namespace Unc.DupInc

theorem DupInc_deleted_is_covered (evs : List Ev) (e : Entry) (h : e ∈ trace {} evs) (hdel : e.kept = false) :
    ∃ p, p.isPrefixOf e.path = true ∧ (⟨e.name, p, true⟩ : Entry) ∈ trace {} evs := by
  obtain ⟨p, hp, h'⟩ := deleted_has_keeper evs {} e h hdel
  rcases h' with h' | ⟨_, h'⟩
  · simp at h'
  · exact ⟨p, hp, h'⟩

theorem DupInc_same_headers_every_configuration (evs : List Ev) (taken : Nat → Bool) (n : Nat) :
    includes taken n (trace {} evs) ↔ includes taken n ((trace {} evs).filter (·.kept)) := by
  constructor
  · rintro ⟨e, he, hn, ha⟩
    cases hk : e.kept with
    | true => exact ⟨e, by simp [he, hk], hn, ha⟩
    | false =>
      obtain ⟨p, hp, hm⟩ := DupInc_deleted_is_covered evs e he hk
      exact ⟨⟨e.name, p, true⟩, by simp [hm], hn, active_of_prefix taken p e.path hp ha⟩
  · rintro ⟨e, he, hn, ha⟩
    exact ⟨e, (List.mem_filter.1 he).1, hn, ha⟩

theorem DupInc_first_kept (evs : List Ev) (e : Entry) (rest : List Entry) (h : trace {} evs = e :: rest) : e.kept = true :=
  head_kept_of_first_none evs {} rfl e rest h

-- `#if` / `#include "1"` / `#else` / `#include "1"` / `#endif`: both kept (different branches); a third one after the `#endif`
-- is kept as well (the remembered one sits in a branch that is closed), a nested one in the same `#if` branch is deleted
example : (trace {} [.ifE, .inc 1, .elseE, .inc 1, .endifE, .inc 1]).map (·.kept) = [true, true, true] := by decide
example : (trace {} [.ifE, .inc 1, .ifE, .inc 1, .endifE, .elseE, .inc 1, .endifE]).map (·.kept) = [true, false, true] := by decide
example : (trace {} [.inc 1, .ifE, .inc 1, .elseE, .inc 2, .inc 1, .endifE, .inc 1]).map (·.kept) = [true, false, true, false, false] := by decide

/-- before the repair: with branch 1 (`#if`) not taken and branch 2 (`#else`) taken the header 1 is included by the input but by
    nothing the old pass kept -/
theorem DupInc_old_loses_header_witness :
    let evs := [Ev.ifE, .inc 1, .elseE, .inc 1, .endifE]
    let taken := fun i => i == 2
    (traceOld {} evs).map (fun e => (e.kept, active taken e.path)) = [(true, false), (false, true)] := by decide

end Unc.DupInc
