import UncModel.IgnoredScan
import UncModel.RegionNl
import UncModel.Gen.NlDel
import UncModel.Lemmas.RenderLemmas
/-!
# C07 — disabled regions are copied through untouched
-/
namespace Unc

theorem takeWhile_line (line rest : List Nat) (hline : ∀ c ∈ line, notEol c = true)
    (hrest : ∀ c, rest.head? = some c → notEol c = false) : (line ++ rest).takeWhile notEol = line := by
  induction line with
  | nil =>
    cases rest with
    | nil => rfl
    | cons b r => simp [List.takeWhile_cons, hrest b rfl]
  | cons a l ih =>
    have ha : notEol a = true := hline a (by simp)
    simp only [List.cons_append, List.takeWhile_cons, ha, ite_true]
    congr 1
    exact ih (fun c hc => hline c (by simp [hc]))

theorem dropWhile_line (line rest : List Nat) (hline : ∀ c ∈ line, notEol c = true)
    (hrest : ∀ c, rest.head? = some c → notEol c = false) : (line ++ rest).dropWhile notEol = rest := by
  induction line with
  | nil =>
    cases rest with
    | nil => rfl
    | cons b r => simp [List.dropWhile_cons, hrest b rfl]
  | cons a l ih =>
    have ha : notEol a = true := hline a (by simp)
    simp only [List.cons_append, List.dropWhile_cons, ha, ite_true]
    exact ih (fun c hc => hline c (by simp [hc]))

/-- While processing is off, a line that carries neither the enable marker nor `endasm` becomes ONE CT_IGNORED chunk
    whose text is the whole line — every code point, leading blanks, tabs, trailing blanks, non-ASCII — and scanning
    resumes at the line break. -/
theorem C07_ignored_line_exact (onText line rest : List CP)
    (hne : line ≠ []) (hline : ∀ c ∈ line, notEol c = true)
    (hrest : ∀ c, rest.head? = some c → notEol c = false)
    (hon : onText ≠ []) (hm : hasInfix onText line = false) (he : hasEndasm line = false) :
    parseIgnored onText (line ++ rest) = .ignored line rest := by
  have htake := takeWhile_line line rest hline hrest
  have hdrop := dropWhile_line line rest hline hrest
  unfold parseIgnored
  simp only [htake, hdrop, hne, he, hm, ite_false]
  simp [hon]

example : parseIgnored (str " *INDENT-ON*") (str "  foo(  \t{ é \t" ++ [10] ++ str "next") =
    .ignored (str "  foo(  \t{ é \t") ([10] ++ str "next") := by decide

/-- the enable marker on the line hands over to the comment scanner; `#pragma endasm` re-enables processing -/
example : parseIgnored (str " *INDENT-ON*") (str "/* *INDENT-ON* */" ++ [10]) = .marker := by decide
example : parseIgnored (str " *INDENT-ON*") (str "#pragma endasm" ++ [10]) = .reenable := by decide

/-- `output_text()` writes a CT_IGNORED chunk raw: exactly its text is appended, whatever the machine state is,
    and column, pending spaces, last character and the line-start flag are left untouched. -/
theorem C07_ignored_raw (s : RSt) (txt : List CP) :
    (rRaw s txt).o.out = s.o.out ++ txt ∧ (rRaw s txt).o.col = s.o.col ∧ (rRaw s txt).o.spaces = s.o.spaces
      ∧ (rRaw s txt).o.last = s.o.last ∧ (rRaw s txt).o.didNl = s.o.didNl := by
  induction txt generalizing s with
  | nil => simp [rRaw, OutSt.out]
  | cons c t ih =>
    have h := ih { o := { s.o with rout := c :: s.o.rout }, log := Op.raw c :: s.log }
    simp only [rRaw, List.foldl_cons] at h ⊢
    refine ⟨?_, h.2.1, h.2.2.1, h.2.2.2.1, h.2.2.2.2⟩
    rw [h.1]; simp [OutSt.out]

example : (rRaw { o := { col := 7, spaces := 3 } } [9, 120, 32]).o.out = [9, 120, 32] := by decide

/-! ## newline removal between the tokenizer and the output never takes a line of a region away -/

open RegionNl in
/-- the guard as regenerated from src/chunk.h refuses a newline chunk whose previous or next chunk is CT_IGNORED -/
theorem C07_safe_delete_refuses_ignored :
    (Gen.safeNlFalseWhen.contains ("prev", "CT_IGNORED") && Gen.safeNlFalseWhen.contains ("next", "CT_IGNORED")) = true := by
  decide +kernel

/-- the model of the guard agrees with the regenerated list of refusing tests (CT_COMMENT_CPP before; CT_IGNORED on either side) -/
theorem C07_safe_delete_model_matches_table :
    Gen.safeNlFalseWhen = [("prev", "CT_COMMENT_CPP"), ("prev", "CT_IGNORED"), ("next", "CT_IGNORED")] ∧
    Gen.safeNlFinal = "tmp->IsSamePreproc(GetNext())" := by
  constructor <;> decide +kernel

def nlDelSiteOk (s : String × String × String × String) : Bool :=
  s.2.2.2 == "guard" || s.2.2.2 == "early-exit" ||
  Gen.nlDelExceptions.any fun e => e.1 == s.1 && e.2.1 == s.2.1 && e.2.2.1 == s.2.2.1

/-- every `Chunk::Delete(v)` of src/newlines/*.cpp stands under `v->SafeToDeleteNl()` (enclosing condition or early exit) or is one of
    the committed, individually justified exceptions -/
theorem C07_nl_delete_sites_guarded : Gen.nlDelSites.all nlDelSiteOk = true := by decide +kernel

example : Gen.nlDelSites.length ≥ 10 := by decide +kernel


open RegionNl in
/-- **the lines of a region survive `newline_del_between()`**: whatever stretch of the chunk list the loop walks over, whatever
    `IsSamePreproc` answers, every CT_IGNORED chunk and every newline chunk that touches one is still there afterwards, in order
    and WITH ITS COUNT (the blank lines at the start and at the end of a region are kept) -/
theorem C07_del_between_keeps_region_lines (samePP : Nat → Bool) (l : List K) (i : Nat) (prev0 prevC : Option K)
    (h : prev0 = some K.ign → prevC = some K.ign) :
    keepProtected (delWalk samePP i prevC (markFrom prev0 l)) = keepProtected (markFrom prev0 l) := by
  induction l generalizing i prev0 prevC with
  | nil => simp [markFrom, delWalk, keepProtected]
  | cons c rest ih =>
    have hnext : ((markFrom (some c) rest).head?).map Prod.fst = rest.head? := head_markFrom _ _
    cases c with
    | nl n =>
      simp only [markFrom, delWalk, hnext]
      split
      · split
        · -- deleted: it was not protected
          rename_i hs
          have hp : protectedAt prev0 (K.nl n) rest.head? = false := by
            simp only [safeToDelete] at hs
            split at hs
            · cases hs
            · split at hs
              · cases hs
              · rename_i h1 h2
                simp only [protectedAt, K.isNl, Bool.true_and, Bool.or_eq_false_iff, decide_eq_false_iff_not]
                refine ⟨by simp, ?_, ?_⟩
                · intro hp0; exact h2 (Or.inl (h hp0))
                · intro hn; exact h2 (Or.inr hn)
          have := ih (i + 1) (some (K.nl n)) prevC (by intro hh; cases hh)
          simp only [keepProtected, List.filter_cons, hp] at this ⊢
          simpa using this
        · have := ih (i + 1) (some (K.nl n)) (some (K.nl n)) (by intro hh; cases hh)
          simp only [keepProtected, List.filter_cons] at this ⊢
          split <;> simp_all
      · -- next to a comment: the count goes to 1 only if the chunk touches no region line
        have := ih (i + 1) (some (K.nl n))
          (some (if n > 1 ∧ prevC ≠ some K.ign ∧ rest.head? ≠ some K.ign then K.nl 1 else K.nl n)) (by intro hh; cases hh)
        simp only [keepProtected, List.filter_cons] at this ⊢
        by_cases hp : protectedAt prev0 (K.nl n) rest.head? = true
        · have hc : (if n > 1 ∧ prevC ≠ some K.ign ∧ rest.head? ≠ some K.ign then K.nl 1 else K.nl n) = K.nl n := by
            simp only [protectedAt, K.isNl, Bool.true_and, Bool.or_eq_true, decide_eq_true_eq] at hp
            rcases hp with hp | hp
            · simp at hp
            · rcases hp with hp | hp
              · simp [h hp]
              · simp [hp]
          simp only [hp, if_true, List.map_cons, hc]
          simp only [hc] at this
          rw [this]
        · simp only [hp, Bool.false_eq_true, if_false]
          exact this
    | ign =>
      have := ih (i + 1) (some K.ign) (some K.ign) (by intro _; rfl)
      simp only [markFrom, delWalk, keepProtected, List.filter_cons] at this ⊢
      split <;> simp_all
    | cmtCpp =>
      have := ih (i + 1) (some K.cmtCpp) (some K.cmtCpp) (by intro hh; cases hh)
      simp only [markFrom, delWalk, keepProtected, List.filter_cons] at this ⊢
      split <;> simp_all
    | cmt =>
      have := ih (i + 1) (some K.cmt) (some K.cmt) (by intro hh; cases hh)
      simp only [markFrom, delWalk, keepProtected, List.filter_cons] at this ⊢
      split <;> simp_all
    | tok =>
      have := ih (i + 1) (some K.tok) (some K.tok) (by intro hh; cases hh)
      simp only [markFrom, delWalk, keepProtected, List.filter_cons] at this ⊢
      split <;> simp_all

open RegionNl in
/-- a whole region `line nl line nl(2) line nl` between two tokens, walked with every other condition saying "delete": nothing of it
    goes; the newline after the token in front (it touches no region line) does -/
example : (delWalk (fun _ => true) 0 none (markFrom none [K.tok, K.nl 1, K.tok, K.nl 1, K.ign, K.nl 1, K.ign, K.nl 2, K.ign, K.nl 1, K.tok])).map Prod.fst
    = [K.tok, K.tok, K.nl 1, K.ign, K.nl 1, K.ign, K.nl 2, K.ign, K.nl 1, K.tok] := by decide

open RegionNl in
/-- before the repair of the comment branch the count was not protected: a blank line at the end of a region, directly in front
    of a comment such as the enable marker (or one at its start, directly after the disable marker), was reduced to a plain line
    break by `newline_del_between()`; the repaired loop keeps it -/
theorem C07_region_blank_before_comment_witness :
    (delWalkOld (fun _ => true) 0 none (markFrom none [K.ign, K.nl 2, K.cmt])).map Prod.fst = [K.ign, K.nl 1, K.cmt] ∧
    (delWalkOld (fun _ => true) 0 none (markFrom none [K.cmt, K.nl 2, K.ign])).map Prod.fst = [K.cmt, K.nl 1, K.ign] ∧
    (delWalk (fun _ => true) 0 none (markFrom none [K.ign, K.nl 2, K.cmt])).map Prod.fst = [K.ign, K.nl 2, K.cmt] ∧
    (delWalk (fun _ => true) 0 none (markFrom none [K.cmt, K.nl 2, K.ign])).map Prod.fst = [K.cmt, K.nl 2, K.ign] ∧
    (delWalk (fun _ => true) 0 none (markFrom none [K.tok, K.nl 3, K.cmt])).map Prod.fst = [K.tok, K.nl 1, K.cmt] := by decide

open RegionNl in
/-- before fix 9ccb421 the guard did not look for CT_IGNORED: the same walk removed the line breaks between the lines of a region -/
theorem C07_old_guard_joins_region_lines_witness :
    let oldSafe : Option K → Option K → Bool → Bool := fun prev _ samePP => if prev = some K.cmtCpp then false else samePP
    oldSafe (some K.ign) (some K.ign) true = true ∧ safeToDelete (some K.ign) (some K.ign) true = false := by decide

end Unc
