import UncModel.IgnoredScan
import UncModel.Lemmas.RenderLemmas
/-!
# C07 — disabled regions are copied through untouched
-/
namespace Unc

theorem takeWhile_line (line rest : List Nat) (hline : ∀ c ∈ line, notEol c = true)
    (hrest : ∀ c, rest.head? = some c → notEol c = false) : (line ++ rest).takeWhile notEol = line := by
  induction line with
  | nil =>
    cases rest with
    | nil => rfl
    | cons b r => simp [List.takeWhile_cons, hrest b rfl]
  | cons a l ih =>
    have ha : notEol a = true := hline a (by simp)
    simp only [List.cons_append, List.takeWhile_cons, ha, ite_true]
    congr 1
    exact ih (fun c hc => hline c (by simp [hc]))

theorem dropWhile_line (line rest : List Nat) (hline : ∀ c ∈ line, notEol c = true)
    (hrest : ∀ c, rest.head? = some c → notEol c = false) : (line ++ rest).dropWhile notEol = rest := by
  induction line with
  | nil =>
    cases rest with
    | nil => rfl
    | cons b r => simp [List.dropWhile_cons, hrest b rfl]
  | cons a l ih =>
    have ha : notEol a = true := hline a (by simp)
    simp only [List.cons_append, List.dropWhile_cons, ha, ite_true]
    exact ih (fun c hc => hline c (by simp [hc]))

/-- While processing is off, a line that carries neither the enable marker nor `endasm` becomes ONE CT_IGNORED chunk
    whose text is the whole line — every code point, leading blanks, tabs, trailing blanks, non-ASCII — and scanning
    resumes at the line break. -/
theorem C07_ignored_line_exact (onText line rest : List CP)
    (hne : line ≠ []) (hline : ∀ c ∈ line, notEol c = true)
    (hrest : ∀ c, rest.head? = some c → notEol c = false)
    (hon : onText ≠ []) (hm : hasInfix onText line = false) (he : hasEndasm line = false) :
    parseIgnored onText (line ++ rest) = .ignored line rest := by
  have htake := takeWhile_line line rest hline hrest
  have hdrop := dropWhile_line line rest hline hrest
  unfold parseIgnored
  simp only [htake, hdrop, hne, he, hm, ite_false]
  simp [hon]

example : parseIgnored (str " *INDENT-ON*") (str "  foo(  \t{ é \t" ++ [10] ++ str "next") =
    .ignored (str "  foo(  \t{ é \t") ([10] ++ str "next") := by decide

/-- the enable marker on the line hands over to the comment scanner; `#pragma endasm` re-enables processing -/
example : parseIgnored (str " *INDENT-ON*") (str "/* *INDENT-ON* */" ++ [10]) = .marker := by decide
example : parseIgnored (str " *INDENT-ON*") (str "#pragma endasm" ++ [10]) = .reenable := by decide

/-- `output_text()` writes a CT_IGNORED chunk raw: exactly its text is appended, whatever the machine state is,
    and column, pending spaces, last character and the line-start flag are left untouched. -/
theorem C07_ignored_raw (s : RSt) (txt : List CP) :
    (rRaw s txt).o.out = s.o.out ++ txt ∧ (rRaw s txt).o.col = s.o.col ∧ (rRaw s txt).o.spaces = s.o.spaces
      ∧ (rRaw s txt).o.last = s.o.last ∧ (rRaw s txt).o.didNl = s.o.didNl := by
  induction txt generalizing s with
  | nil => simp [rRaw, OutSt.out]
  | cons c t ih =>
    have h := ih { o := { s.o with rout := c :: s.o.rout }, log := Op.raw c :: s.log }
    simp only [rRaw, List.foldl_cons] at h ⊢
    refine ⟨?_, h.2.1, h.2.2.1, h.2.2.2.1, h.2.2.2.2⟩
    rw [h.1]; simp [OutSt.out]

example : (rRaw { o := { col := 7, spaces := 3 } } [9, 120, 32]).o.out = [9, 120, 32] := by decide

end Unc
