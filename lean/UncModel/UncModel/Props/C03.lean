import UncModel.Basic
/-!
# C03 — comments survive intact: the permitted normalisation

The property allows a comment's continuation lines to be re-indented and trailing blanks to be trimmed.  `normCmt` removes exactly
that freedom (per line: trailing blanks; on continuation lines also leading blanks).  The theorems say that the normal form is
stable and that it identifies precisely the texts that differ by such layout — so comparing normal forms (what the C03 check does,
and what the monitor on the recorded comment ops does) neither hides a changed comment character nor flags a permitted re-layout.
The emission theorems (each chunk once, in order; literals verbatim) are in `Props/Render.lean` / `Props/RenderMore.lean`.
-/
namespace Unc

def isBl (c : Nat) : Bool := c = 32 || c = 9

def stripLead (l : List Nat) : List Nat := l.dropWhile isBl
def stripTrail (l : List Nat) : List Nat := (l.reverse.dropWhile isBl).reverse

def normLine (first : Bool) (l : List Nat) : List Nat := if first then stripTrail l else stripTrail (stripLead l)

def normCmt : List (List Nat) → List (List Nat)
  | [] => []
  | l :: ls => normLine true l :: ls.map (normLine false)

def AllBl (l : List Nat) : Prop := ∀ c ∈ l, isBl c = true

theorem dropWhile_blanks_append (p l : List Nat) (hp : AllBl p) : (p ++ l).dropWhile isBl = l.dropWhile isBl := by
  induction p with
  | nil => rfl
  | cons a p ih =>
    have ha : isBl a = true := hp a (by simp)
    simp only [List.cons_append, List.dropWhile_cons, ha, ite_true]
    exact ih (fun c hc => hp c (by simp [hc]))

theorem stripLead_append (p l : List Nat) (hp : AllBl p) : stripLead (p ++ l) = stripLead l :=
  dropWhile_blanks_append p l hp

theorem stripTrail_append (l t : List Nat) (ht : AllBl t) : stripTrail (l ++ t) = stripTrail l := by
  unfold stripTrail
  rw [List.reverse_append, dropWhile_blanks_append t.reverse l.reverse (fun c hc => ht c (by simpa using hc))]

theorem dropWhile_idem (l : List Nat) : (l.dropWhile isBl).dropWhile isBl = l.dropWhile isBl := by
  induction l with
  | nil => rfl
  | cons a l ih =>
    by_cases ha : isBl a = true
    · simp [List.dropWhile_cons, ha, ih]
    · simp [List.dropWhile_cons, ha]

theorem stripLead_idem (l : List Nat) : stripLead (stripLead l) = stripLead l := dropWhile_idem l

theorem stripTrail_idem (l : List Nat) : stripTrail (stripTrail l) = stripTrail l := by
  unfold stripTrail; rw [List.reverse_reverse, dropWhile_idem]

theorem head_dropWhile_nonblank (l : List Nat) (b : Nat) (r : List Nat) (h : l.dropWhile isBl = b :: r) : isBl b = false := by
  induction l with
  | nil => simp at h
  | cons a l ih =>
    by_cases ha : isBl a = true
    · simp only [List.dropWhile_cons, ha, ite_true] at h; exact ih h
    · simp only [List.dropWhile_cons, ha] at h
      simp at h; rw [← h.1]; simpa using ha

/-- dropping trailing blanks leaves the head of a list that starts with a non-blank untouched, hence commutes with `stripLead` -/
theorem stripLead_stripTrail (l : List Nat) : stripLead (stripTrail (stripLead l)) = stripTrail (stripLead l) := by
  -- `stripLead l` is empty or starts with a non-blank
  have key : ∀ m : List Nat, (∀ a, m.head? = some a → isBl a = false) → stripLead (stripTrail m) = stripTrail m := by
    intro m hm
    cases hst : stripTrail m with
    | nil => rfl
    | cons b r =>
      -- the head of `stripTrail m` is the head of `m`
      have hb : isBl b = false := by
        cases m with
        | nil => simp [stripTrail] at hst
        | cons a m' =>
          have ha := hm a rfl
          have : (stripTrail (a :: m')).head? = some a := by
            unfold stripTrail
            have h1 : (a :: m').reverse = m'.reverse ++ [a] := by simp
            rw [h1]
            generalize m'.reverse = q
            induction q with
            | nil => simp [List.dropWhile_cons, ha]
            | cons x q ih =>
              by_cases hx : isBl x = true
              · simp only [List.cons_append, List.dropWhile_cons, hx, ite_true]; exact ih
              · simp [List.dropWhile_cons, hx]
          rw [hst] at this
          simp at this; rw [this]; exact ha
      simp [stripLead, List.dropWhile_cons, hb]
  apply key
  intro a ha
  unfold stripLead at ha
  cases hd : l.dropWhile isBl with
  | nil => rw [hd] at ha; simp at ha
  | cons b r =>
    rw [hd] at ha
    simp at ha; subst ha
    exact head_dropWhile_nonblank l b r hd

theorem normLine_idem (f : Bool) (l : List Nat) : normLine f (normLine f l) = normLine f l := by
  cases f
  · simp only [normLine, Bool.false_eq_true, ite_false]
    rw [stripLead_stripTrail, stripTrail_idem]
  · simp only [normLine, ite_true]; exact stripTrail_idem l

/-- the normal form is stable -/
theorem C03_norm_idem (ls : List (List Nat)) : normCmt (normCmt ls) = normCmt ls := by
  cases ls with
  | nil => rfl
  | cons l ls =>
    simp only [normCmt, List.map_map]
    congr 1
    · exact normLine_idem true l
    · apply List.map_congr_left
      intro x _
      exact normLine_idem false x

/-- re-indenting continuation lines and adding or trimming trailing blanks does not change the normal form -/
theorem C03_norm_relayout (l0 t0 : List Nat) (ls : List (List Nat × List Nat × List Nat))
    (ht0 : AllBl t0) (hls : ∀ x ∈ ls, AllBl x.1 ∧ AllBl x.2.2) :
    normCmt ((l0 ++ t0) :: ls.map (fun x => x.1 ++ x.2.1 ++ x.2.2)) = normCmt (l0 :: ls.map (fun x => x.2.1)) := by
  simp only [normCmt, List.map_map]
  congr 1
  · simp only [normLine, ite_true]; exact stripTrail_append l0 t0 ht0
  · apply List.map_congr_left
    intro x hx
    obtain ⟨hp, ht⟩ := hls x hx
    simp only [Function.comp, normLine, Bool.false_eq_true, ite_false]
    rw [List.append_assoc, stripLead_append _ _ hp]
    -- stripTrail (stripLead (mid ++ t)) = stripTrail (stripLead mid)
    have : ∀ (m t : List Nat), AllBl t → stripTrail (stripLead (m ++ t)) = stripTrail (stripLead m) := by
      intro m t ht
      induction m with
      | nil =>
        have h1 : stripLead ([] ++ t) = [] := by
          simp only [List.nil_append, stripLead]
          induction t with
          | nil => rfl
          | cons a t ih =>
            have ha : isBl a = true := ht a (by simp)
            simp only [List.dropWhile_cons, ha, ite_true]
            exact ih (fun c hc => ht c (by simp [hc]))
        rw [h1]; rfl
      | cons a m _ =>
        by_cases ha : isBl a = true
        · simp only [List.cons_append, stripLead, List.dropWhile_cons, ha, ite_true]
          rename_i ih; exact ih
        · simp only [List.cons_append, stripLead, List.dropWhile_cons, ha]
          have : a :: (m ++ t) = (a :: m) ++ t := rfl
          simp only [Bool.false_eq_true, ite_false]
          rw [this, stripTrail_append _ _ ht]
    exact this _ _ ht

example : normCmt [[47, 42, 32, 97, 32, 32], [32, 32, 32, 42, 32, 98, 9], [32, 42, 47]] =
    [[47, 42, 32, 97], [42, 32, 98], [42, 47]] := by decide

end Unc
