import UncModel.Lemmas.CliLemmas
/-!
# C12 — `--check` and `--if-changed` tell the truth and write nothing they should not

Model: `UncModel/CheckMode.lean` (`boutCompare`, `execJob`, `runJobs`, `finalStatus`) over the plan of
`UncModel/Cli.lean`; the formatter is the abstract parameter `F`.  The model follows the code *with*
`fixes/stdin-if-changed.patch` (before it, the stdin branch of `main()` ignored `--if-changed`: see the
comment at `C12_if_changed_writes_iff`).
-/
namespace Unc
open Cli
set_option linter.unusedSimpArgs false

/-- `bout_content_matches` (sizes first, then byte by byte) returns true exactly when the buffers are equal.
    `Nat` model of `int idx`: faithful below 2^31 bytes. -/
theorem C12_bout_matches_iff (raw out : Bytes) : boutMatches raw out = true ↔ raw = out :=
  boutMatches_iff raw out

example : boutMatches [0x69, 0x6e, 0x74, 0x0a] [0x69, 0x6e, 0x74, 0x0a] = true ∧
          boutMatches [0x69, 0x6e, 0x74, 0x0a] [0x69, 0x6e, 0x74, 0x0d] = false ∧
          boutMatches [0x69, 0x6e, 0x74, 0x0a] [0x69, 0x6e, 0x74] = false := by decide

/-- `check_fail_cnt` after the jobs of a check run: it only grows, by one per job whose formatted bytes differ -/
theorem C12_check_fail_cnt (F : Formatter) (g : Globals) (w : World) (hc : g.doCheck = true)
    (jobs : List Job) (htrk : ∀ j ∈ jobs, j.track = none) (cnt : Nat) :
    (runJobs F g w jobs cnt).failCnt
        = cnt + (jobs.filter (fun j => F (w.raw j.src) j.lang j.name != w.raw j.src)).length ∧
    (runJobs F g w jobs cnt).exited = false := by
  induction jobs generalizing cnt with
  | nil => simp [runJobs]
  | cons j js ih =>
    have ht : j.track = none := htrk j (by simp)
    have ih' := ih (fun x hx => htrk x (by simp [hx]))
    simp only [runJobs, execJob_check F g _ j hc ht, Bool.false_eq_true, if_false]
    rw [(ih' _).1, (ih' _).2]
    refine ⟨?_, rfl⟩
    simp only [List.filter_cons]
    by_cases hs : F (w.raw j.src) j.lang j.name = w.raw j.src
    · have : boutCompare (w.raw j.src) (F (w.raw j.src) j.lang j.name) = .same :=
        (boutCompare_same_iff _ _).mpr hs.symm
      simp only [this]; simp [hs]
    · have : boutCompare (w.raw j.src) (F (w.raw j.src) j.lang j.name) ≠ .same :=
        fun h => hs ((boutCompare_same_iff _ _).mp h).symm
      simp only [beq_iff_eq, this, if_false]; simp [hs]; omega

/-- `--check` exits 0 exactly when every given file is reproduced byte for byte by formatting (else 1) -/
theorem C12_check_exit_iff (F : Formatter) (g : Globals) (w : World) (hc : g.doCheck = true)
    (jobs : List Job) (htrk : ∀ j ∈ jobs, j.track = none) :
    (finalStatus g none (runJobs F g w jobs 0) = 0 ↔ ∀ j ∈ jobs, F (w.raw j.src) j.lang j.name = w.raw j.src) ∧
    (finalStatus g none (runJobs F g w jobs 0) = 0 ∨ finalStatus g none (runJobs F g w jobs 0) = 1) := by
  obtain ⟨h1, h2⟩ := C12_check_fail_cnt F g w hc jobs htrk 0
  simp only [finalStatus, h1, h2, hc, Bool.false_eq_true, if_false, Nat.zero_add, Bool.true_and]
  constructor
  · constructor
    · intro h j hj
      by_cases hs : F (w.raw j.src) j.lang j.name = w.raw j.src
      · exact hs
      · exfalso
        have : j ∈ jobs.filter (fun j => F (w.raw j.src) j.lang j.name != w.raw j.src) := by
          simp [List.mem_filter, hj, hs]
        have hpos : 0 < (jobs.filter (fun j => F (w.raw j.src) j.lang j.name != w.raw j.src)).length :=
          List.length_pos_of_mem this
        split at h <;> simp_all
    · intro h
      have : jobs.filter (fun j => F (w.raw j.src) j.lang j.name != w.raw j.src) = [] := by
        rw [List.filter_eq_nil_iff]; intro j hj; simp [h j hj]
      simp [this]
  · split <;> simp

example : finalStatus { doCheck := true, ifChanged := false, frag := false, quiet := false, log := none, showSev := false, langForced := false } none
    (runJobs (fun raw _ _ => raw.filter (· != 32)) { doCheck := true, ifChanged := false, frag := false, quiet := false, log := none, showSev := false, langForced := false }
      { file := fun n => if n = c!"a.c" then [105, 32, 59] else [105, 59], stdin := [] }
      [fileJob { doCheck := true, ifChanged := false, frag := false, quiet := false, log := none, showSev := false, langForced := false } 0 [] c!"b.c" none none none false false none,
       fileJob { doCheck := true, ifChanged := false, frag := false, quiet := false, log := none, showSev := false, langForced := false } 0 [] c!"a.c" none none none false false none] 0) = 1 := by
  decide

/-- the PASS / FAIL lines of a check run: for every job in order exactly the lines `bout_content_matches`
    prints for it — one FAIL line iff the formatted bytes differ, one PASS line iff they are equal and `-q`
    is not given — and `check_fail_cnt` equals the number of FAIL lines -/
theorem C12_check_reports_consistent (F : Formatter) (g : Globals) (w : World) (hc : g.doCheck = true)
    (jobs : List Job) (htrk : ∀ j ∈ jobs, j.track = none) (cnt : Nat) :
    linesOf (runJobs F g w jobs cnt).effs
      = jobs.flatMap (fun j => reportLines j.name g.quiet (w.raw j.src) (boutCompare (w.raw j.src) (F (w.raw j.src) j.lang j.name))) ∧
    (runJobs F g w jobs cnt).failCnt = cnt + ((linesOf (runJobs F g w jobs cnt).effs).filter Line.isFail).length ∧
    (∀ j : Job, ∀ l ∈ reportLines j.name g.quiet (w.raw j.src) (boutCompare (w.raw j.src) (F (w.raw j.src) j.lang j.name)),
      l.name = j.name ∧ (l.isFail = true ↔ F (w.raw j.src) j.lang j.name ≠ w.raw j.src)) ∧
    (∀ j : Job, (reportLines j.name g.quiet (w.raw j.src) (boutCompare (w.raw j.src) (F (w.raw j.src) j.lang j.name))).length
        = if F (w.raw j.src) j.lang j.name = w.raw j.src ∧ g.quiet = true then 0 else 1) := by
  refine ⟨?_, ?_, ?_, ?_⟩
  · induction jobs generalizing cnt with
    | nil => simp [runJobs, linesOf]
    | cons j js ih =>
      have ht : j.track = none := htrk j (by simp)
      simp only [runJobs, execJob_check F g _ j hc ht, Bool.false_eq_true, if_false, List.flatMap_cons]
      rw [linesOf_append, linesOf_append, linesOf_append, linesOf_sinkEffs, linesOf_sideEffs, linesOf_lines,
        ih (fun x hx => htrk x (by simp [hx]))]
      simp
  · induction jobs generalizing cnt with
    | nil => simp [runJobs, linesOf]
    | cons j js ih =>
      have ht : j.track = none := htrk j (by simp)
      simp only [runJobs, execJob_check F g _ j hc ht, Bool.false_eq_true, if_false]
      rw [linesOf_append, linesOf_append, linesOf_append, linesOf_sinkEffs, linesOf_sideEffs, linesOf_lines,
        ih (fun x hx => htrk x (by simp [hx])), List.filter_append, List.length_append]
      cases hcmp : boutCompare (w.raw j.src) (F (w.raw j.src) j.lang j.name) with
      | same => cases hq : g.quiet <;> simp [reportLines, hq, Line.isFail]
      | sizeChanged a b => simp [reportLines, Line.isFail, List.filter]; omega
      | diffAt i => simp [reportLines, Line.isFail, List.filter]; omega
  · intro j l hl
    cases hcmp : boutCompare (w.raw j.src) (F (w.raw j.src) j.lang j.name) with
    | same =>
      have he := ((boutCompare_same_iff _ _).mp hcmp).symm
      rw [hcmp] at hl
      cases hq : g.quiet <;> simp [reportLines, hq] at hl
      subst hl; simp [Line.name, Line.isFail, he]
    | sizeChanged a b =>
      have hne : F (w.raw j.src) j.lang j.name ≠ w.raw j.src := by
        intro h; have := (boutCompare_same_iff _ _).mpr h.symm; rw [hcmp] at this; cases this
      rw [hcmp] at hl; simp [reportLines] at hl
      subst hl; simp [Line.name, Line.isFail, hne]
    | diffAt i =>
      have hne : F (w.raw j.src) j.lang j.name ≠ w.raw j.src := by
        intro h; have := (boutCompare_same_iff _ _).mpr h.symm; rw [hcmp] at this; cases this
      rw [hcmp] at hl; simp [reportLines] at hl
      subst hl; simp [Line.name, Line.isFail, hne]
  · intro j
    cases hcmp : boutCompare (w.raw j.src) (F (w.raw j.src) j.lang j.name) with
    | same =>
      have he := ((boutCompare_same_iff _ _).mp hcmp).symm
      cases hq : g.quiet <;> simp [reportLines, hq, he]
    | sizeChanged a b =>
      have hne : F (w.raw j.src) j.lang j.name ≠ w.raw j.src := by
        intro h; have := (boutCompare_same_iff _ _).mpr h.symm; rw [hcmp] at this; cases this
      simp [reportLines, hne]
    | diffAt i =>
      have hne : F (w.raw j.src) j.lang j.name ≠ w.raw j.src := by
        intro h; have := (boutCompare_same_iff _ _).mpr h.symm; rw [hcmp] at this; cases this
      simp [reportLines, hne]

/-- For every argv and environment: in check mode no job of the plan has a writable output target.  Files get
    no sink at all (the `if (!cpd.do_check)` guard of `do_source_file`), stdin is echoed to the *real* stdout
    (the guard around `redir_stdout`), `--mtime` never fires; the table "Cannot use --check with output options"
    has already turned `-o`, `--replace`, `--no-backup`, `--mtime`, `--prefix`, `--suffix`, `--if-changed`,
    `--detect`, `--update-config*` into status 67.  Consequently the only file-system effects of a check run are
    the debug side files the user named with `-p`, `--dump-steps`, `--tracking` (see the witness below). -/
theorem C12_check_no_write (F : Formatter) (w : World) (argv : List Str) (env : Env)
    (g : Globals) (jobs : List Job) (stop : Option Nat)
    (h : plan argv env = .run g jobs stop) (hc : (parseArgs argv).check = true) :
    g.doCheck = true ∧
    (∀ j ∈ jobs, (j.sink = .none ∨ (j.src = .stdin ∧ j.sink = .stdout)) ∧ j.keepMtime = false) ∧
    (parseArgs argv).output = none ∧ (parseArgs argv).replace = false ∧ (parseArgs argv).noBackup = false ∧
    (parseArgs argv).pfx = none ∧ (parseArgs argv).sfx = none ∧ (parseArgs argv).ifChanged = false ∧
    (∀ e ∈ (runCli F w argv env).2, e.touchesFs = true → ∃ k p, e = .side k p) := by
  unfold plan at h
  obtain ⟨he, hd⟩ := route_run _ _ _ _ _ _ h
  have hsinks := dispatch_check_sinks _ _ _ _ _ _ hd hc
  -- the incompatibility table
  rw [earlyExit, firstSome_none] at he
  have htab : exitCheckTable (parseArgs argv) = none := he _ (by simp)
  have hflags : (parseArgs argv).output = none ∧ (parseArgs argv).replace = false ∧ (parseArgs argv).noBackup = false ∧
      (parseArgs argv).pfx = none ∧ (parseArgs argv).sfx = none ∧ (parseArgs argv).ifChanged = false := by
    unfold exitCheckTable at htab
    split at htab
    · cases htab
    · rename_i hh
      simp only [hc, Bool.true_and, Bool.or_eq_true, not_or, Bool.not_eq_true, Option.isSome_eq_false_iff,
        Option.isNone_iff_eq_none] at hh
      obtain ⟨⟨⟨⟨⟨⟨⟨⟨⟨h1, h2⟩, h3⟩, _⟩, _⟩, _⟩, _⟩, h8⟩, h9⟩, h10⟩ := hh
      exact ⟨h1, h2, h3, h8, h9, h10⟩
  refine ⟨hsinks.1, hsinks.2, hflags.1, hflags.2.1, hflags.2.2.1, hflags.2.2.2.1, hflags.2.2.2.2.1, hflags.2.2.2.2.2, ?_⟩
  -- effects
  have hrun : ∀ (js : List Job) (cnt : Nat), (∀ j ∈ js, j.noFileSink) →
      ∀ e ∈ (runJobs F g w js cnt).effs, e.touchesFs = true → ∃ k p, e = .side k p := by
    intro js
    induction js with
    | nil => intro cnt _ e he; simp [runJobs] at he
    | cons j js ih =>
      intro cnt hj e he ht
      have hjn := hj j (by simp)
      have hone : ∀ e ∈ (execJob F g (w.raw j.src) j).effs, e.touchesFs = true → ∃ k p, e = .side k p := by
        intro e he ht
        obtain ⟨hs, hk⟩ := hjn
        unfold execJob at he
        rw [hsinks.1] at he
        cases htr : j.track with
        | some t =>
          rw [htr] at he
          simp only [] at he
          have : sinkOpenOnly j.sink = [] := by rcases hs with hs | ⟨_, hs⟩ <;> simp [hs, sinkOpenOnly]
          rw [this] at he
          cases hd : j.dump <;> simp [hd] at he
          · exact ⟨_, _, he⟩
          · rcases he with he | he <;> exact ⟨_, _, he⟩
        | none =>
          rw [htr] at he
          simp only [if_true] at he
          rw [List.mem_append, List.mem_append] at he
          rcases he with (he | he) | he
          · rcases hs with hs | ⟨_, hs⟩ <;> simp [hs, sinkEffs] at he
            subst he; simp [Eff.touchesFs] at ht
          · unfold sideEffs at he
            cases hd : j.dump <;> cases hp : j.parsed <;> simp [hd, hp] at he
            · exact ⟨_, _, he⟩
            · exact ⟨_, _, he⟩
            · rcases he with he | he <;> exact ⟨_, _, he⟩
          · simp only [List.mem_map] at he
            obtain ⟨l, _, rfl⟩ := he
            simp [Eff.touchesFs] at ht
      simp only [runJobs] at he
      split at he
      · exact hone e he ht
      · rw [List.mem_append] at he
        rcases he with he | he
        · exact hone e he ht
        · exact ih _ (fun x hx => hj x (by simp [hx])) e he ht
  intro e he ht
  simp only [runCli, plan, h, runOutcome] at he
  exact hrun jobs 0 hsinks.2 e he ht

/-- non-vacuity, and the one way a check run does write: an explicitly requested debug file -/
theorem C12_check_side_file_witness :
    plan [c!"uncrustify", c!"-c", c!"my.cfg", c!"--check", c!"-p", c!"parsed.txt", c!"-f", c!"a.c"]
      { envCfg := none, homeCfg := none, cfgLoad := fun _ => none, extMap := [], optKnown := fun _ => true,
        optReads := fun _ _ => true, typeFile := fun _ => none, headersOk := true, loadable := fun _ => true,
        writable := fun _ => true, stdinOk := true, listText := fun _ => none }
    = .run { doCheck := true, ifChanged := false, frag := false, quiet := false, log := none, showSev := false, langForced := false }
        [{ src := .file c!"a.c", name := c!"a.c", lang := 1, sink := .none, track := none,
           parsed := some c!"parsed.txt", dump := none, keepMtime := false }] none := by
  decide +kernel

/-- `--if-changed`: the output target (a file, an in-place rewrite, or — with `fixes/stdin-if-changed.patch` —
    stdout / the `-o` target of the stdin branch) is opened exactly when the formatted bytes differ from the
    input, and then the run has exactly the output effects of the same run without `--if-changed`, i.e. the
    sink receives `F raw`.  Debug side files are written either way.

    Before the patch the stdin branch called `uncrustify_file(fm, stdout, …)` unconditionally after
    `redir_stdout(output_file)`: `uncrustify -c cfg -l C --if-changed -o OUT < already-formatted.c` created OUT. -/
theorem C12_if_changed_writes_iff (F : Formatter) (g : Globals) (raw : Bytes) (j : Job)
    (hc : g.doCheck = false) (hi : g.ifChanged = true) (ht : j.track = none) :
    (F raw j.lang j.name = raw → (execJob F g raw j).effs.filter Eff.isOutput = []) ∧
    (F raw j.lang j.name ≠ raw →
      (execJob F g raw j).effs.filter Eff.isOutput
        = (execJob F { g with ifChanged := false } raw j).effs.filter Eff.isOutput ∧
      (execJob F g raw j).effs.filter Eff.isOutput
        = sinkEffs j.sink (F raw j.lang j.name) ++ (if j.keepMtime then [.utime j.name] else [])) ∧
    (j.sink ≠ .none → ((execJob F g raw j).effs.filter Eff.isOutput = [] ↔ F raw j.lang j.name = raw)) := by
  have hsame : F raw j.lang j.name = raw → (execJob F g raw j).effs.filter Eff.isOutput = [] := by
    intro h
    have : boutMatches raw (F raw j.lang j.name) = true := (boutMatches_iff _ _).mpr h.symm
    simp [execJob, ht, hc, hi, this, filter_sideEffs]
  have hdiff : F raw j.lang j.name ≠ raw →
      (execJob F g raw j).effs.filter Eff.isOutput
        = sinkEffs j.sink (F raw j.lang j.name) ++ (if j.keepMtime then [.utime j.name] else []) := by
    intro h
    have : boutMatches raw (F raw j.lang j.name) = false := by
      cases hb : boutMatches raw (F raw j.lang j.name) with
      | false => rfl
      | true => exact absurd ((boutMatches_iff _ _).mp hb).symm h
    simp only [execJob, ht, hc, hi, this, Bool.false_eq_true, if_false, if_true, writeAll_bout_only]
    rw [List.filter_append, List.filter_append, filter_sideEffs, filter_sinkEffs]
    cases j.keepMtime <;> simp [Eff.isOutput]
  refine ⟨hsame, ?_, ?_⟩
  · intro h
    refine ⟨?_, hdiff h⟩
    rw [hdiff h]
    simp only [execJob, ht, hc, Bool.false_eq_true, if_false, writeAll_fout_only]
    rw [List.filter_append, List.filter_append, filter_sideEffs, filter_sinkEffs]
    cases j.keepMtime <;> simp [Eff.isOutput, List.filter]
  · intro hs
    constructor
    · intro he
      by_cases h : F raw j.lang j.name = raw
      · exact h
      · rw [hdiff h] at he
        cases hk : j.sink <;> simp_all [sinkEffs]
    · exact hsame

example : (execJob (fun raw _ _ => raw.filter (· != 32))
            { doCheck := false, ifChanged := true, frag := false, quiet := false, log := none, showSev := false, langForced := false }
            [105, 32, 59]
            { src := .file c!"a.c", name := c!"a.c", lang := 1, sink := .inplace c!"a.c" true, track := none, parsed := none,
              dump := none, keepMtime := false }).effs = [.replace c!"a.c" [105, 59] true] ∧
          (execJob (fun raw _ _ => raw.filter (· != 32))
            { doCheck := false, ifChanged := true, frag := false, quiet := false, log := none, showSev := false, langForced := false }
            [105, 59]
            { src := .file c!"a.c", name := c!"a.c", lang := 1, sink := .inplace c!"a.c" true, track := none, parsed := none,
              dump := none, keepMtime := false }).effs = [] := by decide

end Unc
