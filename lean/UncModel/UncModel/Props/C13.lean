import UncModel.Lemmas.FsProtoLemmas
/-!
# C13 — in-place rewriting is all-or-nothing

Model: `UncModel/FsProto.lean` (`doSourceFile`, fixed code = `Fix.fixed`, i.e. with
`fixes/fs-1-c14-md5-after-rename.patch` and `fixes/fs-2-c13-check-write-errors.patch` applied).
`f0` is ANY file system in which the target holds `orig` (stale temp / backup / md5 files allowed),
`F` any formatter, `h` any digest function, `mode` any of `--replace`, `--no-backup`, `-o X -f X`.
-/
namespace Unc

/-- Kill the process before, during (torn write) or after any call of any in-place run: the target
    holds the complete original or the complete formatted bytes. -/
theorem C13_crash_atomic (mode : FsMode) (F : FBytes → FmtRes) (h : FBytes → FBytes) (f0 : FS) (orig : FBytes)
    (h0 : f0.target = some orig) :
    ∀ g, CrashFrom f0 (doSourceFile Fix.fixed mode F h) g → TargetOK orig (F orig) g := by
  intro g hc
  obtain ⟨st, hr⟩ := crash_reach _ f0 g 0 false hc
  exact (reach_doSourceFile mode F h f0 orig h0 _ hr).1

example : ∃ g, CrashFrom ⟨some [1], none, none, none⟩
    (doSourceFile Fix.fixed .replace (fun _ => .ok [2, 3]) id) g ∧ g.target = some [2, 3] ∧ g.md5 = none := by
  refine ⟨⟨some [2, 3], none, some [1], none⟩, ?_, rfl, rfl⟩
  simp [doSourceFile, restPart, backupPart, fmtPart, finishPart, md5Part, CrashFrom, Fix.fixed, FsMode.backup, FS.get,
    FS.set, step, during]

/-- … and (unless `--no-backup`) whenever the target no longer holds the original bytes, the backup
    file holds exactly the original bytes. -/
theorem C13_backup_when_changed (mode : FsMode) (F : FBytes → FmtRes) (h : FBytes → FBytes) (f0 : FS) (orig : FBytes)
    (h0 : f0.target = some orig) (hmode : mode ≠ .noBackup) :
    ∀ g, CrashFrom f0 (doSourceFile Fix.fixed mode F h) g → BackupOK h orig f0 g := by
  intro g hc
  obtain ⟨st, hr⟩ := crash_reach _ f0 g 0 false hc
  have hb : mode.backup = true := by cases mode <;> simp_all [FsMode.backup]
  exact (reach_doSourceFile mode F h f0 orig h0 _ hr).2.1 hb

/-- non-vacuity: a crash state in which the target already holds the formatted bytes; the backup holds the original -/
example : ∃ g, CrashFrom ⟨some [1], some [5], some [9], none⟩
    (doSourceFile Fix.fixed .oEqualsF (fun _ => .ok [2, 3]) id) g ∧ g.target ≠ some [1] ∧ g.bak = some [1] := by
  refine ⟨⟨some [2, 3], none, some [1], none⟩, ?_, by decide, rfl⟩
  simp [doSourceFile, restPart, backupPart, fmtPart, finishPart, md5Part, CrashFrom, Fix.fixed, FsMode.backup, FS.get,
    FS.set, step, during]

/-- the md5-free case, as C13 literally states it -/
theorem C13_backup_when_changed_no_md5 (mode : FsMode) (F : FBytes → FmtRes) (h : FBytes → FBytes) (f0 : FS)
    (orig : FBytes) (h0 : f0.target = some orig) (hmode : mode ≠ .noBackup) (hm : f0.md5 ≠ some (h orig)) :
    ∀ g, CrashFrom f0 (doSourceFile Fix.fixed mode F h) g → g.target ≠ some orig → g.bak = some orig := by
  intro g hc hne
  rcases C13_backup_when_changed mode F h f0 orig h0 hmode g hc hne with hb | ⟨hm', _⟩
  · exact hb
  · exact absurd hm' hm

example : (⟨some [1], none, some [9], some [7]⟩ : FS).md5 ≠ some (id [1]) := by decide

/-- Let ANY subset of the calls fail (a failed write leaves any prefix), and kill the process
    anywhere: target and backup clauses still hold, and a run in which a call failed (other than
    the two tolerated read-side probes) never exits with status 0.  `F orig = fail st _` is a
    formatting failure, whose status is non-zero by C06. -/
theorem C13_fault_atomic (mode : FsMode) (F : FBytes → FmtRes) (h : FBytes → FBytes) (f0 : FS) (orig : FBytes)
    (h0 : f0.target = some orig) (hst : ∀ st p, F orig = .fail st p → st ≠ 0) :
    ∀ o, Reach f0 0 false (doSourceFile Fix.fixed mode F h) o →
      TargetOK orig (F orig) o.fs
      ∧ (mode ≠ .noBackup → BackupOK h orig f0 o.fs)
      ∧ (o.hard = true → o.status ≠ some 0) := by
  intro o hr
  obtain ⟨a, b, c⟩ := reach_doSourceFile mode F h f0 orig h0 o hr
  refine ⟨a, fun hmode => b (by cases mode <;> simp_all [FsMode.backup]), c hst⟩

/-- non-vacuity: the rename fails (EACCES) after everything else went well: exit 74, original intact -/
example : ∃ o, Reach ⟨some [1], none, none, none⟩ 0 false
    (doSourceFile Fix.fixed .noBackup (fun _ => .ok [2, 3]) id) o
    ∧ o.faults = 1 ∧ o.hard = true ∧ o.status = some 74 ∧ o.fs.target = some [1] :=
  ⟨_, exec_reach _ _ [.ok, .ok, .ok, .ok, .ok, .err 0] 0 false, by decide⟩

/-- the single-fault and fault-pair instances the check enumerates on the binary -/
theorem C13_fault_atomic_pairs (mode : FsMode) (F : FBytes → FmtRes) (h : FBytes → FBytes) (f0 : FS) (orig : FBytes)
    (h0 : f0.target = some orig) (hst : ∀ st p, F orig = .fail st p → st ≠ 0) :
    ∀ o, Reach f0 0 false (doSourceFile Fix.fixed mode F h) o → o.faults ≤ 2 →
      TargetOK orig (F orig) o.fs ∧ (mode ≠ .noBackup → BackupOK h orig f0 o.fs)
      ∧ (o.hard = true → o.status ≠ some 0) :=
  fun o hr _ => C13_fault_atomic mode F h f0 orig h0 hst o hr

/-- non-vacuity: a run with two failing calls (md5 read, then the temp-file write torn after 1 byte) -/
example : ∃ o, Reach ⟨some [1], none, none, some [7]⟩ 0 false
    (doSourceFile Fix.fixed .replace (fun _ => .ok [2, 3]) id) o
    ∧ o.faults = 2 ∧ o.hard = true ∧ o.status = some 74 ∧ o.fs.tmp = some [2] :=
  ⟨_, exec_reach _ _ [.ok, .err 0, .ok, .ok, .ok, .ok, .err 1] 0 false, by decide⟩

/-- A formatting failure (any exit inside `uncrustify_file`) leaves the original bytes in place, at
    every instant and under any faults. -/
theorem C13_fmt_failure_leaves_orig (mode : FsMode) (F : FBytes → FmtRes) (h : FBytes → FBytes) (f0 : FS)
    (orig : FBytes) (h0 : f0.target = some orig) (st : Nat) (part : FBytes) (hF : F orig = .fail st part) :
    ∀ o, Reach f0 0 false (doSourceFile Fix.fixed mode F h) o → o.fs.target = some orig := by
  intro o hr
  rcases (reach_doSourceFile mode F h f0 orig h0 o hr).1 with ht | ⟨out, ho, _⟩
  · exact ht
  · rw [hF] at ho; cases ho

example : (exec (doSourceFile Fix.fixed .replace (fun _ => .fail 70 []) id) ⟨some [1], none, none, none⟩ []).obs
    = ⟨⟨some [1], some [], some [1], none⟩, 0, false, some 70⟩ := by decide

/-- The computable interpreter the driver runs (`execFrom`, any schedule of ok / failing / killing
    outcomes) only ever produces observations covered by the theorems above. -/
theorem C13_exec_covered (p : Prog) (f : FS) (sch : List Outcome) :
    Reach f 0 false p (exec p f sch).obs := exec_reach p f sch 0 false

example : (exec (doSourceFile Fix.fixed .replace (fun _ => .ok [2]) id) ⟨some [1], none, none, none⟩ [.ok, .kill 0]).obs
    = ⟨⟨some [1], none, none, none⟩, 0, false, none⟩ := by decide

/-! ## The code before `fixes/fs-2-c13-check-write-errors.patch` violates C13 -/

/-- `--no-backup`, the write of the temp file fails (ENOSPC, nothing written): the unchecked
    `fclose` lets the empty temp file be renamed over the original, exit status 0. -/
theorem C13_unchecked_write_witness_before_fix :
    ∃ o, Reach ⟨some [1], none, none, none⟩ 0 false
      (doSourceFile ⟨true, false⟩ .noBackup (fun _ => .ok [2, 3]) id) o
      ∧ ¬ TargetOK [1] (.ok [2, 3]) o.fs ∧ o.hard = true ∧ o.status = some 0 := by
  refine ⟨_, exec_reach _ _ [.ok, .ok, .ok, .err 0] 0 false, ?_, by decide, by decide⟩
  intro hh
  rcases hh with hh | ⟨out, ho, hh⟩
  · revert hh; decide
  · cases ho; revert hh; decide

/-- `--replace`, the write of the BACKUP fails (its `fclose` was unchecked): the target is replaced
    although no backup holds the original, exit status 0. -/
theorem C13_unchecked_backup_witness_before_fix :
    ∃ o, Reach ⟨some [1], none, none, none⟩ 0 false
      (doSourceFile ⟨true, false⟩ .replace (fun _ => .ok [2, 3]) id) o
      ∧ o.fs.target = some [2, 3] ∧ o.fs.bak = some [] ∧ o.hard = true ∧ o.status = some 0 :=
  ⟨_, exec_reach _ _ [.ok, .ok, .ok, .err 0] 0 false, by decide⟩

end Unc
