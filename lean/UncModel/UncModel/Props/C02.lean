import UncModel.Props.Render
import UncModel.Props.C02Lex
/-!
# C02 — token stream preserved under whitespace-only configurations: the pipeline statement

The lexical theorems (`C02_findPunct_longest`, `C02_lex_insert_ws*`, `C02_fuse_guard_complete_partial` and the
`C02_fuse_guard_gap_*` witnesses) are in `Props/C02Lex.lean`; the output-machine theorems (`render_vis`,
`render_terminators`, `nlcont_emits`, `render_gap`) in `Props/Render.lean`.  This file composes the character-level
part: if the tokenizer is lossless on this input (H-loss) and no pass edited chunk text (H-text) — both are
decidable facts about the two chunk dumps of a run and are evaluated by the C02 check on every run — then the
output consists of exactly the input's non-whitespace code points, in order: nothing is dropped, duplicated or
reordered, for every option setting and every behaviour of the unmodelled passes that respects the two hypotheses.
Token *boundaries* (fusing/splitting) are the subject of the lexical theorems and of the re-lexing oracle.
-/
namespace Unc

/-- character-level pipeline: the visible code points of the output are those of the input -/
theorem C02_vis_pipeline (c : OutCfg) (o : RenderOpts) (input : List CP) (p0Texts : List CP)
    (p1 : Array Chunk) (cmt : Nat → Option CmtInfo) (init : OutSt)
    (hnl : NlOK c.nl) (hinit : vis init.out = [])
    (hLoss : vis input = vis p0Texts)                    -- tokenizer lossless (monitored, P0)
    (hText : chunkVis p1 cmt = vis p0Texts) :            -- no pass edited text (monitored, P0 vs P1 + comment ops)
    vis (render c o p1 cmt init).o.out = vis input := by
  rw [render_vis c o p1 cmt init hnl, hinit, hText, hLoss]; rfl

example : vis [105, 110, 116, 32, 120, 59, 10] = [105, 110, 116, 120, 59] := by decide

end Unc
