import UncModel.Lemmas.RenderLemmas
/-!
# Properties of the output machine and of `output_text()`

* A — line terminators (C08): every CR/LF in the output belongs to a whole copy of `cpd.newline`
* B — nothing lost, duplicated or reordered (C02/C03): the visible code points of the output are
  exactly those of the chunks, in order
* C — whitespace hygiene (C17) and blank-line runs (C20)
* D — the gap between two chunks on one line

The predicates (`isBlank`, `isEol`, `NlOK`, `TermOK`, `OpsRawOK`, `vis`, `opChars`, `Tidy`, `flushed`,
`chunkVis`) and all proofs are in `UncModel/Lemmas/RenderLemmas.lean`; this file states the properties
and instantiates each of them on a concrete value.
-/

namespace Unc

/-! ## A. line terminators -/

/-- A1: the machine only ever writes whole copies of `cpd.newline`, for every op sequence -/
theorem addchar_terminators (c : OutCfg) (ops : List Op) (s : OutSt) (h : TermOK c.nl s.out)
    (hr : OpsRawOK ops) : TermOK c.nl (execOps c s ops).out :=
  execOps_ok c ops s h hr

example : TermOK [13, 10] (execOps { nl := [13, 10] } {}
    [.add 97 false, .add 13 false, .add 10 false, .raw 98, .add 13 false, .add 99 false, .add 10 false]).out :=
  addchar_terminators { nl := [13, 10] } _ {} TermOK.nil (by intro ch h; simp at h; subst h; decide)

example : (execOps { nl := [13, 10] } {}
    [.add 97 false, .add 13 false, .add 10 false, .raw 98, .add 13 false, .add 99 false, .add 10 false]).out
    = [97, 13, 10, 98, 13, 10, 99, 13, 10] := by decide

/-- A2: every CR/LF in the whole output of `output_text()` belongs to a whole copy of `cpd.newline` —
    for every chunk list, every option setting, every behaviour of the comment writers -/
theorem render_terminators (c : OutCfg) (o : RenderOpts) (cs : Array Chunk) (cmt : Nat → Option CmtInfo)
    (init : OutSt) (h0 : TermOK c.nl init.out)
    (hc : ∀ i ci, cmt i = some ci → OpsRawOK ci.ops)
    (hi : ∀ pc ∈ cs.toList, (pc.ty = "JUNK" ∨ pc.ty = "IGNORED") → ∀ x ∈ pc.txt, x ≠ 10 ∧ x ≠ 13) :
    TermOK c.nl (render c o cs cmt init).o.out :=
  renderLoop_ok c o cs cmt hc hi _ _ _ _ h0

/-- `\tint x; // c` + newline + `IGNORED` text, with a recorded comment writer -/
def exChunks : Array Chunk := #[
  { ty := "TYPE", txt := [105, 110, 116], col := 9, colIndent := 9 },
  { ty := "WORD", txt := [120], col := 13 },
  { ty := "SEMICOLON", txt := [59], col := 14 },
  { ty := "COMMENT_CPP", txt := [47, 47, 32, 99], col := 16 },
  { ty := "NEWLINE", nl := 2 },
  { ty := "IGNORED", txt := [35, 32, 36] },
  { ty := "NL_CONT", txt := [92, 10], col := 5 }]

def exCmt : Nat → Option CmtInfo
  | 3 => some { ops := [.add 32 false, .add 47 false, .add 47 false, .add 32 false, .add 99 false],
                consumed := 1, dnAfter := false }
  | _ => none

theorem exCmt_raw : ∀ i ci, exCmt i = some ci → OpsRawOK ci.ops := by
  intro i ci h
  unfold exCmt at h
  split at h
  · cases h; intro ch hm; simp at hm
  · cases h

theorem exChunks_ignored : ∀ pc ∈ exChunks.toList, (pc.ty = "JUNK" ∨ pc.ty = "IGNORED") →
    ∀ x ∈ pc.txt, x ≠ 10 ∧ x ≠ 13 := by
  intro pc hpc
  simp [exChunks] at hpc
  rcases hpc with rfl | rfl | rfl | rfl | rfl | rfl | rfl <;> simp

example : TermOK [13, 10] (render { nl := [13, 10] } {} exChunks exCmt {}).o.out :=
  render_terminators { nl := [13, 10] } {} exChunks exCmt {} TermOK.nil exCmt_raw exChunks_ignored

example : (render { nl := [13, 10] } {} exChunks exCmt {}).o.out =
    [9, 105, 110, 116, 32, 120, 59, 32, 47, 47, 32, 99, 13, 10, 13, 10, 35, 32, 36, 32, 32, 32, 32, 92, 13, 10] := by decide

/-- A3: with `cpd.newline = "\n"` the output contains no CR -/
theorem termok_lf_no_cr {l : List CP} (h : TermOK [10] l) : 13 ∉ l := h.lf_no_cr

example : 13 ∉ (render {} {} exChunks exCmt {}).o.out :=
  termok_lf_no_cr (render_terminators {} {} exChunks exCmt {} TermOK.nil exCmt_raw exChunks_ignored)

/-- A3: with `cpd.newline = "\r\n"` every CR is immediately followed by LF and every LF immediately
    preceded by CR -/
theorem termok_crlf_pairs {l : List CP} (h : TermOK [13, 10] l) :
    (∀ i, l[i]? = some 13 → l[i + 1]? = some 10) ∧
    (∀ i, l[i]? = some 10 → ∃ j, i = j + 1 ∧ l[j]? = some 13) := h.crlf_pairs

example : ∀ i, (render { nl := [13, 10] } {} exChunks exCmt {}).o.out[i]? = some 13 →
    (render { nl := [13, 10] } {} exChunks exCmt {}).o.out[i + 1]? = some 10 :=
  (termok_crlf_pairs
    (render_terminators { nl := [13, 10] } {} exChunks exCmt {} TermOK.nil exCmt_raw exChunks_ignored)).1

/-- A3: with `cpd.newline = "\r"` the output contains no LF -/
theorem termok_cr_no_lf {l : List CP} (h : TermOK [13] l) : 10 ∉ l := h.cr_no_lf

example : 10 ∉ (render { nl := [13] } {} exChunks exCmt {}).o.out :=
  termok_cr_no_lf
    (render_terminators { nl := [13] } {} exChunks exCmt {} TermOK.nil exCmt_raw exChunks_ignored)

/-! ## B. nothing lost, duplicated or reordered -/

theorem nlok_lf : NlOK [10] := ⟨by simp, by simp⟩
theorem nlok_crlf : NlOK [13, 10] := ⟨by simp, by simp⟩

/-- B1: one `add_char` call adds the code point itself if it is visible, and otherwise nothing visible
    (expansions only write spaces; the pending-CR prologue and `'\n'` only write `cpd.newline`) -/
theorem addchar_vis (c : OutCfg) (s : OutSt) (ch : CP) (lit : Bool) (hnl : NlOK c.nl) :
    vis (addChar c s ch lit).out = vis s.out ++ vis [ch] :=
  addChar_vis c s ch lit hnl

example : vis (addChar { nl := [13, 10] } { last := 13, tabSp := true, rout := [97] } 9 false).out
    = vis [97] ++ vis [9] :=
  addchar_vis { nl := [13, 10] } { last := 13, tabSp := true, rout := [97] } 9 false nlok_crlf

/-- B2: a whole op sequence -/
theorem execops_vis (c : OutCfg) (s : OutSt) (ops : List Op) (hnl : NlOK c.nl) :
    vis (execOps c s ops).out = vis s.out ++ vis (opChars ops) :=
  execOps_vis c s ops hnl

example : vis (execOps {} {} [.add 97 false, .tabSp true, .add 9 false, .raw 98, .add 10 false]).out = [97, 98] :=
  execops_vis {} {} [.add 97 false, .tabSp true, .add 9 false, .raw 98, .add 10 false] nlok_lf

/-- B3: the visible code points of the output of `output_text()` are those of the chunks
    (`chunkVis`, defined by the recursion of the loop), in order -/
theorem render_vis (c : OutCfg) (o : RenderOpts) (cs : Array Chunk) (cmt : Nat → Option CmtInfo)
    (init : OutSt) (hnl : NlOK c.nl) :
    vis (render c o cs cmt init).o.out = vis init.out ++ chunkVis cs cmt := by
  unfold render chunkVis
  rw [renderLoop_vis c o cs cmt hnl]
  rfl

example : vis (render { nl := [13, 10] } {} exChunks exCmt {}).o.out
    = [105, 110, 116, 120, 59, 47, 47, 99, 35, 36, 92] :=
  render_vis { nl := [13, 10] } {} exChunks exCmt {} nlok_crlf

/-- B3 (corollary): without comment chunks, `chunkVis` is the concatenation over ALL chunks, in list order -/
theorem render_vis_no_comments (cs : Array Chunk) (cmt : Nat → Option CmtInfo)
    (hno : ∀ pc ∈ cs.toList, pc.isCommentTy = false) :
    chunkVis cs cmt = cs.toList.flatMap (fun pc =>
      if pc.ty = "NL_CONT" then [92] else if pc.ty = "NEWLINE" then [] else vis pc.txt) := by
  have := chunkVisLoop_no_comments cs cmt hno (cs.size + 1) 0 (by omega)
  rw [List.drop_zero] at this
  exact this

/-- `a b` + newline -/
def exPlain : Array Chunk := #[
  { ty := "WORD", txt := [97], col := 1 },
  { ty := "WORD", txt := [98], col := 3 },
  { ty := "NEWLINE", nl := 1 }]

example : chunkVis exPlain (fun _ => none) = [97, 98] :=
  render_vis_no_comments exPlain (fun _ => none) (by
    intro pc hpc
    simp [exPlain] at hpc
    rcases hpc with rfl | rfl | rfl <;> decide)

/-- B3 (corollary, on the output): without comment chunks the visible code points of the output are those of
    all chunks, in list order -/
theorem render_vis_plain (c : OutCfg) (o : RenderOpts) (cs : Array Chunk) (cmt : Nat → Option CmtInfo)
    (init : OutSt) (hnl : NlOK c.nl) (hno : ∀ pc ∈ cs.toList, pc.isCommentTy = false) :
    vis (render c o cs cmt init).o.out = vis init.out ++ cs.toList.flatMap (fun pc =>
      if pc.ty = "NL_CONT" then [92] else if pc.ty = "NEWLINE" then [] else vis pc.txt) := by
  rw [render_vis c o cs cmt init hnl, render_vis_no_comments cs cmt hno]

example : vis (render {} {} exPlain (fun _ => none) {}).o.out = [97, 98] :=
  render_vis_plain {} {} exPlain (fun _ => none) {} nlok_lf (by
    intro pc hpc
    simp [exPlain] at hpc
    rcases hpc with rfl | rfl | rfl <;> decide)

/-! ## C. whitespace hygiene and blank-line runs -/

/-- C1: after writing a text whose last code point is not blank, nothing blank is pending or last -/
theorem addtext_tidy (c : OutCfg) (s : OutSt) (txt : List CP) (lit : Bool) (hne : txt ≠ [])
    (hlast : ∀ x, txt.getLast? = some x → isBlank x = false ∧ isEol x = false) :
    Tidy (addText c s txt lit) :=
  addText_tidy c s txt lit hne hlast

example : Tidy (addText {} { trail := true, spaces := 2 } [32, 9, 97] false) :=
  addtext_tidy {} { trail := true, spaces := 2 } [32, 9, 97] false (by simp)
    (by intro x h; simp at h; subst h; exact ⟨rfl, rfl⟩)

/-- C2: the same for the general branch of `output_text()` (no forced tab after `#define`) -/
theorem rendertext_tidy (c : OutCfg) (o : RenderOpts) (s : RSt) (pc : Chunk) (prevCol prevLen : Nat)
    (hne : pc.txt ≠ [])
    (hlast : ∀ x, pc.txt.getLast? = some x → isBlank x = false ∧ isEol x = false)
    (hdef : ¬ (pc.ty = "PP_DEFINE" ∧ o.forceTabAfterDefine = true)) :
    Tidy (renderText c o s pc prevCol prevLen).1.o := by
  rw [renderText_o]
  simp only [if_neg hdef]
  exact addText_tidy c _ pc.txt _ hne hlast

example : Tidy (renderText {} {} {} { ty := "WORD", txt := [97, 98], col := 9 } 0 0).1.o :=
  rendertext_tidy {} {} {} { ty := "WORD", txt := [97, 98], col := 9 } 0 0 (by simp)
    (by intro x h; simp at h; subst h; exact ⟨rfl, rfl⟩) (by simp)

/-- C3: a `NEWLINE` chunk reached in a tidy state writes exactly `nl_count` terminators and nothing else
    (`hnl`, `hcr` and the second half of `ht` are not needed by the proof) -/
theorem newline_run (c : OutCfg) (s : RSt) (pc : Chunk) (_hnl : NlOK c.nl) (ht : Tidy s.o)
    (_hcr : s.o.last ≠ 13) (hcol : pc.nlCol ≤ 1 ∨ pc.nl ≤ 1) :
    (renderNewline c s pc).o.rout = (List.flatten (List.replicate pc.nl c.nl)).reverse ++ s.o.rout := by
  unfold renderNewline
  simp only []
  refine (nl_fold_plain c _ pc.nl ?_ s ht.1).1
  intro s k hk
  have : ¬ (k > 0 ∧ pc.nlCol > 1) := by omega
  simp only [this, if_false]
  rfl

example : (renderNewline { nl := [13, 10] } { o := { last := 59, rout := [59] } }
    { ty := "NEWLINE", nl := 3 }).o.rout = [10, 13, 10, 13, 10, 13, 59] :=
  newline_run { nl := [13, 10] } { o := { last := 59, rout := [59] } } { ty := "NEWLINE", nl := 3 }
    nlok_crlf ⟨rfl, by intro x h; simp at h; subst h; rfl⟩ (by decide) (Or.inl (by decide))

/-- C3 (variant, `nl_column > 1` allowed, any state): what is written consists of `nl_count` copies of
    `cpd.newline`, each preceded by blanks only -/
theorem newline_run_indented (c : OutCfg) (s : RSt) (pc : Chunk) :
    ∃ ws : List (List CP), ws.length = pc.nl ∧ (∀ w ∈ ws, ∀ x ∈ w, isBlank x = true) ∧
      (renderNewline c s pc).o.out = s.o.out ++ ws.flatMap (fun w => w ++ c.nl) := by
  unfold renderNewline
  simp only []
  suffices hb : _ by
    obtain ⟨ws, h1, h2, h3, _⟩ := nl_fold_general c _ pc.nl hb s
    exact ⟨ws, h1, h2, h3⟩
  intro s k
  by_cases h : k > 0 ∧ pc.nlCol > 1
  · right
    refine ⟨h.1, pc.nlCol, (if pc.isPP = true then decide (ppIwtEff c ≥ 1) else decide (c.iwt ≥ 1)), ?_⟩
    simp only [h, and_self, if_true, rAdd_o, rToCol_o]
  · left
    simp only [h, if_false]
    rfl

example : ∃ ws : List (List CP), ws.length = 2 ∧ (∀ w ∈ ws, ∀ x ∈ w, isBlank x = true) ∧
    (renderNewline {} {} { ty := "NEWLINE", nl := 2, nlCol := 9 }).o.out = [] ++ ws.flatMap (fun w => w ++ [10]) :=
  newline_run_indented {} {} { ty := "NEWLINE", nl := 2, nlCol := 9 }

example : (renderNewline {} {} { ty := "NEWLINE", nl := 2, nlCol := 9 }).o.out = [10, 9, 10] := by decide

/-- C3: `\`-newline writes (blanks,) `\`, `cpd.newline`; the code point before the terminator is `\` -/
theorem nlcont_emits (c : OutCfg) (o : RenderOpts) (cs : Array Chunk) (i : Nat) (s : RSt) (pc : Chunk) :
    ∃ pre, (renderNlCont c o cs i s pc).o.out = s.o.out ++ pre ++ [92] ++ c.nl ∧
      (s.o.last ≠ 13 → ∀ x ∈ pre, isBlank x = true) :=
  renderNlCont_out c o cs i s pc

example : ∃ pre, (renderNlCont {} {} #[] 0 { o := { col := 2, last := 97, rout := [97] } }
    { ty := "NL_CONT", col := 4 }).o.out = [97] ++ pre ++ [92] ++ [10] ∧
      ((97 : CP) ≠ 13 → ∀ x ∈ pre, isBlank x = true) :=
  nlcont_emits {} {} #[] 0 { o := { col := 2, last := 97, rout := [97] } } { ty := "NL_CONT", col := 4 }

/-- C4: `output_to_column(col, false)` at the start of a line writes nothing and leaves `col - 1` pending
    spaces (flushed by the next non-blank `add_char`).

    As stated in the task (without `ht`) this is false: with `output_trailspace` on (it is on while a
    `CT_STRING_MULTI` chunk is written) the spaces are written at once,
    `(outputToColumn {} { trail := true } 3 false).rout = [32, 32]`.
    Full statement: `to_column_spaces_only (c s col) (h1 : s.col = 1) (hs : s.spaces = 0) (hl : s.last ≠ 13) :
      (outputToColumn c s col false).rout = s.rout ∧ (outputToColumn c s col false).spaces = col - 1 ∧ …` -/
theorem to_column_spaces_only_partial (c : OutCfg) (s : OutSt) (col : Nat) (h1 : s.col = 1)
    (hs : s.spaces = 0) (hl : s.last ≠ 13) (ht : s.trail = false) :
    (outputToColumn c s col false).rout = s.rout ∧ (outputToColumn c s col false).spaces = col - 1 ∧
    (outputToColumn c s col false).col = max 1 col := by
  have hr := toCol_spaces c s col hl
  have hp := hr.pend ht
  refine ⟨hp.1, by rw [hp.2, hs, h1]; omega, by rw [hr.col, h1]; omega⟩

example : (outputToColumn {} { last := 10 } 5 false).rout = [] ∧
    (outputToColumn {} { last := 10 } 5 false).spaces = 5 - 1 ∧
    (outputToColumn {} { last := 10 } 5 false).col = max 1 5 :=
  to_column_spaces_only_partial {} { last := 10 } 5 rfl rfl (by decide) rfl

/-- the counterexample to the unrestricted C4 -/
example : (outputToColumn {} { trail := true } 3 false).rout = [32, 32] := by decide

/-- C4, valid in every `output_trailspace` mode: once flushed, exactly `col - 1` spaces -/
theorem to_column_spaces_only_flushed (c : OutCfg) (s : OutSt) (col : Nat) (h1 : s.col = 1)
    (hs : s.spaces = 0) (hl : s.last ≠ 13) :
    flushed (outputToColumn c s col false) = List.replicate (col - 1) 32 ++ s.rout := by
  have hr := toCol_spaces c s col hl
  rw [hr.fl, h1]; simp [flushed, hs]

example : flushed (outputToColumn {} { trail := true, last := 10 } 3 false) = List.replicate (3 - 1) 32 ++ [] :=
  to_column_spaces_only_flushed {} { trail := true, last := 10 } 3 rfl rfl (by decide)

/-- C4: `output_to_column(col, true)` at the start of a line writes `(col-1)/tab` tabs and leaves
    `(col-1)%tab` pending spaces: no space ever precedes a tab in the indentation.
    (Same restriction `ht` as above; the unrestricted form is `to_column_tabs_then_spaces_flushed`.) -/
theorem to_column_tabs_then_spaces_partial (c : OutCfg) (s : OutSt) (col : Nat) (h1 : s.col = 1)
    (hs : s.spaces = 0) (hl : s.last ≠ 13 ∧ s.last ≠ 32) (htab : 0 < c.tab) (hts : s.tabSp = false)
    (ht : s.trail = false) :
    (outputToColumn c s col true).rout = List.replicate ((col - 1) / c.tab) 9 ++ s.rout ∧
    (outputToColumn c s col true).spaces = (col - 1) % c.tab :=
  (toCol_tabs_exact c s col h1 hs hl.1 hl.2 htab hts).2.1 ht

example : (outputToColumn {} { last := 10 } 21 true).rout = List.replicate ((21 - 1) / 8) 9 ++ [] ∧
    (outputToColumn {} { last := 10 } 21 true).spaces = (21 - 1) % 8 :=
  to_column_tabs_then_spaces_partial {} { last := 10 } 21 rfl rfl (by decide) (by decide) rfl rfl

theorem to_column_tabs_then_spaces_flushed (c : OutCfg) (s : OutSt) (col : Nat) (h1 : s.col = 1)
    (hs : s.spaces = 0) (hl : s.last ≠ 13 ∧ s.last ≠ 32) (htab : 0 < c.tab) (hts : s.tabSp = false) :
    flushed (outputToColumn c s col true) =
      List.replicate ((col - 1) % c.tab) 32 ++ (List.replicate ((col - 1) / c.tab) 9 ++ s.rout) :=
  (toCol_tabs_exact c s col h1 hs hl.1 hl.2 htab hts).1

example : flushed (outputToColumn {} { last := 10, trail := true } 21 true) =
    List.replicate ((21 - 1) % 8) 32 ++ (List.replicate ((21 - 1) / 8) 9 ++ []) :=
  to_column_tabs_then_spaces_flushed {} { last := 10, trail := true } 21 rfl rfl (by decide) (by decide) rfl

/-- C5: the first chunk on a line (state: nothing pending, last code point `\n`, `did_newline`, no tab
    expansion) whose text starts with a visible code point `x`: what is written before `x` is `a` tabs then
    `b` spaces, and there are no tabs when the applicable `indent_with_tabs` is 0.
    (`rout` is newest first, so the tabs are next to the old output.) -/
theorem first_on_line_prefix (c : OutCfg) (o : RenderOpts) (s : RSt) (pc : Chunk) (prevCol prevLen : Nat)
    (x : CP) (rest : List CP)
    (hsp : s.o.spaces = 0) (hlast : s.o.last = 10) (hdn : s.o.didNl = true) (hts : s.o.tabSp = false)
    (htxt : pc.txt = x :: rest) (hb : isBlank x = false) (he : isEol x = false) :
    ∃ a b tail, (renderText c o s pc prevCol prevLen).1.o.rout =
        tail ++ x :: (List.replicate b 32 ++ (List.replicate a 9 ++ s.o.rout)) ∧
      (((pc.isPP = false ∧ c.iwt = 0) ∨ (pc.isPP = true ∧ ppIwtEff c = 0)) → a = 0) := by
  obtain ⟨a, b, hf, hl, h0⟩ := textIndent_first c o s.o pc prevCol prevLen hsp hlast hdn hts
  obtain ⟨tail, ht⟩ := renderText_rout_after c o s pc prevCol prevLen x rest htxt hb he hl
  exact ⟨a, b, tail, by rw [ht, hf], h0⟩

/-- with `indent_with_tabs = 0`: spaces only -/
example : ∃ b tail,
    (renderText { iwt := 0 } {} { o := { last := 10 } } { ty := "WORD", txt := [97, 98], col := 9 } 0 0).1.o.rout =
      tail ++ 97 :: List.replicate b 32 := by
  obtain ⟨a, b, tail, h, h0⟩ := first_on_line_prefix { iwt := 0 } {} { o := { last := 10 } }
    { ty := "WORD", txt := [97, 98], col := 9 } 0 0 97 [98] rfl rfl rfl rfl rfl rfl rfl
  have ha : a = 0 := h0 (Or.inl ⟨rfl, rfl⟩)
  subst ha
  exact ⟨b, tail, by simpa using h⟩

example : (renderText { iwt := 0 } {} { o := { last := 10 } } { ty := "WORD", txt := [97, 98], col := 9 } 0 0).1.o.rout
    = [98, 97, 32, 32, 32, 32, 32, 32, 32, 32] := by decide

/-! ## D. the gap between two chunks on one line -/

/-- D: chunk `b` follows chunk `a` on the same line (tidy state, `cpd.column = a.col + a.len`), tabs not
    allowed for the alignment: exactly `sameLineCol - (a.col + a.len)` spaces are written between what was there and the first code
    point of `b`, where `sameLineCol` is `b.col`, or `cpd.column` in the push-right case `b.col < cpd.column`, or one more than that
    between two words -/
theorem render_gap (c : OutCfg) (o : RenderOpts) (s : RSt) (a b : Chunk) (prevCol prevLen : Nat)
    (x : CP) (rest : List CP)
    (hdn : s.o.didNl = false) (ht : Tidy s.o) (hl : s.o.last ≠ 13) (hcol : s.o.col = a.col + a.len)
    (hat : ¬ ((o.alignWithTabs = true ∧ b.wasAligned = true ∧ prevCol + prevLen + 1 ≠ sameLineCol s.o b)
              ∨ (o.alignKeepTabs = true ∧ b.afterTab = true)))
    (htxt : b.txt = x :: rest) (hb : isBlank x = false) (he : isEol x = false) :
    ∃ tail, (renderText c o s b prevCol prevLen).1.o.rout =
      tail ++ x :: (List.replicate (sameLineCol s.o b - (a.col + a.len)) 32 ++ s.o.rout) := by
  obtain ⟨hf, hl'⟩ := textIndent_gap c o s.o b prevCol prevLen hdn hl hat
  obtain ⟨tail, htl⟩ := renderText_rout_after c o s b prevCol prevLen x rest htxt hb he hl'
  refine ⟨tail, ?_⟩
  rw [htl, hf, hcol]
  simp [flushed, ht.1]

/-- **two words are never written back to back**: when the last character written is a word character and the chunk starts with
    one, at least one blank stands between them in the output — whatever columns the passes left in the chunk list (no tabs for
    alignment) -/
theorem render_words_apart (c : OutCfg) (o : RenderOpts) (s : RSt) (a b : Chunk) (prevCol prevLen : Nat)
    (x : CP) (rest : List CP)
    (hdn : s.o.didNl = false) (ht : Tidy s.o) (hl : s.o.last ≠ 13) (hcol : s.o.col = a.col + a.len)
    (hat : ¬ ((o.alignWithTabs = true ∧ b.wasAligned = true ∧ prevCol + prevLen + 1 ≠ sameLineCol s.o b)
              ∨ (o.alignKeepTabs = true ∧ b.afterTab = true)))
    (htxt : b.txt = x :: rest) (hb : isBlank x = false) (he : isEol x = false)
    (hlast : s.o.last > 0) (hk2 : isKw2 s.o.last = true) (hk1 : isKw1 x = true) :
    ∃ tail n, (renderText c o s b prevCol prevLen).1.o.rout = tail ++ x :: (List.replicate (n + 1) 32 ++ s.o.rout) := by
  obtain ⟨tail, h⟩ := render_gap c o s a b prevCol prevLen x rest hdn ht hl hcol hat htxt hb he
  have hgt := sameLineCol_words s.o b x rest htxt hlast hk2 hk1
  refine ⟨tail, sameLineCol s.o b - (a.col + a.len) - 1, ?_⟩
  rw [h]
  rw [hcol] at hgt
  have e : sameLineCol s.o b - (a.col + a.len) - 1 + 1 = sameLineCol s.o b - (a.col + a.len) := by omega
  rw [e]

example : ∃ tail,
    (renderText {} {} { o := { col := 4, last := 116, didNl := false, rout := [116, 110, 105] } }
      { ty := "WORD", txt := [120], col := 6 } 1 3).1.o.rout =
      tail ++ 120 :: (List.replicate (6 - (1 + 3)) 32 ++ [116, 110, 105]) :=
  render_gap {} {} { o := { col := 4, last := 116, didNl := false, rout := [116, 110, 105] } }
    { ty := "TYPE", txt := [105, 110, 116], col := 1 } { ty := "WORD", txt := [120], col := 6 } 1 3 120 []
    rfl ⟨rfl, by intro y h; simp at h; subst h; rfl⟩ (by decide) rfl (by decide) rfl rfl rfl

/-- `int` at column 1..3, `v0` left at column 2 by a negative indent_var_def_blk: written `int v0`, not `intv0` -/
example : ((renderText {} {} { o := { col := 4, last := 116, didNl := false, rout := [116, 110, 105] } }
      { ty := "WORD", txt := [118, 48], col := 2 } 1 3).1.o.rout).reverse = [105, 110, 116, 32, 118, 48] := by decide

end Unc
