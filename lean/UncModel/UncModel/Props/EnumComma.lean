import UncModel.EnumComma
/-!
# mod_enum_last_comma: what `enum_cleanup()` can change
-/
namespace Unc.EnumC

def noComma (l : List Tk) : List Tk := l.filter fun t => t.k != .comma

/-- **only a comma**: one step changes nothing but at most one comma, whichever chunks are stepped over -/
theorem EnumC_step_only_comma (st : Bool → Tk → Bool) (act : IARF) (closePP : Bool) (L : List Tk) :
    noComma (step st act closePP L) = noComma L := by
  induction L with
  | nil => rfl
  | cons t rest ih =>
    simp only [step]
    split
    · simp only [noComma, List.filter_cons] at ih ⊢
      split <;> simp [ih]
    · split
      · rename_i hc
        split
        · simp [noComma, List.filter_cons, hc]
        · rfl
      · split
        · rfl
        · split
          · simp [noComma, List.filter_cons]
          · rfl

/-- **preprocessor lines are left alone** (brace outside a preprocessor line): the chunks that belong to preprocessor lines — commas in
    macro bodies included — are the same before and after, in the same order -/
theorem EnumC_step_keeps_preproc (act : IARF) (L : List Tk) :
    (step stepped act false L).filter (·.pp) = L.filter (·.pp) := by
  induction L with
  | nil => rfl
  | cons t rest ih =>
    simp only [step]
    split
    · simp only [List.filter_cons]
      split <;> simp [ih]
    · rename_i hs
      have hpp : t.pp = false := by
        simp only [stepped, Bool.not_false, Bool.and_true, Bool.or_eq_true, decide_eq_true_eq, not_or] at hs
        cases h : t.pp
        · rfl
        · exact absurd h hs.2
      split
      · split
        · simp [List.filter_cons, hpp]
        · rfl
      · split
        · rfl
        · split
          · simp [List.filter_cons]
          · rfl

/-- where the comma goes: directly behind (in the file: after) a chunk that is neither comment, newline, ignored text nor part of a
    preprocessor line -/
theorem EnumC_step_insert_position (L : List Tk) (act : IARF) (ha : act = .add ∨ act = .force) :
    step stepped act false L = L ∨
    ∃ sk t rest, L = sk ++ t :: rest ∧ (∀ s ∈ sk, stepped false s = true) ∧ stepped false t = false ∧ t.k ≠ .comma ∧ t.k ≠ .open ∧
      step stepped act false L = sk ++ { k := .comma, pp := false } :: t :: rest := by
  induction L with
  | nil => left; rfl
  | cons t rest ih =>
    simp only [step]
    split
    · rename_i hs
      rcases ih with h | ⟨sk, t', r', hL, hsk, ht, hc, ho, hstep⟩
      · left; rw [h]
      · right
        refine ⟨t :: sk, t', r', by simp [hL], ?_, ht, hc, ho, by simp [hstep]⟩
        intro s hs'
        simp only [List.mem_cons] at hs'
        rcases hs' with h | h
        · subst h; exact hs
        · exact hsk s h
    · rename_i hs
      split
      · rename_i hc
        have : act ≠ .remove := by rcases ha with h | h <;> simp [h]
        left
        rw [if_neg this]
      · rename_i hc
        split
        · left; rfl
        · rename_i ho
          right
          exact ⟨[], t, rest, rfl, by simp, by simpa using hs, hc, ho, by simp⟩

/-- **fixed point** for add / force: a second step finds the comma it put there -/
theorem EnumC_step_add_idem (L : List Tk) (act : IARF) (ha : act = .add ∨ act = .force) :
    step stepped act false (step stepped act false L) = step stepped act false L := by
  induction L with
  | nil => rfl
  | cons t rest ih =>
    simp only [step]
    split
    · rename_i hs
      simp only [step, hs, if_true, ih]
    · rename_i hs
      split
      · rename_i hc
        have hr : act ≠ .remove := by rcases ha with h | h <;> simp [h]
        rw [if_neg hr]
        simp only [step]
        rw [if_neg hs, if_pos hc, if_neg hr]
      · rename_i hc
        split
        · rename_i ho
          simp only [step]
          rw [if_neg hs, if_neg hc, if_pos ho]
        · rename_i ho
          have hcs : ¬ stepped false ({ k := .comma, pp := false } : Tk) = true := by simp [stepped]
          have hr : act ≠ .remove := by rcases ha with h | h <;> simp [h]
          simp only [step]
          rw [if_neg hcs]
          simp [hr]

/-- the whole pass changes nothing but commas -/
theorem EnumC_run_only_comma (st : Bool → Tk → Bool) (act : IARF) (L : List Tk) (r : List (Option Bool × Tk)) :
    noComma (run st act L r) = noComma ((r.map (·.2)).reverse ++ L) := by
  induction r generalizing L with
  | nil => simp [run]
  | cons x r ih =>
    obtain ⟨m, c⟩ := x
    cases m with
    | none =>
      simp only [run, List.map_cons, List.reverse_cons, List.append_assoc, List.singleton_append]
      exact ih (c :: L)
    | some pp =>
      simp only [run, List.map_cons, List.reverse_cons, List.append_assoc, List.singleton_append]
      rw [ih]
      simp only [noComma, List.filter_append, List.filter_cons]
      have := EnumC_step_only_comma st act pp L
      simp only [noComma] at this
      rw [this]

/-- before fix fcbb384: `B` newline `#define LAST B` newline `}` — the comma went behind the `B` of the macro body; now it goes behind
    the enumerator (lists are nearest-first: the closing brace would stand on the left) -/
theorem EnumC_old_edits_macro_body_witness :
    let L : List Tk := [{ k := .skip }, { k := .other, pp := true }, { k := .other, pp := true }, { k := .other, pp := true }, { k := .skip }, { k := .other }]
    step steppedOld .add false L = [{ k := .skip }, { k := .comma }, { k := .other, pp := true }, { k := .other, pp := true }, { k := .other, pp := true }, { k := .skip }, { k := .other }] ∧
    step stepped .add false L = [{ k := .skip }, { k := .other, pp := true }, { k := .other, pp := true }, { k := .other, pp := true }, { k := .skip }, { k := .comma }, { k := .other }] := by
  decide

end Unc.EnumC
