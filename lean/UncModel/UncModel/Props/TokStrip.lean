import UncModel.TokStrip
/-!
Theorems about the trailing-blank strip (used by C03, C05, C17):

* `strip_no_trailing_blank`   – afterwards the text does not end in a blank, unless that blank directly follows a backslash;
* `strip_keeps_backslash_guard` – a text that ends in backslash + blanks keeps exactly one of them: the result never ends in a
  bare backslash unless the input did (a `//` comment is not turned into a backslash-continued one);
* `strip_only_blanks`         – only trailing blanks are removed: the result is a prefix, the rest is blanks;
* `strip_idem`                – stripping twice = stripping once (re-reading the output, C05).
-/
namespace Unc

theorem stripRev_suffix (r : List Nat) : ∃ pre, r = pre ++ stripRev r ∧ ∀ x ∈ pre, isBlankCh x = true := by
  induction r with
  | nil => exact ⟨[], rfl, by simp⟩
  | cons c rest ih =>
    by_cases hb : isBlankCh c = true
    · cases rest with
      | nil =>
        refine ⟨[c], ?_, ?_⟩
        · simp [stripRev, hb]
        · simp [hb]
      | cons d rest' =>
        by_cases hd : d = 92
        · exact ⟨[], by simp [stripRev, hb, hd], by simp⟩
        · obtain ⟨pre, h1, h2⟩ := ih
          refine ⟨c :: pre, ?_, ?_⟩
          · simp only [stripRev, hb, hd, if_true, if_false, List.cons_append]
            exact congrArg _ h1
          · intro x hx
            simp only [List.mem_cons] at hx
            rcases hx with rfl | hx
            · exact hb
            · exact h2 x hx
    · exact ⟨[], by simp [stripRev, hb], by simp⟩

/-- head of the reversed result: not a blank, or a blank sitting on a backslash -/
theorem stripRev_head (r : List Nat) :
    match stripRev r with
    | [] => True
    | c :: rest => isBlankCh c = false ∨ rest.head? = some 92 := by
  induction r with
  | nil => simp [stripRev]
  | cons c rest ih =>
    by_cases hb : isBlankCh c = true
    · cases rest with
      | nil => simp [stripRev, hb]
      | cons d rest' =>
        by_cases hd : d = 92
        · simp [stripRev, hb, hd]
        · simp only [stripRev, hb, hd, if_true, if_false]; exact ih
    · simp [stripRev, hb]

theorem strip_no_trailing_blank (t : List Nat) :
    match (stripTrailing t).reverse with
    | [] => True
    | c :: rest => isBlankCh c = false ∨ rest.head? = some 92 := by
  simp only [stripTrailing, List.reverse_reverse]
  exact stripRev_head t.reverse

theorem stripRev_head_backslash (r : List Nat) (h : (stripRev r).head? = some 92) : r.head? = some 92 := by
  induction r with
  | nil => simp [stripRev] at h
  | cons c rest ih =>
    by_cases hb : isBlankCh c = true
    · cases rest with
      | nil => simp [stripRev, hb] at h
      | cons d rest' =>
        by_cases hd : d = 92
        · have e : stripRev (c :: d :: rest') = c :: d :: rest' := by simp [stripRev, hb, hd]
          rw [e] at h
          simp at h
          subst h
          simp [isBlankCh] at hb
        · have e : stripRev (c :: d :: rest') = stripRev (d :: rest') := by simp [stripRev, hb, hd]
          rw [e] at h
          have := ih h
          simp at this
          exact absurd this hd
    · have e : stripRev (c :: rest) = c :: rest := by simp [stripRev, hb]
      rw [e] at h
      exact h

/-- the result ends in a bare backslash only if the input did -/
theorem strip_keeps_backslash_guard (t : List Nat) (h : (stripTrailing t).getLast? = some 92) : t.getLast? = some 92 := by
  simp only [stripTrailing, List.getLast?_reverse] at h
  rw [← List.head?_reverse]
  exact stripRev_head_backslash t.reverse h

theorem strip_only_blanks (t : List Nat) : ∃ tail, t = stripTrailing t ++ tail ∧ ∀ x ∈ tail, isBlankCh x = true := by
  obtain ⟨pre, h1, h2⟩ := stripRev_suffix t.reverse
  refine ⟨pre.reverse, ?_, by simpa using h2⟩
  have := congrArg List.reverse h1
  simpa [stripTrailing] using this

theorem stripRev_idem (r : List Nat) : stripRev (stripRev r) = stripRev r := by
  induction r with
  | nil => rfl
  | cons c rest ih =>
    by_cases hb : isBlankCh c = true
    · cases rest with
      | nil => simp [stripRev, hb]
      | cons d rest' =>
        by_cases hd : d = 92
        · simp [stripRev, hb, hd]
        · simp only [stripRev, hb, hd, if_true, if_false]; exact ih
    · simp [stripRev, hb]

theorem strip_idem (t : List Nat) : stripTrailing (stripTrailing t) = stripTrailing t := by
  simp [stripTrailing, stripRev_idem]

-- `// see C:\tmp\` + blank blank  →  one blank kept;  `x = 1;` + blanks → all removed
example : stripTrailing [47, 47, 92, 32, 32] = [47, 47, 92, 32] := by decide
example : stripTrailing [120, 59, 32, 9, 32] = [120, 59] := by decide
example : stripTrailing [92, 9] = [92, 9] := by decide

end Unc
