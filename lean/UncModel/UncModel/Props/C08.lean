import UncModel.Lemmas.LineEndLemmas
/-!
# C08 — line endings (terminator choice and census)

The terminator-factorisation theorems about the output machine (`addchar_terminators`,
`render_terminators`) are in `Props/Render.lean`.
-/
namespace Unc

/-- a fixed `newlines` setting wins, whatever the input contains -/
theorem C08_choose_fixed (n : LeCounts) :
    chooseNewline .lf n = [10] ∧ chooseNewline .crlf n = [13, 10] ∧ chooseNewline .cr n = [13] := by
  refine ⟨by simp [chooseNewline], ?_, ?_⟩
  · simp [chooseNewline]
  · simp [chooseNewline]

/-- `newlines=auto`: the most frequent terminator, ties resolved LF ≥ CRLF ≥ CR -/
theorem C08_choose_auto (n : LeCounts) :
    chooseNewline .auto n =
      if n.lf ≥ n.crlf ∧ n.lf ≥ n.cr then [10]
      else if n.crlf ≥ n.lf ∧ n.crlf ≥ n.cr then [13, 10]
      else [13] := by
  simp [chooseNewline]

/-- with `auto`, the chosen terminator's count is maximal -/
theorem C08_choose_auto_most_frequent (n : LeCounts) :
    (chooseNewline .auto n = [10] → n.lf ≥ n.crlf ∧ n.lf ≥ n.cr) ∧
    (chooseNewline .auto n = [13, 10] → n.crlf ≥ n.lf ∧ n.crlf ≥ n.cr) ∧
    (chooseNewline .auto n = [13] → n.cr ≥ n.lf ∧ n.cr ≥ n.crlf) := by
  rw [C08_choose_auto]
  refine ⟨?_, ?_, ?_⟩ <;> intro h <;> (repeat' split at h) <;> simp_all <;> omega

/-- the chosen terminator is always one of the three line-break sequences -/
theorem C08_choose_is_terminator (opt : LineEnd) (n : LeCounts) :
    chooseNewline opt n = [10] ∨ chooseNewline opt n = [13, 10] ∨ chooseNewline opt n = [13] := by
  unfold chooseNewline; split
  · exact Or.inl rfl
  · split
    · exact Or.inr (Or.inl rfl)
    · exact Or.inr (Or.inr rfl)

example : chooseNewline .auto { lf := 2, crlf := 2, cr := 1 } = [10] := by decide
example : chooseNewline .auto { lf := 1, crlf := 2, cr := 2 } = [13, 10] := by decide

/-- `parse_whitespace` on a whitespace run: the number of line breaks it reports (`nl_count`) is the number
    of terminators of the run, its census is the per-kind count, and it stops exactly at the first
    non-whitespace code point — for every mixture of LF / CRLF / CR terminators. -/
theorem C08_ws_census (segs : List (List Nat × Term)) (fin tail : List Nat)
    (hbl : ∀ p ∈ segs, IsBlanks p.1) (hfin : IsBlanks fin) (hun : Unamb segs) (htail : StartsNonWs tail) :
    wsScan (encWs segs fin ++ tail) 0 {} = (segs.length, census segs, tail) := by
  have := wsScan_enc segs fin tail hbl hfin hun htail 0 {}
  simpa [LeCounts.add] using this

/-- converting the terminators of a whitespace run (same blanks, any other terminators) changes neither the
    reported line-break count nor where scanning stops: only the census differs -/
theorem C08_ws_convert (segs segs' : List (List Nat × Term)) (fin tail : List Nat)
    (hsame : segs.map (·.1) = segs'.map (·.1))
    (hbl : ∀ p ∈ segs, IsBlanks p.1) (hfin : IsBlanks fin)
    (hun : Unamb segs) (hun' : Unamb segs') (htail : StartsNonWs tail) :
    (wsScan (encWs segs fin ++ tail) 0 {}).1 = (wsScan (encWs segs' fin ++ tail) 0 {}).1 ∧
    (wsScan (encWs segs fin ++ tail) 0 {}).2.2 = (wsScan (encWs segs' fin ++ tail) 0 {}).2.2 := by
  have hlen : segs.length = segs'.length := by simpa using congrArg List.length hsame
  have hbl' : ∀ p ∈ segs', IsBlanks p.1 := by
    intro p hp
    have : p.1 ∈ segs'.map (·.1) := List.mem_map_of_mem hp
    rw [← hsame] at this
    obtain ⟨q, hq, hqe⟩ := List.mem_map.mp this
    rw [← hqe]; exact hbl q hq
  rw [C08_ws_census segs fin tail hbl hfin hun htail, C08_ws_census segs' fin tail hbl' hfin hun' htail]
  exact ⟨hlen, rfl⟩

example : wsScan ([32, 13, 10, 9, 13, 10, 10, 32] ++ [65]) 0 {} = (3, { lf := 1, crlf := 2 }, [65]) := by
  decide

end Unc
