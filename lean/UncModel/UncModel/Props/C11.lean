import UncModel.Batch
/-!
# C11 — files of one invocation are formatted independently
-/
namespace Unc

/-- Non-interference: if the transformer is well classified, every file of a batch gets the output it gets alone,
    for every file sequence (any length, any order). -/
theorem C11_noninterference {File Out : Type} (F : FileRun File Out) (rel : Loc → Bool) (init : GState)
    (h : WellClassified F rel init) (xs : List File) :
    batch F init xs = singles F init xs := by
  suffices ∀ g, AgreeOn rel g init → batch F g xs = singles F init xs from this init (fun _ _ => rfl)
  induction xs with
  | nil => intro g _; rfl
  | cons x xs ih =>
    intro g hg
    simp only [batch, singles, List.map_cons]
    rw [h.dep g init x hg]
    congr 1
    exact ih _ (h.restore g x hg)

/-- order independence as a corollary: a file's output does not depend on what precedes it -/
theorem C11_prefix_irrelevant {File Out : Type} (F : FileRun File Out) (rel : Loc → Bool) (init : GState)
    (h : WellClassified F rel init) (pre pre' : List File) (x : File) :
    (batch F init (pre ++ [x])).getLast? = (batch F init (pre' ++ [x])).getLast? := by
  rw [C11_noninterference F rel init h, C11_noninterference F rel init h]
  simp [singles]

/-- non-vacuity: a transformer that reads and resets an `R` location and keeps a `K` location is well classified -/
example : ∃ F : FileRun Nat Nat, WellClassified F (fun l => l = "k" || l = "r") (fun _ => 0) ∧
    batch F (fun _ => 0) [3, 4] = [3, 4] := by
  refine ⟨⟨fun g x => (x + g "k" + g "r", fun l => if l = "w" then x else if l = "r" then 0 else g l)⟩, ⟨?_, ?_⟩, ?_⟩
  · intro g g' x hg
    have h1 := hg "k" (by decide); have h2 := hg "r" (by decide)
    simp [h1, h2]
  · intro g x hg l hl
    by_cases hw : l = "w"
    · subst hw; simp at hl
    · by_cases hr : l = "r"
      · simp [hr]
      · simp [hw, hr]; exact hg l hl
  · rfl

/-- every member of `cp_data_t` is classified (a new member breaks this theorem until it is classified) -/
theorem C11_cpd_classification_total : allClassified Gen.cpdFields Gen.cpdClass = true := by decide

/-- every writable global of the binary is classified -/
theorem C11_global_classification_total : allClassified Gen.globals Gen.globalClass = true := by decide

/-- only the classes K, R, W, D occur: no location is read-before-write without being reset -/
theorem C11_no_unsafe_location :
    (validClass Gen.cpdClass && noneX Gen.cpdClass && validClass Gen.globalClass && noneX Gen.globalClass) = true := by decide

/-- every `cpd` member classified R is assigned in `uncrustify_end()` -/
theorem C11_reset_covers_R : resetCovers Gen.cpdClass Gen.cpdReset = true := by decide

end Unc
