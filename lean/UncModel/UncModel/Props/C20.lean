import UncModel.Blank
import UncModel.Gen.NlMaxGuard
import UncModel.Props.C17
/-!
# C20 — blank-line limits

* `C20_shape`, `C20_callees`, `C20_cap_cmp`: the write inventory regenerated from `do_blank_lines()` has the shape the
  model interprets (prologue "+1", `nl_max` cap, `can_increase_nl` → 1; only option-value writes in the middle; final
  "−1"), calls only accessors/predicates/logging, and the cap compares with `>`.
* `C20_visit_bounded`, `C20_pass_bounded`: with `nl_max = N > 0` and every option the inventory reads `≤ N`, every
  newline chunk the loop visits or writes ends with a count `≤ N` — for **every** valuation of the (unmodelled)
  guards, every number of chunks, every initial count.
* `C20_inventory_covered`: which options of the inventory `too_big_for_nl_max()` checks against `nl_max` before any
  source is read (all but `nl_max_after_func_body`), hence `C20_pass_bounded_guarded`.
* `C20_cap_needed_witness`: without the proviso the bound is false (an option above `nl_max` wins) — the property's
  "provided no other blank-line count option asks for more".
* `C20_eat_blanks_*`: `eat_blanks_after_open_brace` / `eat_blanks_before_close_brace` leave exactly one line break next
  to the brace (with the namespace / empty-function exceptions the code makes).
* `C20_cleanup_dup_*`: merging adjacent newline chunks keeps the bound and leaves one chunk.
* `C20_sof_eof_exact`: start/end-of-file counts (`Props/C17.lean`, `EatSE.lean`).
* `C20_newline_chunk_breaks`: a `CT_NEWLINE` chunk makes `output_text()` write exactly `nl_count` line terminators.

Not proved: that no pass *after* `do_blank_lines()` raises a count above `nl_max` (monitored on the chunk list handed
to `output_text()`), and the guards themselves.
-/
namespace Unc
open Gen

theorem C20_shape : shapeOk Gen.blankWrites = true := by decide +kernel

theorem C20_callees : Gen.blankCallees.all (fun c => knownCallees.contains c) = true := by decide +kernel

theorem C20_cap_cmp : Gen.blankMaxCmp = ">" ∧ Gen.blankSetCmp = "!=" := by decide +kernel

/-- `can_increase_nl()` tests its conditions in the order the model `canIncrease` transliterates -/
theorem C20_caninc_shape : Gen.canIncReturns = expectedCanIncReturns := by decide +kernel

/-! ### the helpers -/

theorem blankHelper_cases (cmp : String) (opt n : Nat) : blankHelper cmp opt n = opt ∨ blankHelper cmp opt n = n := by
  unfold blankHelper; split <;> simp

theorem blankHelper_le (cmp : String) (opt n N : Nat) (ho : opt ≤ N) (hn : n ≤ N) : blankHelper cmp opt n ≤ N := by
  rcases blankHelper_cases cmp opt n with h | h <;> omega

theorem blankMax_cap (N n : Nat) (hN : N > 0) (hn : n > N) : blankMax N n = N := by
  unfold blankMax blankHelper
  rw [C20_cap_cmp.1]
  simp [cmpHolds, hN, hn]

/-- blank_line_set means "set to the option unless the option is 0" -/
theorem blankSet_eq (opt n : Nat) : blankSet opt n = if opt > 0 then opt else n := by
  unfold blankSet blankHelper
  rw [C20_cap_cmp.2]
  by_cases h : opt > 0
  · by_cases h2 : n = opt <;> simp [cmpHolds, h, h2]
  · simp [h]

/-- blank_line_max means `min` unless the option is 0 -/
theorem blankMax_eq (opt n : Nat) : blankMax opt n = if opt > 0 then min opt n else n := by
  unfold blankMax blankHelper
  rw [C20_cap_cmp.1]
  by_cases h : opt > 0
  · by_cases h2 : n > opt
    · simp [cmpHolds, h, h2]; omega
    · simp [cmpHolds, h, h2]; omega
  · simp [h]

/-! ### one visited chunk -/

def selfOptsLe (σ : Sigma) (mid : List BW) (N : Nat) : Prop :=
  ∀ w ∈ mid, w.target = "pc" → ∀ o ∈ w.opts, σ o ≤ N

theorem midStep_le (σ : Sigma) (w : BW) (k n N : Nat) (hw : ∀ o ∈ w.opts, σ o ≤ N) (hn : n ≤ N) :
    midStep σ w k n ≤ N := by
  unfold midStep
  cases hk : w.opts[k]? with
  | none => simpa using hn
  | some o =>
    have ho : σ o ≤ N := hw o (List.mem_of_getElem? hk)
    simp only []
    split
    · exact blankHelper_le _ _ _ _ ho hn
    · split
      · exact blankHelper_le _ _ _ _ ho hn
      · split
        · exact ho
        · exact hn

theorem midFold_le (σ : Sigma) (mid : List BW) (fires : List (Option Nat)) (n N : Nat)
    (h : selfOptsLe σ mid N) (hn : n ≤ N) : midFold σ mid fires n ≤ N := by
  induction mid generalizing fires n with
  | nil => cases fires <;> simpa [midFold] using hn
  | cons w ws ih =>
    cases fires with
    | nil => simpa [midFold] using hn
    | cons f fs =>
      simp only [midFold]
      apply ih
      · intro w' hw'; exact h w' (List.mem_cons_of_mem _ hw')
      · cases f with
        | none => exact hn
        | some k =>
          simp only []
          split
          · rename_i ht
            exact midStep_le σ w k n N (h w (List.mem_cons_self) ht) hn
          · exact hn

/-- **the cap holds for a visited chunk**, whatever its count was, whatever the guards decide -/
theorem cap_le (N n1 : Nat) (hN : N > 0) : (if N > 0 ∧ n1 > N then blankMax N n1 else n1) ≤ N := by
  by_cases hc : N > 0 ∧ n1 > N
  · rw [if_pos hc, blankMax_cap _ _ hN hc.2]; exact Nat.le_refl _
  · rw [if_neg hc]; omega

theorem C20_visit_bounded (σ : Sigma) (mid : List BW) (edge canInc : Bool) (fires : List (Option Nat)) (n : Nat)
    (hN : σ "nl_max" > 0) (h : selfOptsLe σ mid (σ "nl_max")) :
    visitSelf σ mid edge canInc fires n ≤ σ "nl_max" := by
  unfold visitSelf
  simp only []
  generalize (if edge = true then n + 1 else n) = n1
  cases canInc with
  | false => simp; omega
  | true =>
    simp only [Bool.not_true, Bool.false_eq_true, if_false]
    have h2 := cap_le (σ "nl_max") n1 hN
    have h3 := midFold_le σ mid fires _ _ h h2
    generalize midFold σ mid fires _ = n3 at h3
    by_cases hc : edge = true ∧ n3 > 1
    · rw [if_pos hc]; omega
    · rw [if_neg hc]; exact h3

/-! ### the whole pass -/

def CellsOk (N : Nat) (l : List NlCell) : Prop := ∀ c ∈ l, c.skip = true ∨ c.n ≤ N

theorem modAt_ok {N : Nat} (f : NlCell → NlCell) (hf : ∀ c, (c.skip = true ∨ c.n ≤ N) → ((f c).skip = true ∨ (f c).n ≤ N))
    (k : Nat) (l : List NlCell) (h : CellsOk N l) : CellsOk N (modAt f k l) := by
  induction l generalizing k with
  | nil => simpa [modAt] using h
  | cons x xs ih =>
    cases k with
    | zero =>
      intro c hc
      simp only [modAt, List.mem_cons] at hc
      rcases hc with rfl | hc
      · exact hf x (h x List.mem_cons_self)
      · exact h c (List.mem_cons_of_mem _ hc)
    | succ k =>
      intro c hc
      simp only [modAt, List.mem_cons] at hc
      rcases hc with rfl | hc
      · exact h _ List.mem_cons_self
      · exact ih k (fun c hc => h c (List.mem_cons_of_mem _ hc)) c hc

theorem tmps_ok (σ : Sigma) (N : Nat) (tmps : List (Nat × String)) (ht : ∀ t ∈ tmps, σ t.2 ≤ N) (d : List NlCell)
    (h : CellsOk N d) :
    CellsOk N (tmps.foldl (fun d t => modAt (fun x => { x with n := blankSet (σ t.2) x.n }) t.1 d) d) := by
  induction tmps generalizing d with
  | nil => simpa using h
  | cons t ts ih =>
    simp only [List.foldl_cons]
    apply ih
    · intro t' ht'; exact ht t' (List.mem_cons_of_mem _ ht')
    · apply modAt_ok _ _ _ _ h
      intro c hc
      rcases hc with hc | hc
      · left; exact hc
      · right; exact blankHelper_le _ _ _ _ (ht t List.mem_cons_self) hc

/-- **after `do_blank_lines()` every newline chunk the loop visited or wrote has a count `≤ nl_max`** — for every
    list of newline chunks, every initial counts, every outcome of the guards (which writes fire, to which earlier
    chunk the `tmp` writes go) -/
theorem C20_pass_bounded (σ : Sigma) (mid : List BW) (cells : List (NlCell × VisitIn))
    (hN : σ "nl_max" > 0) (h : selfOptsLe σ mid (σ "nl_max"))
    (ht : ∀ cv ∈ cells, ∀ t ∈ cv.2.tmps, σ t.2 ≤ σ "nl_max") :
    CellsOk (σ "nl_max") (blankPass σ mid cells) := by
  unfold blankPass
  suffices H : ∀ done, CellsOk (σ "nl_max") done → CellsOk (σ "nl_max") (cells.foldl (passStep σ mid) done) from
    H [] (by intro c hc; cases hc)
  induction cells with
  | nil => intro done hd; simpa using hd
  | cons cv rest ih =>
    intro done hd
    simp only [List.foldl_cons]
    apply ih (fun cv' h' => ht cv' (List.mem_cons_of_mem _ h'))
    unfold passStep
    simp only []
    split
    · rename_i hs
      intro c hc
      simp only [List.mem_cons] at hc
      rcases hc with rfl | hc
      · left; exact hs
      · exact hd c hc
    · intro c hc
      simp only [List.mem_cons] at hc
      rcases hc with rfl | hc
      · right; exact C20_visit_bounded σ mid _ _ _ _ hN h
      · exact tmps_ok σ _ _ (ht cv List.mem_cons_self) done hd c hc

/-! ### which options of the inventory the configuration guard covers -/

def nameCps (s : String) : List Nat := s.toList.map Char.toNat

/-- options read by the middle writes -/
def inventoryOpts : List String := (midOf Gen.blankWrites).flatMap (·.opts)

/-- options of the inventory that `too_big_for_nl_max()` does not compare with `nl_max` -/
def uncoveredOpts : List String := ["nl_max_after_func_body"]

theorem C20_inventory_covered :
    inventoryOpts.all (fun o => Gen.nlMaxGuarded.contains (nameCps o) || uncoveredOpts.contains o) = true := by
  decide +kernel

/-- what `too_big_for_nl_max()` enforces before any source is read (see `Props/C16.lean` for the loader side) -/
def GuardHolds (σ : Sigma) : Prop := ∀ o : String, nameCps o ∈ Gen.nlMaxGuarded → σ o ≤ σ "nl_max"

theorem inventory_le_of_guard (σ : Sigma) (hg : GuardHolds σ) (hu : ∀ o ∈ uncoveredOpts, σ o ≤ σ "nl_max") :
    ∀ o ∈ inventoryOpts, σ o ≤ σ "nl_max" := by
  intro o ho
  have h := List.all_eq_true.mp C20_inventory_covered o ho
  simp only [Bool.or_eq_true, List.contains_iff_mem] at h
  rcases h with h | h
  · exact hg o h
  · exact hu o h

/-- the bound for the inventory of the current source, under the guard uncrustify itself enforces plus the one
    uncovered option -/
theorem C20_pass_bounded_guarded (σ : Sigma) (cells : List (NlCell × VisitIn))
    (hN : σ "nl_max" > 0) (hg : GuardHolds σ) (hu : ∀ o ∈ uncoveredOpts, σ o ≤ σ "nl_max")
    (ht : ∀ cv ∈ cells, ∀ t ∈ cv.2.tmps, t.2 ∈ inventoryOpts) :
    CellsOk (σ "nl_max") (blankPass σ (midOf Gen.blankWrites) cells) := by
  have hall := inventory_le_of_guard σ hg hu
  apply C20_pass_bounded σ _ cells hN
  · intro w hw _ o ho
    exact hall o (List.mem_flatMap.mpr ⟨w, hw, ho⟩)
  · intro cv hcv t htt
    exact hall _ (ht cv hcv t htt)

/-- the proviso is needed: an option of the inventory above `nl_max` wins over the cap -/
theorem C20_cap_needed_witness :
    let σ : Sigma := fun o => if o = "nl_max" then 2 else if o = "nl_after_func_body" then 5 else 0
    let w : BW := { target := "pc", kind := "set", opts := ["nl_after_func_body"], guards := [] }
    visitSelf σ [w] false true [some 0] 9 = 5 := by
  decide +kernel

/-! ### eat_blanks_after_open_brace / eat_blanks_before_close_brace -/

theorem C20_visit_no_increase (σ : Sigma) (mid : List BW) (edge : Bool) (fires : List (Option Nat)) (n : Nat) :
    visitSelf σ mid edge false fires n = 1 := by
  simp [visitSelf]

/-- after `{`: no blank line, unless the brace opens a namespace with `nl_inside_namespace`, or an empty function body
    with `nl_inside_empty_func` -/
theorem C20_eat_blanks_after_open (o : IncOpts) (i : IncIn) (he : o.eatAfterOpen = true) (hp : i.prevIsBraceOpen = true)
    (hpc : i.prevIsBraceClose = false)
    (hns : o.nlInsideNamespace = 0 ∨ (i.prevParentNamespace = false ∧ (i.nextIsBraceClose = false ∨ i.nextParentNamespace = false)))
    (hef : o.nlInsideEmptyFunc = 0 ∨ i.nextIsBraceClose = false) :
    canIncrease o i = false := by
  unfold canIncrease
  rcases hns with hns | ⟨hns1, hns2 | hns2⟩ <;> rcases hef with hef | hef <;> simp_all

/-- before `}`: no blank line, with the same exceptions -/
theorem C20_eat_blanks_before_close (o : IncOpts) (i : IncIn) (he : o.eatBeforeClose = true) (hp : i.nextIsBraceClose = true)
    (hns : o.nlInsideNamespace = 0 ∨ i.nextParentNamespace = false)
    (hef : o.nlInsideEmptyFunc = 0 ∨ i.prevIsBraceOpen = false) :
    canIncrease o i = false := by
  unfold canIncrease
  rcases hns with hns | hns <;> rcases hef with hef | hef <;> simp_all

/-- start / end of file with an option other than `ignore`: the count is forced to 1 here (and then set by
    `newlines_eat_start_end`, `C20_sof_eof_exact`) -/
theorem C20_edge_no_increase (o : IncOpts) (i : IncIn) (hb : i.prevIsBraceOpen = false ∧ i.prevIsBraceClose = false ∧ i.nextIsBraceClose = false)
    (h : (i.isHead = true ∧ o.sof ≠ .ignore) ∨ (i.isTail = true ∧ o.eof ≠ .ignore)) : canIncrease o i = false := by
  unfold canIncrease
  rcases h with ⟨h1, h2⟩ | ⟨h1, h2⟩ <;> simp_all

/-! ### newlines_cleanup_dup -/

theorem cleanupDup_le (N : Nat) (l : List Nat) (h : ∀ x ∈ l, x ≤ N) : ∀ x ∈ cleanupDup l, x ≤ N := by
  fun_induction cleanupDup l with
  | case1 a b rest ih =>
    apply ih
    intro x hx
    simp only [List.mem_cons] at hx
    rcases hx with rfl | hx
    · have ha := h a (by simp); have hb := h b (by simp); omega
    · exact h x (by simp [hx])
  | case2 l hne => exact h

theorem C20_cleanup_dup_bounded (N : Nat) (l : List Nat) (h : ∀ x ∈ l, x ≤ N) :
    (∀ x ∈ cleanupDup l, x ≤ N) ∧ (cleanupDup l).length ≤ 1 := by
  refine ⟨cleanupDup_le N l h, ?_⟩
  fun_induction cleanupDup l with
  | case1 a b rest ih => exact ih (by
      intro x hx
      simp only [List.mem_cons] at hx
      rcases hx with rfl | hx
      · have ha := h a (by simp); have hb := h b (by simp); omega
      · exact h x (by simp [hx]))
  | case2 l hne =>
    match l, hne with
    | [], _ => simp
    | [_], _ => simp
    | a :: b :: r, hne => exact absurd rfl (hne a b r)

/-! ### start and end of file; the output stage -/

theorem C20_sof_eof_exact (min : Nat) (edge : Option Nat) :
    edgeBreaks (fileEdge false .force min edge) = min ∧
    edgeBreaks (fileEdge false .remove min edge) = 0 ∧
    edgeBreaks (fileEdge false .add min edge) = (match edge with | none => min | some _ => max min 1) ∧
    fileEdge false .ignore min edge = edge := C17_file_edge min edge

/-- a `CT_NEWLINE` chunk makes the output stage write exactly `nl_count` line terminators (and blanks only besides) -/
theorem C20_newline_chunk_breaks (c : OutCfg) (s : RSt) (pc : Chunk) :
    ∃ ws : List (List CP), ws.length = pc.nl ∧ (∀ w ∈ ws, ∀ x ∈ w, isBlank x = true) ∧
      (renderNewline c s pc).o.out = s.o.out ++ ws.flatMap (fun w => w ++ c.nl) :=
  newline_run_indented c s pc

/-! ### non-vacuity -/

def exSigma : Sigma := fun o => if o = "nl_max" then 2 else if o = "nl_after_func_body" then 2 else 0

example : exSigma "nl_max" > 0 := by decide
example : (midOf Gen.blankWrites).length > 25 := by decide +kernel
example : inventoryOpts.length > 25 := by decide +kernel
-- `int f(){}` + 3 blank lines + `int g(){}` + 5 line breaks at the end of the file, nl_max=2, nl_after_func_body=2
example : (blankPass exSigma (midOf Gen.blankWrites)
    [({ n := 4, skip := false }, { edge := false, canInc := true, fires := [], tmps := [] }),
     ({ n := 5, skip := false }, { edge := true, canInc := true, fires := [], tmps := [] })]).map (·.n) = [1, 2] := by
  decide +kernel
example : canIncrease
    ({ nlInsideNamespace := 0, nlInsideEmptyFunc := 0, nlBeforeNamespace := 0, eatAfterOpen := true,
       eatBeforeClose := false, sof := IARF.ignore, eof := IARF.ignore } : IncOpts)
    ({ prevIsBraceOpen := true, prevIsBraceClose := false, nextIsBraceClose := false, prevParentNamespace := false,
       nextParentNamespace := false, prevParentFunc := true, nextParentFunc := false, isHead := false, isTail := false } : IncIn)
    = false := by
  decide
example : cleanupDup [1, 3, 2] = [3] := by decide +kernel

end Unc
