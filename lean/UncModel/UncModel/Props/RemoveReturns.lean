import UncModel.RemoveReturns
/-!
# mod_remove_empty_return removes a `return;` only in front of the closing brace of a function
-/
namespace Unc.RmRet

/-- what the pass may do to a chunk list: keep a chunk, or drop a `return` and the `;` behind it when the next chunk that is neither
    comment nor newline is the closing brace of a function definition -/
inductive Removes : List Ck → List Ck → Prop
  | nil : Removes [] []
  | keep (c : Ck) {l out : List Ck} : Removes l out → Removes (c :: l) (c :: out)
  | drop (pc sc cb : Ck) (g1 g2 : List Ck) {l out : List Ck} :
      pc.t = .ret → sc.t = .semi → cb.t = .braceClose → cb.parent = .funcDef →
      (∀ c ∈ g1, c.t = .cmtNl) → (∀ c ∈ g2, c.t = .cmtNl) →
      Removes l out → Removes (pc :: g1 ++ sc :: g2 ++ cb :: l) (g1 ++ g2 ++ cb :: out)
  | stop (l : List Ck) : Removes l l           -- the walk ran out of fuel (never happens with `removeExtraReturns`)

theorem spanCmt_spec (r : List Ck) : r = (spanCmt r).1 ++ (spanCmt r).2 ∧ (∀ c ∈ (spanCmt r).1, c.t = .cmtNl) := by
  induction r with
  | nil => simp [spanCmt]
  | cons c r ih =>
    simp only [spanCmt]
    split
    · rename_i hc
      refine ⟨by simp; exact ih.1, ?_⟩
      intro d hd
      simp only [List.mem_cons] at hd
      rcases hd with hd | hd
      · subst hd; exact hc
      · exact ih.2 d hd
    · simp

theorem closingBrace_spec {pc : Ck} {r : List Ck} {j : Nat} (h : closingBrace pc r = some j) :
    ∃ cb, r[j]? = some cb ∧ cb.parent = .funcDef := by
  unfold closingBrace at h
  split at h
  · split at h
    · rename_i cb hcb
      split at h
      · cases h
      · split at h
        · rename_i hp
          cases h
          exact ⟨cb, hcb, hp.1⟩
        · cases h
    · cases h
  · split at h
    · split at h
      · rename_i cb hcb
        split at h
        · rename_i hp
          cases h
          exact ⟨cb, hcb, hp.1⟩
        · cases h
      · cases h
    · cases h

theorem findClose_type {lv : Nat} {r : List Ck} {j : Nat} (h : findClose lv r = some j) : ∃ cb, r[j]? = some cb ∧ cb.t = .braceClose := by
  induction r generalizing j with
  | nil => simp [findClose] at h
  | cons c r ih =>
    simp only [findClose] at h
    split at h
    · rename_i hc
      cases h
      exact ⟨c, by simp, hc.1⟩
    · cases hn : findClose lv r with
      | none => simp [hn] at h
      | some k =>
        simp only [hn, Option.map_some, Option.some.injEq] at h
        subst h
        obtain ⟨cb, hcb, ht⟩ := ih hn
        exact ⟨cb, by simpa using hcb, ht⟩

theorem closingBrace_type {pc : Ck} {r : List Ck} {j : Nat} (h : closingBrace pc r = some j) :
    ∃ cb, r[j]? = some cb ∧ cb.t = .braceClose := by
  unfold closingBrace at h
  split at h
  · rename_i j1 hf
    split at h
    · split at h
      · cases h
      · split at h
        · cases h; exact findClose_type hf
        · cases h
    · cases h
  · split at h
    · rename_i j0 hf
      split at h
      · split at h
        · cases h; exact findClose_type hf
        · cases h
      · cases h
    · cases h

/-- the decomposition behind a removal -/
theorem removable_spec {pc : Ck} {r g1 g2 rest : List Ck} {cb : Ck} (h : removable pc r = some (g1, g2, cb, rest)) :
    ∃ sc, r = g1 ++ sc :: g2 ++ cb :: rest ∧ sc.t = .semi ∧ cb.t = .braceClose ∧ cb.parent = .funcDef ∧
      (∀ c ∈ g1, c.t = .cmtNl) ∧ (∀ c ∈ g2, c.t = .cmtNl) := by
  unfold removable at h
  split at h
  · rename_i j hcb
    split at h
    · rename_i g1' sc r1 hs1
      split at h
      · rename_i hsemi
        split at h
        · rename_i g2' cb' rest' hs2
          split at h
          · rename_i hj
            simp only [Option.some.injEq, Prod.mk.injEq] at h
            obtain ⟨e1, e2, e3, e4⟩ := h
            subst e1; subst e2; subst e3; subst e4
            have sp1 := spanCmt_spec r
            rw [hs1] at sp1
            have sp2 := spanCmt_spec r1
            rw [hs2] at sp2
            simp only at sp1 sp2
            have hr : r = g1' ++ sc :: g2' ++ cb' :: rest' := by
              rw [sp1.1, sp2.1]; simp [List.append_assoc]
            obtain ⟨x, hx, hpar⟩ := closingBrace_spec hcb
            obtain ⟨y, hy, hty⟩ := closingBrace_type hcb
            have hidx : r[j]? = some cb' := by
              rw [hr, ← hj]
              have : g1' ++ sc :: g2' ++ cb' :: rest' = (g1' ++ sc :: g2') ++ cb' :: rest' := by simp [List.append_assoc]
              rw [this]
              have hl : (g1' ++ sc :: g2').length = g1'.length + 1 + g2'.length := by simp; omega
              rw [← hl]
              simp
            rw [hidx] at hx hy
            cases hx; cases hy
            exact ⟨sc, hr, hsemi, hty, hpar, sp1.2, sp2.2⟩
          · cases h
        · cases h
      · cases h
    · cases h
  · cases h

/-- **only a trailing `return;` goes**: whatever the chunk list, every `return` the pass deletes goes together with the semicolon behind
    it, and the next chunk that is neither comment nor newline is the closing brace of a function definition; all other chunks stay,
    in order -/
theorem RmRet_only_trailing_return (f : Nat) (l : List Ck) : Removes l (run removable f l) := by
  induction f generalizing l with
  | zero => exact Removes.stop l
  | succ f ih =>
    cases l with
    | nil => exact Removes.nil
    | cons pc r =>
      simp only [run]
      split
      · rename_i hp
        split
        · rename_i g1 g2 cb rest hrem
          obtain ⟨sc, hdec, hsemi, hty, hpar, hg1, hg2⟩ := removable_spec hrem
          have := Removes.drop pc sc cb g1 g2 hp.1 hsemi hty hpar hg1 hg2 (ih rest)
          rw [hdec]
          simpa [List.append_assoc] using this
        · exact Removes.keep pc (ih r)
      · exact Removes.keep pc (ih r)

/-- before fix dd7928b the semicolon was not required to stand in front of the closing brace: `work ; return ; lbl : cleanup ; }` lost
    its `return ;` -/
theorem RmRet_old_removes_inner_return_witness :
    let o : Ck := { t := .other, level := 1, parent := .other }
    let l : List Ck := [o, { t := .semi, level := 1, parent := .other }, { t := .ret, level := 1, parent := .other },
                        { t := .semi, level := 1, parent := .other }, o, o, { t := .semi, level := 1, parent := .other },
                        { t := .braceClose, level := 0, parent := .funcDef }]
    (run removableOld 9 l).length = 6 ∧ run removable 9 l = l := by decide

/-- a trailing `return ;` (comment and newline in between) goes -/
example : (run removable 9 [{ t := .other, level := 1, parent := .other }, { t := .ret, level := 1, parent := .other }, { t := .cmtNl, level := 1, parent := .other },
      { t := .semi, level := 1, parent := .other }, { t := .cmtNl, level := 1, parent := .other }, { t := .braceClose, level := 0, parent := .funcDef }]).map (·.t)
    = [.other, .cmtNl, .cmtNl, .braceClose] := by decide

end Unc.RmRet
