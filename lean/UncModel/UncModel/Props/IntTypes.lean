import UncModel.Lemmas.IntTypesLemmas
/-!
# `change_int_types()` (mod_int_short … mod_unsigned_int): what it can and cannot change

Part of C04 ("a code-modifying option changes only the tokens it names") and C01.
-/
namespace Unc.IntTy

private theorem ids_mkToks (i : Nat) (ws : List (String × Bool)) : ids (mkToks i ws) = List.range' i ws.length := by
  induction ws generalizing i with
  | nil => rfl
  | cons w ws ih => simp [mkToks, ids, List.range'_succ] at ih ⊢; exact ih (i + 1)

private theorem txt_mkToks (i : Nat) (ws : List (String × Bool)) : (mkToks i ws).map (·.txt) = ws.map (·.1) := by
  induction ws generalizing i with
  | nil => rfl
  | cons w ws ih => simp [mkToks, ih]

private theorem wf_init (ws : List (String × Bool)) (c : Tok) (r : List Tok) (h : mkToks 0 ws = c :: r) :
    WF { L := [], R := r, intKw := none, fresh := ws.length } c := by
  have hid : ids (c :: r) = List.range' 0 ws.length := by rw [← h]; exact ids_mkToks 0 ws
  refine ⟨?_, ?_, ?_⟩
  · simp only [List.nil_append]; rw [hid]; exact List.nodup_range'
  · intro t ht
    simp only [List.nil_append] at ht
    have : t.id ∈ ids (c :: r) := List.mem_map_of_mem ht
    rw [hid, List.mem_range'_1] at this
    simpa using this.2
  · intro k hk; cases hk

/-- **only `int` tokens are added or removed**: for every token sequence (with or without preprocessor lines) and every setting of
    the nine options, the output with its `int` tokens struck out is the input with its `int` tokens struck out — nothing else is
    deleted, inserted, altered or reordered -/
theorem IntTypes_only_int_edited (o : Opts) (ws : List (String × Bool)) :
    (changeIntTypesPP o ws).filter (· != "int") = (ws.map (·.1)).filter (· != "int") := by
  unfold changeIntTypesPP
  split
  · rename_i h
    cases ws with
    | nil => rfl
    | cons w ws => simp [mkToks] at h
  · rename_i c r h
    have hw := wf_init ws c r h
    have hrun := run_nonInt o (2 * ws.length + 2) _ c hw
    simp only [nonInt, List.reverse_nil, List.nil_append] at hrun
    rw [hrun, ← h, txt_mkToks]

/-- a token sequence without `short`, `long`, `signed`, `unsigned` is returned as it is (`int x` alone is never touched) -/
theorem IntTypes_untouched_without_keywords (o : Opts) (f : Nat) (s : St) (cur : Tok)
    (hc : actsOf o cur.txt = none) (hr : ∀ t ∈ s.R, actsOf o t.txt = none) :
    run o f s cur = s.L.reverse ++ cur :: s.R := by
  induction f generalizing s cur with
  | zero => rfl
  | succ f ih =>
    have hstep : (stepCur o cur s).L = s.L ∧ (stepCur o cur s).R = s.R := by
      simp only [stepCur, hc]; split <;> exact ⟨rfl, rfl⟩
    simp only [run]
    split
    · rename_i hnil
      rw [hstep.1]; rw [hstep.2] at hnil; rw [hnil]
    · rename_i n r hcons
      rw [hstep.2] at hcons
      rw [ih _ n (hr n (by simp [hcons])) (by
        intro t ht; exact hr t (by simp [hcons, ht]))]
      simp [hstep.1, hcons]

/-! ### what the options do (evaluated on the model; the same sequences are replayed on the real binary by props/c04.py) -/

example : changeIntTypes { unsignedInt := .add } ["unsigned", "x", ";", "unsigned", "int", "y", ";", "unsigned", "char", "c"]
    = ["unsigned", "int", "x", ";", "unsigned", "int", "y", ";", "unsigned", "char", "c"] := by decide
example : changeIntTypes { unsignedInt := .remove, longInt := .remove } ["unsigned", "int", "x", ";", "static", "long", "const", "int", "y"]
    = ["unsigned", "x", ";", "static", "long", "const", "y"] := by decide
example : changeIntTypes { intShort := .force, shortInt := .force, preferLeft := false } ["short", "unsigned", "x"]
    = ["short", "int", "unsigned", "x"] := by decide
example : changeIntTypes { longInt := .add } ["long", "double", "x", ";", "long", "long", "y"]
    = ["long", "double", "x", ";", "long", "int", "long", "y"] := by decide

/-- before fix c166db5 the neighbour search crossed the end of a preprocessor line: after `#define U unsigned` the `int` of the next
    line's `int y;` was deleted by mod_unsigned_int=remove.  With the preprocessor flag honoured it stays -/
theorem IntTypes_preproc_boundary_witness :
    changeIntTypesPP { unsignedInt := .remove } [("#", true), ("define", true), ("U", true), ("unsigned", true), ("int", false), ("y", false), (";", false)]
      = ["#", "define", "U", "unsigned", "int", "y", ";"] ∧
    -- the same tokens without the flags (= the old behaviour): the `int` goes
    changeIntTypes { unsignedInt := .remove } ["#", "define", "U", "unsigned", "int", "y", ";"]
      = ["#", "define", "U", "unsigned", "y", ";"] := by decide

end Unc.IntTy
