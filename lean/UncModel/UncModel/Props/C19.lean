import UncModel.SpaceExc
/-!
# C19 — spacing options mean what they say where they are reported

Part 1 (rule table, regenerated from src/space.cpp on every run): for EVERY site of `do_space()` and EVERY valuation of the
options, the value returned after `log_rule(name)` is one the logged name permits (`Allowed`), i.e. the configured value
of the very option named (or one of the listed, justified deviations).  The boolean checker `tableOk` is evaluated by the
kernel over the whole generated table; `holdsForAll_sound` turns it into the ∀-statement.

Part 2 (applier): what `space_text()` makes of the decision, for a pair on one line.
-/
namespace Unc

/-- the kernel evaluates the checker over the whole regenerated table.
    A copy-paste slip `log_rule("sp_a"); return(options::sp_b());` makes this `decide` fail; `uncdrv space.table`
    then names the site. -/
theorem C19_table_checked : tableOk = true := by decide +kernel

theorem C19_exceptions_all_used : exceptionsUsed = true := by decide +kernel

theorem C19_site_checked {s : SpSite} (h : s ∈ spaceRules) : siteOk s = true := by
  have := C19_table_checked
  simp only [tableOk, List.all_eq_true] at this
  exact this s h

/-- **rule_returns_named_option**: for every `log_rule` site of do_space(), every valuation `σ` of the options, every
    outcome `ρ` of the conditions that are not about options (and whatever `ω` an unparsed expression would be), if the
    option guards around the site hold then the value returned is permitted by the logged name. -/
theorem C19_rule_returns_named_option :
    ∀ s ∈ spaceRules, ∀ (σ : SpVal) (ρ : String → Bool) (ω : String → IARF),
      SpCond.holds σ ρ s.guards = true → eval σ ρ ω s.ret ∈ Allowed s σ := by
  intro s hs σ ρ ω hg
  have h := C19_site_checked hs
  simp only [siteOk, Bool.and_eq_true] at h
  have hr := h.2
  unfold retOk at hr
  unfold Allowed
  cases hsp : specOf s with
  | anyValue => exact IARF.mem_all _
  | oneOf l =>
    rw [hsp] at hr
    exact holdsForAll_sound hr σ ρ ω hg

example : (spaceRules.any fun s => s.logged == "sp_arith" && Allowed s (fun _ => .force) == [.force] &&
    Allowed s (fun _ => .remove) == [.remove]) = true := by decide +kernel

/-- the readable special case: a site that logs an IARF option which is not in the exception list returns exactly the
    configured value of THAT option -/
theorem C19_regular_site_returns_its_option :
    ∀ s ∈ spaceRules, ∀ i, s.ln = .opt i → optKind i = .iarf → exceptionOf s.ln = none →
      ∀ (σ : SpVal) (ρ : String → Bool) (ω : String → IARF), SpCond.holds σ ρ s.guards = true →
        eval σ ρ ω s.ret = σ i := by
  intro s hs i hln hk hex σ ρ ω hg
  have h := C19_rule_returns_named_option s hs σ ρ ω hg
  have hsp : specOf s = .oneOf [.opt i] := by
    unfold specOf
    rw [hex, hln]
    simp [hk]
  simpa [Allowed, hsp, allowedSet, evalSet] using h

example : (spaceRules.any fun s => match s.ln with
    | .opt i => optKind i == .iarf && (exceptionOf s.ln).isNone && s.logged == "sp_after_comma"
    | _ => false) = true := by decide +kernel

/-- `"x | ADD"` sites return the configured value of `x` or'ed with ADD -/
theorem C19_orAdd_site :
    ∀ s ∈ spaceRules, ∀ i, s.ln = .optOrAdd i → optKind i = .iarf →
      ∀ (σ : SpVal) (ρ : String → Bool) (ω : String → IARF), SpCond.holds σ ρ s.guards = true →
        eval σ ρ ω s.ret = IARF.bor (σ i) .add := by
  intro s hs i hln hk σ ρ ω hg
  have h := C19_rule_returns_named_option s hs σ ρ ω hg
  have hsp : specOf s = .oneOf [.orAdd (.opt i)] := by
    unfold specOf exceptionOf
    rw [hln]
    simp [hk]
  simpa [Allowed, hsp, allowedSet, evalSet] using h

example : (spaceRules.any fun s => match s.ln with
    | .optOrAdd i => optKind i == .iarf && s.logged == "sp_after_type | ADD"
    | _ => false) = true := by decide +kernel

/-- sites whose log text carries a constant return that constant -/
theorem C19_constant_site :
    ∀ s ∈ spaceRules, ∀ pre v post, s.ln = .textConst pre v post →
      ∀ (σ : SpVal) (ρ : String → Bool) (ω : String → IARF), SpCond.holds σ ρ s.guards = true →
        eval σ ρ ω s.ret = v := by
  intro s hs pre v post hln σ ρ ω hg
  have h := C19_rule_returns_named_option s hs σ ρ ω hg
  have hsp : specOf s = .oneOf [.const v] := by
    unfold specOf exceptionOf
    rw [hln]
  simpa [Allowed, hsp, allowedSet, evalSet] using h

example : (spaceRules.any fun s => match s.ln with
    | .textConst _ v _ => s.logged == "orig prev sp - FORCE" && v == .force
    | _ => false) = true := by decide +kernel

/-- the logged string IS the name of the option the table entry refers to, and a site that logs a numeric option
    (`sp_num_…`) takes `min_sp` from that very option -/
theorem C19_logged_name_is_the_option :
    ∀ s ∈ spaceRules, ∀ i, s.ln = .opt i →
      s.logged = optName i ∧ (optKind i = .num → s.min = some (.optNum i)) := by
  intro s hs i hln
  have h := C19_site_checked hs
  simp only [siteOk, Bool.and_eq_true] at h
  obtain ⟨⟨h1, h2⟩, _⟩ := h
  constructor
  · simp only [lnameOk, hln, Bool.and_eq_true, beq_iff_eq] at h1
    exact h1.1
  · intro hk
    simp only [minOk, hln, hk, Bool.and_eq_true] at h2
    simpa using h2.2

example : (spaceRules.any fun s => match s.ln with
    | .opt i => optKind i == .num && s.logged == "sp_num_before_tr_cmt"
    | _ => false) = true := by decide +kernel

/-! ## Part 2: the applier -/

/-- **apply_meaning / Remove**: nothing between the tokens, unless the fusion guard set PCF_FORCE_SPACE -/
theorem C19_apply_remove (minSp : Nat) (g : SpGeom) :
    gapOf .remove false minSp g = 0 := by
  simp [gapOf, ensureForce, applySwitch]

/-- **apply_meaning / Force**: exactly `max 1 min_sp` columns (`min_sp` is 1 except where do_space() takes it from `sp_num_before_tr_cmt`,
    `sp_num_before_emb_cmt`, `sp_num_after_emb_cmt` or `indent_ctor_init_leading - 1`),
    forced or not -/
theorem C19_apply_force (forced : Bool) (minSp : Nat) (g : SpGeom) :
    gapOf .force forced minSp g = max 1 minSp := by
  cases forced <;> simp [gapOf, ensureForce, applySwitch, IARF.bor]

/-- **apply_meaning / Add**: at least `max 1 min_sp`; exactly: the input gap if that is larger (for a virtual open
    brace the input distance from the token before it, minus one) -/
theorem C19_apply_add (forced : Bool) (minSp : Nat) (g : SpGeom) :
    gapOf .add forced minSp g ≥ max 1 minSp ∧
    (g.isVbraceOpen = false →
      gapOf .add forced minSp g = max (max 1 minSp) (origGap g)) := by
  have hb : ensureForce forced .add = .add := by cases forced <;> simp [ensureForce, IARF.bor]
  constructor
  · simp only [gapOf, hb, applySwitch]
    split
    · split <;> omega
    · split <;> omega
  · intro hv
    simp only [gapOf, hb, applySwitch, hv, origGap, Bool.false_and, Bool.false_eq_true, if_false]
    split <;> split <;> simp_all <;> omega

/-- **apply_meaning / Ignore** (not forced, not a virtual brace): the exact arithmetic — the input gap
    `next.orig_col - pc.orig_col_end` is kept when `pc.orig_col_end ≠ 0` and `next` did not start left of it; otherwise
    (`orig_col_end = 0`: a chunk that was inserted; or overlapping columns) no space is produced.  In particular there is
    a space in the output iff there was one in the input. -/
theorem C19_apply_ignore (minSp : Nat) (g : SpGeom) (hv : g.isVbraceOpen = false) :
    gapOf .ignore false minSp g = origGap g ∧
    (gapOf .ignore false minSp g > 0 ↔ origGap g > 0) := by
  have : gapOf .ignore false minSp g = origGap g := by
    simp only [gapOf, ensureForce, applySwitch, hv, origGap, Bool.false_eq_true, if_false]
    split <;> split <;> simp_all <;> omega
  exact ⟨this, by rw [this]⟩

/-- **apply_meaning** (the four values together), for a pair on one line that does not start at a virtual brace:
    Remove ⇒ gap 0 (not forced) / `max 1 min_sp` (forced); Force ⇒ exactly `max 1 min_sp`; Add ⇒ the larger of
    `max 1 min_sp` and the input gap; Ignore (not forced) ⇒ the input gap, where a first chunk with `orig_col_end = 0`
    (inserted by uncrustify) or a second chunk starting left of it counts as input gap 0. -/
theorem C19_apply_meaning (forced : Bool) (minSp : Nat) (g : SpGeom) (hv : g.isVbraceOpen = false) :
    gapOf .remove false minSp g = 0 ∧
    gapOf .remove true minSp g = max 1 minSp ∧
    gapOf .force forced minSp g = max 1 minSp ∧
    gapOf .add forced minSp g = max (max 1 minSp) (origGap g) ∧
    gapOf .ignore false minSp g = origGap g ∧
    (gapOf .ignore false minSp g > 0 ↔ origGap g > 0) ∧
    (origGap g > 0 ↔ g.origColEnd ≠ 0 ∧ g.nextOrigCol > g.origColEnd) :=
  ⟨C19_apply_remove minSp g, by simp [gapOf, ensureForce, applySwitch, IARF.bor], C19_apply_force forced minSp g,
   (C19_apply_add forced minSp g).2 hv, (C19_apply_ignore minSp g hv).1, (C19_apply_ignore minSp g hv).2,
   by simp only [origGap]; split <;> omega⟩

example : ∃ g : SpGeom, g.isVbraceOpen = false ∧ g.nlCount = 0 ∧ origGap g > 0 :=
  ⟨{ column := 5, len := 3, nlCount := 0, origColEnd := 8, nextOrigCol := 10, isVbraceOpen := false, prevOrigCol := 0 },
   rfl, rfl, by decide⟩

/-- after a virtual open brace with IGNORE and no usable input gap, `next` is put back at its input column (Issue #1854)
    when that column lies to the right of the brace; otherwise it stays right behind the brace -/
theorem C19_apply_ignore_vbrace (minSp : Nat) (g : SpGeom) (hv : g.isVbraceOpen = true)
    (h : ¬ (g.nextOrigCol ≥ g.origColEnd ∧ g.origColEnd ≠ 0)) :
    applySwitch .ignore minSp g = max g.colAfter g.nextOrigCol := by
  simp only [applySwitch, hv]
  split
  · simp_all
  · split <;> simp_all <;> omega

/-- **columns never move to the left**: whatever the decision, the forced flag, `min_sp` and the geometry (virtual braces
    included), `space_text()` puts `next` at or to the right of the end of `pc`.  This is what keeps the columns of a line
    monotonic, which `reindent_line()` relies on when it subtracts the shift of the first token from every token of the line
    (size_t arithmetic).  Fix f9c391f made it true; see `C19_old_moves_left_witness`. -/
theorem C19_apply_never_left (av : IARF) (minSp : Nat) (g : SpGeom) :
    applySwitch av minSp g ≥ g.colAfter := by
  cases av <;> simp only [applySwitch]
  · split
    · omega
    · split
      · rename_i h; simp only [Bool.and_eq_true, decide_eq_true_eq] at h; omega
      · omega
  · split
    · split <;> omega
    · split <;> omega
  · omega
  · omega

/-- before fix f9c391f: a token whose input column lies left of the virtual brace (lines joined by nl_remove_extra_newlines=2:
    `  if(a)` / `b;`) was moved there: `b` at column 1 although the virtual brace sits at column 8 -/
theorem C19_old_moves_left_witness :
    let g : SpGeom := { column := 8, len := 0, nlCount := 0, origColEnd := 0, nextOrigCol := 1, isVbraceOpen := true, prevOrigCol := 7 }
    applySwitchOld .ignore 1 g = 1 ∧ g.colAfter = 8 ∧ applySwitch .ignore 1 g = 8 := by decide

/-- **forced_overrides_remove**: with PCF_FORCE_SPACE (the two tokens would lex differently when joined) every decision
    yields at least one column; Remove and Force yield exactly `max 1 min_sp` -/
theorem C19_forced_overrides_remove (av0 : IARF) (minSp : Nat) (g : SpGeom) :
    gapOf av0 true minSp g ≥ 1 ∧ gapOf .remove true minSp g = max 1 minSp := by
  constructor
  · cases av0
    · -- ignore | add = add
      have := (C19_apply_add true minSp g).1
      have hb : ensureForce true .ignore = ensureForce true .add := by simp [ensureForce, IARF.bor]
      simp only [gapOf, hb] at *
      omega
    · have := (C19_apply_add true minSp g).1
      omega
    · have : gapOf .remove true minSp g = max 1 minSp := by simp [gapOf, ensureForce, applySwitch, IARF.bor]
      omega
    · have := C19_apply_force true minSp g
      omega
  · simp [gapOf, ensureForce, applySwitch, IARF.bor]

/-- without the trailing-comment adjustment and on one line, the column given to `next` is the end of `pc` plus the gap -/
theorem C19_apply_column (av0 : IARF) (forced : Bool) (minSp : Nat) (g : SpGeom) (h0 : g.nlCount = 0)
    (hv : g.isVbraceOpen = false) :
    spaceApply av0 forced minSp g TrCmt.none = g.column + g.len + gapOf av0 forced minSp g := by
  have hc : g.colAfter = g.column + g.len := by simp [SpGeom.colAfter, h0]
  have hge : applySwitch (ensureForce forced av0) minSp g ≥ g.colAfter := by
    simp only [applySwitch, hv, Bool.false_and, Bool.false_eq_true, if_false]
    split <;> (try split) <;> omega
  simp only [spaceApply, trCmtAdjust, TrCmt.none, Bool.false_and, Bool.false_eq_true, if_false, gapOf]
  omega

/-- the trailing-comment adjustment (not in relative mode) can only move the comment to the right -/
theorem C19_trcmt_only_widens (t : TrCmt) (g : SpGeom) (column : Nat) (hr : t.relative = false) :
    trCmtAdjust t g column ≥ column := by
  simp only [trCmtAdjust, hr, Bool.false_eq_true, if_false]
  split
  · rename_i h
    simp only [Bool.and_eq_true, decide_eq_true_eq] at h
    split <;> split <;> omega
  · omega

/-- the same for the full applier when the trailing-comment adjustment is not in relative mode -/
theorem C19_space_apply_never_left (av0 : IARF) (forced : Bool) (minSp : Nat) (g : SpGeom) (t : TrCmt) (hr : t.relative = false) :
    spaceApply av0 forced minSp g t ≥ g.colAfter := by
  have h1 := C19_apply_never_left (ensureForce forced av0) minSp g
  have h2 := C19_trcmt_only_widens t g (applySwitch (ensureForce forced av0) minSp g) hr
  simp only [spaceApply]
  omega

-- non-vacuity: concrete pairs
example : gapOf .remove false 1 { column := 5, len := 3, nlCount := 0, origColEnd := 8, nextOrigCol := 10,
                                  isVbraceOpen := false, prevOrigCol := 0 } = 0 := by decide
example : gapOf .remove true 1 { column := 5, len := 3, nlCount := 0, origColEnd := 8, nextOrigCol := 8,
                                 isVbraceOpen := false, prevOrigCol := 0 } = 1 := by decide
example : gapOf .force false 4 { column := 5, len := 3, nlCount := 0, origColEnd := 8, nextOrigCol := 20,
                                 isVbraceOpen := false, prevOrigCol := 0 } = 4 := by decide
example : gapOf .add false 1 { column := 5, len := 3, nlCount := 0, origColEnd := 8, nextOrigCol := 11,
                               isVbraceOpen := false, prevOrigCol := 0 } = 3 := by decide
example : gapOf .ignore false 1 { column := 5, len := 3, nlCount := 0, origColEnd := 0, nextOrigCol := 11,
                                  isVbraceOpen := false, prevOrigCol := 0 } = 0 := by decide
example : spaceApply .add false 1 { column := 1, len := 1, nlCount := 0, origColEnd := 2, nextOrigCol := 9,
                                    isVbraceOpen := false, prevOrigCol := 0 }
            { applies := true, optsAllow := true, relative := false, nextOrigPrevSp := 7 } = 9 := by decide

/-! ## Part 3: a whole line -/

private theorem lineCols_ge (c0 : Nat) (ps : List PairIn) (hr : ∀ p ∈ ps, p.t.relative = false) :
    allGe c0 (lineCols c0 ps) = true ∧ mono (c0 :: lineCols c0 ps) = true := by
  induction ps generalizing c0 with
  | nil => simp [lineCols, allGe, mono]
  | cons p ps ih =>
    have hp : p.t.relative = false := hr p (by simp)
    have hstep : spaceApply p.av0 p.forced p.minSp (p.geom c0) p.t ≥ c0 + p.len := by
      have h := C19_space_apply_never_left p.av0 p.forced p.minSp (p.geom c0) p.t hp
      simpa [SpGeom.colAfter, PairIn.geom] using h
    have ih' := ih (spaceApply p.av0 p.forced p.minSp (p.geom c0) p.t) (fun q hq => hr q (by simp [hq]))
    have hmonoGe : ∀ (lo hi : Nat) (l : List Nat), lo ≤ hi → allGe hi l = true → allGe lo l = true := by
      intro lo hi l hle
      induction l with
      | nil => simp [allGe]
      | cons x xs ihx =>
        simp only [allGe, Bool.and_eq_true, decide_eq_true_eq]
        intro ⟨h1, h2⟩
        exact ⟨by omega, ihx h2⟩
    constructor
    · simp only [lineCols, allGe, Bool.and_eq_true, decide_eq_true_eq]
      exact ⟨by omega, hmonoGe _ _ _ (by omega) ih'.1⟩
    · simp only [lineCols, mono, Bool.and_eq_true, decide_eq_true_eq]
      exact ⟨by omega, ih'.2⟩

/-- **line_monotone**: along a line `space_text()` hands out non-decreasing columns, each at least the first chunk's column
    (trailing-comment adjustment not in relative mode), for every sequence of decisions, forced flags, minimum widths, token lengths
    and original columns -- virtual braces included since fix f9c391f -/
theorem C19_line_monotone (c0 : Nat) (ps : List PairIn) (hr : ∀ p ∈ ps, p.t.relative = false) :
    mono (c0 :: lineCols c0 ps) = true ∧ allGe c0 (lineCols c0 ps) = true :=
  ⟨(lineCols_ge c0 ps hr).2, (lineCols_ge c0 ps hr).1⟩

/-- **reindent cannot wrap on such a line**: when `reindent_line()` moves the first chunk of a line from `c0` to `newc ≥ 1` and
    shifts a following chunk whose column is `≥ c0` (previous theorem), the `size_t` sum `col + col_delta` does not wrap: the unguarded
    code computes what the guarded code computes, and the result is `≥ 1` -/
theorem C19_reindent_shift_exact (c0 newc col minCol : Nat) (hcol : col ≥ c0) (hn : newc ≥ 1) (hb : col + newc < W64) :
    shiftWrap col ((newc : Int) - (c0 : Int)) minCol = shiftGuarded col ((newc : Int) - (c0 : Int)) minCol ∧
    shiftWrap col ((newc : Int) - (c0 : Int)) minCol ≥ 1 := by
  have hW' : W64 = 18446744073709551616 := by decide
  have hsum : (col : Int) + ((newc : Int) - (c0 : Int)) ≥ 1 := by omega
  have hlt : (col : Int) + ((newc : Int) - (c0 : Int)) < (W64 : Int) := by
    have : ((col + newc : Nat) : Int) < (W64 : Int) := by exact_mod_cast hb
    omega
  have hmod : ((col : Int) + ((newc : Int) - (c0 : Int))) % (W64 : Int) = (col : Int) + ((newc : Int) - (c0 : Int)) :=
    Int.emod_eq_of_lt (by omega) hlt
  have hg : ((newc : Int) - (c0 : Int)) ≥ 0 ∨ (-((newc : Int) - (c0 : Int))).toNat < col := by omega
  constructor
  · simp only [shiftWrap, shiftGuarded, hmod, if_pos hg]
  · simp only [shiftWrap, hmod]
    omega

/-- before the fix the hypothesis `col ≥ c0` could fail (`C19_old_moves_left_witness`: `b` at column 1 behind a first chunk at column 3
    that `indent_text()` moves to column 1): the unguarded sum wraps to 2^64 - 1 -/
theorem C19_reindent_wrap_witness :
    shiftWrap 1 ((1 : Int) - 3) 7 = 18446744073709551615 ∧ shiftGuarded 1 ((1 : Int) - 3) 7 = 7 := by decide

end Unc
