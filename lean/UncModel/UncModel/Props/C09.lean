import UncModel.Lemmas.UnicodeLemmas
/-!
# C09 — text is never silently altered by the Unicode layer

Property theorems about the model of `src/unicode.cpp` (`UncModel/Unicode.lean`).
The predicates `BytesOK`, `CpsInt`, `IsScalar`, `Scalars` are defined in
`UncModel/Lemmas/UnicodeLemmas.lean`; all proofs are there too, this file only
states the properties and instantiates each of them on a concrete value.
-/

namespace Unc

/-! ## 1. UTF-8: decode ∘ encode = id -/

theorem C09_utf8_decode_encode (cps : List CP) (h : CpsInt cps) (ov : Bool) :
    decodeUtf8Body ov (cps.flatMap encodeUtf8) = some cps :=
  decodeUtf8Body_flatMap_encode ov cps h

example : decodeUtf8Body true ([0x41, 0x20AC, 0x1F600].flatMap encodeUtf8)
    = some [0x41, 0x20AC, 0x1F600] :=
  C09_utf8_decode_encode [0x41, 0x20AC, 0x1F600] (by unfold CpsInt; decide) true

/-! ## 2. UTF-8: encode ∘ decode = id (needs the overlong check) -/

theorem C09_utf8_encode_decode (bs : List Byte) (cps : List CP) (_hb : BytesOK bs)
    (h : decodeUtf8Body true bs = some cps) :
    cps.flatMap encodeUtf8 = bs :=
  flatMap_encode_of_decodeUtf8Body bs.length bs cps (Nat.le_refl _) h

example : ([0x41, 0x20AC, 0x1F600] : List CP).flatMap encodeUtf8
    = [0x41, 0xE2, 0x82, 0xAC, 0xF0, 0x9F, 0x98, 0x80] :=
  C09_utf8_encode_decode [0x41, 0xE2, 0x82, 0xAC, 0xF0, 0x9F, 0x98, 0x80] [0x41, 0x20AC, 0x1F600]
    (by unfold BytesOK; decide)
    (C09_utf8_decode_encode [0x41, 0x20AC, 0x1F600] (by unfold CpsInt; decide) true)

/-- without the overlong check (the historical behaviour) a file can decode and be written
    back with different bytes: `C1 81` is read as `A` and written as `41` -/
theorem C09_utf8_overlong_altered_without_check :
    ∃ (bs : List Byte) (cps : List CP),
      BytesOK bs ∧ decodeUtf8Body false bs = some cps ∧ cps.flatMap encodeUtf8 ≠ bs :=
  ⟨[0xC1, 0x81], [0x41], by unfold BytesOK; decide, decodeUtf8Body_overlong_example, by decide⟩

/-! ## 3. UTF-16: decode ∘ encode = id on scalar values -/

theorem C09_utf16_decode_encode (be : Bool) (cps : List CP) (h : Scalars cps) :
    decodeUtf16Body be (cps.flatMap (writeUtf16 be)) = some cps :=
  decodeUtf16Body_flatMap_write be cps h

example : decodeUtf16Body false ([0x41, 0x20AC, 0x1F600].flatMap (writeUtf16 false))
    = some [0x41, 0x20AC, 0x1F600] :=
  C09_utf16_decode_encode false [0x41, 0x20AC, 0x1F600] (by unfold Scalars IsScalar; decide)

/-! ## 4. UTF-16: encode ∘ decode = id, and only scalar values are produced -/

theorem C09_utf16_encode_decode (be : Bool) (bs : List Byte) (cps : List CP) (hb : BytesOK bs)
    (h : decodeUtf16Body be bs = some cps) :
    cps.flatMap (writeUtf16 be) = bs ∧ Scalars cps :=
  flatMap_write_of_decodeUtf16Body be bs.length bs cps (Nat.le_refl _) hb h

example : ([0x41, 0x20AC, 0x1F600] : List CP).flatMap (writeUtf16 true)
      = [0x00, 0x41, 0x20, 0xAC, 0xD8, 0x3D, 0xDE, 0x00] ∧ Scalars [0x41, 0x20AC, 0x1F600] :=
  C09_utf16_encode_decode true [0x00, 0x41, 0x20, 0xAC, 0xD8, 0x3D, 0xDE, 0x00]
    [0x41, 0x20AC, 0x1F600] (by unfold BytesOK; decide)
    (C09_utf16_decode_encode true [0x41, 0x20AC, 0x1F600] (by unfold Scalars IsScalar; decide))

/-! ## 5. UTF-16: lone surrogates are rejected -/

/-- a low surrogate where a character should start -/
theorem C09_utf16_rejects_lone_surrogate (be : Bool) (hi lo : Byte) (rest : List Byte)
    (h1 : 0xDC00 ≤ word be hi lo) (h2 : word be hi lo < 0xE000) :
    decodeUtf16Body be (hi :: lo :: rest) = none :=
  decodeUtf16Body_low_first be hi lo rest h1 h2

example : decodeUtf16Body true [0xDC, 0x00, 0x00, 0x41] = none :=
  C09_utf16_rejects_lone_surrogate true 0xDC 0x00 [0x00, 0x41] (by decide) (by decide)

/-- a high surrogate with less than one word after it -/
theorem C09_utf16_rejects_lone_high_at_end (be : Bool) (hi lo : Byte) (rest : List Byte)
    (h1 : 0xD800 ≤ word be hi lo) (h2 : word be hi lo < 0xDC00) (hr : rest.length < 2) :
    decodeUtf16Body be (hi :: lo :: rest) = none :=
  decodeUtf16Body_high_end be hi lo rest (by omega) hr

example : decodeUtf16Body false [0x3D, 0xD8] = none :=
  C09_utf16_rejects_lone_high_at_end false 0x3D 0xD8 [] (by decide) (by decide) (by decide)

/-- a high surrogate followed by a word that is not a low surrogate -/
theorem C09_utf16_rejects_lone_high_then_nonlow (be : Bool) (hi lo c0 c1 : Byte) (rest : List Byte)
    (h1 : 0xD800 ≤ word be hi lo) (h2 : word be hi lo < 0xDC00)
    (h3 : ¬ (0xDC00 ≤ word be c0 c1 ∧ word be c0 c1 < 0xE000)) :
    decodeUtf16Body be (hi :: lo :: c0 :: c1 :: rest) = none :=
  decodeUtf16Body_high_nonlow be hi lo c0 c1 rest (by omega) (by omega)

example : decodeUtf16Body false [0x3D, 0xD8, 0x41, 0x00] = none :=
  C09_utf16_rejects_lone_high_then_nonlow false 0x3D 0xD8 0x41 0x00 [] (by decide) (by decide)
    (by decide)

/-! ## 6. Identity rewrite: reading then writing with default options reproduces the bytes -/

theorem C09_identity_rewrite (bs : List Byte) (hb : BytesOK bs) (e : Enc) (bom : Bool)
    (cps : List CP) (h : decodeUnicode true bs = some (e, bom, cps)) :
    emit (encPolicy {} e bom).1 (encPolicy {} e bom).2 cps
      = (if (e = .utf16le ∨ e = .utf16be) ∧ bom = false then writeBom e else []) ++ bs :=
  identity_rewrite bs hb e bom cps h

example : emit (encPolicy {} .utf8 true).1 (encPolicy {} .utf8 true).2 [0x41, 0x20AC, 0x1F600]
    = [] ++ [0xEF, 0xBB, 0xBF, 0x41, 0xE2, 0x82, 0xAC, 0xF0, 0x9F, 0x98, 0x80] :=
  C09_identity_rewrite [0xEF, 0xBB, 0xBF, 0x41, 0xE2, 0x82, 0xAC, 0xF0, 0x9F, 0x98, 0x80]
    (by unfold BytesOK; decide) .utf8 true [0x41, 0x20AC, 0x1F600]
    (detect_utf8bom true [0x41, 0x20AC, 0x1F600] (by unfold CpsInt; decide))

/-! ## 7. The encoding / BOM policy table -/

theorem C09_bom_policy_table (o : EncOpts) (e : Enc) (bom : Bool) :
    (encPolicy o e bom).1 = (if o.utf8Force ∨ (e = .byte ∧ o.utf8Byte) then Enc.utf8 else e) ∧
    (encPolicy o e bom).2 =
      (match (encPolicy o e bom).1 with
       | .utf16le => true
       | .utf16be => true
       | .utf8 => (match o.utf8Bom with | .remove => false | .ignore => bom | _ => true)
       | _ => bom) :=
  bom_policy_table o e bom

example : encPolicy { utf8Bom := .remove, utf8Byte := true } .byte true = (.utf8, false) := by
  have h := C09_bom_policy_table { utf8Bom := .remove, utf8Byte := true } .byte true
  exact Prod.ext h.1 h.2

/-! ## 8. Detection round trips -/

/-- a. pure ASCII: bytes = code points -/
theorem C09_detect_roundtrip_ascii (ov : Bool) (cps : List CP)
    (hlt : ∀ c ∈ cps, c < 128) (h0 : ∀ c ∈ cps, c ≠ 0) :
    decodeUnicode ov cps = some (.ascii, false, cps) :=
  detect_ascii ov cps hlt h0

example : decodeUnicode true [0x69, 0x6E, 0x74, 0x0A] = some (.ascii, false, [0x69, 0x6E, 0x74, 0x0A]) :=
  C09_detect_roundtrip_ascii true [0x69, 0x6E, 0x74, 0x0A] (by decide) (by decide)

/-- b. UTF-8 with BOM -/
theorem C09_detect_roundtrip_utf8bom (ov : Bool) (cps : List CP) (hs : Scalars cps) :
    decodeUnicode ov ([0xef, 0xbb, 0xbf] ++ cps.flatMap encodeUtf8) = some (.utf8, true, cps) :=
  detect_utf8bom ov cps hs.cpsInt

example : decodeUnicode true ([0xef, 0xbb, 0xbf] ++ [0x41, 0x20AC, 0x1F600].flatMap encodeUtf8)
    = some (.utf8, true, [0x41, 0x20AC, 0x1F600]) :=
  C09_detect_roundtrip_utf8bom true [0x41, 0x20AC, 0x1F600] (by unfold Scalars IsScalar; decide)

/- c. UTF-8 without BOM.  The statement as requested,

     Scalars cps → (∀ c ∈ cps, c ≠ 0) → cps ≠ [] → (∃ c ∈ cps, 128 ≤ c) →
       decodeUnicode ov (cps.flatMap encodeUtf8) = some (.utf8, false, cps)

   is FALSE: if the text starts with U+FEFF its encoding starts with `EF BB BF`, which
   `decode_bom` takes for a BOM, so the result is `(.utf8, true, cps.tail)`.  The minimal extra
   hypothesis is `cps.head? ≠ some 0xFEFF`. -/
theorem C09_detect_roundtrip_utf8_partial (ov : Bool) (cps : List CP) (hs : Scalars cps)
    (h0 : ∀ c ∈ cps, c ≠ 0) (hna : ∃ c ∈ cps, 128 ≤ c) (hhead : cps.head? ≠ some 0xFEFF) :
    decodeUnicode ov (cps.flatMap encodeUtf8) = some (.utf8, false, cps) :=
  detect_utf8 ov cps hs.cpsInt h0 hna hhead

example : decodeUnicode true ([0x41, 0x20AC, 0x1F600].flatMap encodeUtf8)
    = some (.utf8, false, [0x41, 0x20AC, 0x1F600]) :=
  C09_detect_roundtrip_utf8_partial true [0x41, 0x20AC, 0x1F600]
    (by unfold Scalars IsScalar; decide) (by decide) ⟨0x20AC, by decide, by decide⟩ (by decide)

/-- what happens instead when the text starts with U+FEFF: it is consumed as a BOM -/
theorem C09_detect_utf8_leading_feff (ov : Bool) (cps : List CP) (hs : Scalars cps) :
    decodeUnicode ov ((0xFEFF :: cps).flatMap encodeUtf8) = some (.utf8, true, cps) :=
  detect_utf8_leading_feff ov cps hs.cpsInt

/-- the counterexample to the unrestricted statement c: `[U+FEFF, 'A']` satisfies all of its
    hypotheses but does not come back -/
theorem C09_detect_roundtrip_utf8_counterexample :
    Scalars [0xFEFF, 0x41] ∧ (∀ c ∈ [0xFEFF, 0x41], c ≠ 0) ∧ [0xFEFF, 0x41] ≠ ([] : List CP) ∧
    (∃ c ∈ [0xFEFF, 0x41], 128 ≤ c) ∧
    decodeUnicode true ([0xFEFF, 0x41].flatMap encodeUtf8) = some (.utf8, true, [0x41]) ∧
    decodeUnicode true ([0xFEFF, 0x41].flatMap encodeUtf8) ≠ some (.utf8, false, [0xFEFF, 0x41]) := by
  have hd := C09_detect_utf8_leading_feff true [0x41] (by unfold Scalars IsScalar; decide)
  refine ⟨by unfold Scalars IsScalar; decide, by decide, by decide, ⟨0xFEFF, by decide, by decide⟩,
    hd, ?_⟩
  rw [hd]; decide

/-- d. UTF-16 LE with BOM -/
theorem C09_detect_roundtrip_utf16le (ov : Bool) (cps : List CP) (hs : Scalars cps) :
    decodeUnicode ov (writeBom .utf16le ++ cps.flatMap (writeUtf16 false))
      = some (.utf16le, true, cps) :=
  detect_utf16le ov cps hs

example : decodeUnicode true (writeBom .utf16le ++ [0x41, 0x20AC, 0x1F600].flatMap (writeUtf16 false))
    = some (.utf16le, true, [0x41, 0x20AC, 0x1F600]) :=
  C09_detect_roundtrip_utf16le true [0x41, 0x20AC, 0x1F600] (by unfold Scalars IsScalar; decide)

/-- d. UTF-16 BE with BOM -/
theorem C09_detect_roundtrip_utf16be (ov : Bool) (cps : List CP) (hs : Scalars cps) :
    decodeUnicode ov (writeBom .utf16be ++ cps.flatMap (writeUtf16 true))
      = some (.utf16be, true, cps) :=
  detect_utf16be ov cps hs

example : decodeUnicode true (writeBom .utf16be ++ [0x41, 0x20AC, 0x1F600].flatMap (writeUtf16 true))
    = some (.utf16be, true, [0x41, 0x20AC, 0x1F600]) :=
  C09_detect_roundtrip_utf16be true [0x41, 0x20AC, 0x1F600] (by unfold Scalars IsScalar; decide)

/-- items a–d together, under the common hypotheses of item 8 (c with the extra hypothesis) -/
theorem C09_detect_roundtrip_partial (ov : Bool) (cps : List CP) (hs : Scalars cps)
    (h0 : ∀ c ∈ cps, c ≠ 0) (_hne : cps ≠ []) :
    ((∀ c ∈ cps, c < 128) → decodeUnicode ov cps = some (.ascii, false, cps)) ∧
    decodeUnicode ov ([0xef, 0xbb, 0xbf] ++ cps.flatMap encodeUtf8) = some (.utf8, true, cps) ∧
    ((∃ c ∈ cps, 128 ≤ c) → cps.head? ≠ some 0xFEFF →
      decodeUnicode ov (cps.flatMap encodeUtf8) = some (.utf8, false, cps)) ∧
    decodeUnicode ov (writeBom .utf16le ++ cps.flatMap (writeUtf16 false))
      = some (.utf16le, true, cps) ∧
    decodeUnicode ov (writeBom .utf16be ++ cps.flatMap (writeUtf16 true))
      = some (.utf16be, true, cps) :=
  ⟨fun hlt => C09_detect_roundtrip_ascii ov cps hlt h0,
   C09_detect_roundtrip_utf8bom ov cps hs,
   fun hna hhead => C09_detect_roundtrip_utf8_partial ov cps hs h0 hna hhead,
   C09_detect_roundtrip_utf16le ov cps hs,
   C09_detect_roundtrip_utf16be ov cps hs⟩

example : decodeUnicode false ([0xef, 0xbb, 0xbf] ++ [0xE9, 0x0A].flatMap encodeUtf8)
    = some (.utf8, true, [0xE9, 0x0A]) :=
  (C09_detect_roundtrip_partial false [0xE9, 0x0A] (by unfold Scalars IsScalar; decide) (by decide)
    (by decide)).2.1

/-! ## 9. Formatting commutes with transcoding -/

/-- the four on-disk forms of item 8 that carry a BOM or are UTF-8 -/
inductive FileEnc | utf8bom | utf8 | utf16le | utf16be
deriving DecidableEq, Repr

def encodeAs : FileEnc → List CP → List Byte
  | .utf8bom, cps => [0xef, 0xbb, 0xbf] ++ cps.flatMap encodeUtf8
  | .utf8, cps => cps.flatMap encodeUtf8
  | .utf16le, cps => writeBom .utf16le ++ cps.flatMap (writeUtf16 false)
  | .utf16be, cps => writeBom .utf16be ++ cps.flatMap (writeUtf16 true)

def encOf : FileEnc → Enc
  | .utf8bom => .utf8 | .utf8 => .utf8 | .utf16le => .utf16le | .utf16be => .utf16be

def bomOf : FileEnc → Bool
  | .utf8 => false | _ => true

/- The statement as requested (for `k = .utf8` only `∃ c ∈ cps, 128 ≤ c` extra) is FALSE for
   the same reason as 8c: counterexample `k = .utf8`, `cps = [0xFEFF, 0x41]`, for which
   `F` receives `[0x41]` and the writer is configured with `bom = true`.
   Extra hypothesis: `cps.head? ≠ some 0xFEFF` (only needed for `k = .utf8`). -/
theorem C09_commute_partial (ov : Bool) (o : EncOpts) (F : List CP → List CP) (k : FileEnc)
    (cps : List CP) (hs : Scalars cps) (hz : noEmbeddedZero cps = true)
    (hk : k = .utf8 → (∀ c ∈ cps, c ≠ 0) ∧ (∃ c ∈ cps, 128 ≤ c) ∧ cps.head? ≠ some 0xFEFF) :
    runBytes ov o F (encodeAs k cps)
      = some (emit (encPolicy o (encOf k) (bomOf k)).1 (encPolicy o (encOf k) (bomOf k)).2 (F cps)) := by
  have hd : decodeUnicode ov (encodeAs k cps) = some (encOf k, bomOf k, cps) := by
    cases k with
    | utf8bom => exact C09_detect_roundtrip_utf8bom ov cps hs
    | utf8 =>
      obtain ⟨h0, hna, hhead⟩ := hk rfl
      exact C09_detect_roundtrip_utf8_partial ov cps hs h0 hna hhead
    | utf16le => exact C09_detect_roundtrip_utf16le ov cps hs
    | utf16be => exact C09_detect_roundtrip_utf16be ov cps hs
  unfold runBytes
  rw [hd]
  simp only [hz, if_true]

example (F : List CP → List CP) :
    runBytes true { utf8Force := true } F (encodeAs .utf16le [0x41, 0x20AC, 0x1F600])
      = some (emit .utf8 true (F [0x41, 0x20AC, 0x1F600])) :=
  C09_commute_partial true { utf8Force := true } F .utf16le [0x41, 0x20AC, 0x1F600]
    (by unfold Scalars IsScalar; decide) (by decide) (fun h => by cases h)

example (F : List CP → List CP) :
    runBytes true {} F (encodeAs .utf8 [0x41, 0x20AC, 0x1F600])
      = some (emit .utf8 false (F [0x41, 0x20AC, 0x1F600])) :=
  C09_commute_partial true {} F .utf8 [0x41, 0x20AC, 0x1F600]
    (by unfold Scalars IsScalar; decide) (by decide)
    (fun _ => ⟨by decide, ⟨0x20AC, by decide, by decide⟩, by decide⟩)

/-- the counterexample to the unrestricted statement: the formatter is handed `[0x41]`, not
    `[0xFEFF, 0x41]`, and the output gets a BOM -/
theorem C09_commute_counterexample (F : List CP → List CP) :
    runBytes true {} F (encodeAs .utf8 [0xFEFF, 0x41]) = some (emit .utf8 true (F [0x41])) := by
  unfold runBytes
  show (match decodeUnicode true ([0xFEFF, 0x41].flatMap encodeUtf8) with
    | none => none
    | some (e, bom, cps) =>
      if noEmbeddedZero cps then some (emit (encPolicy {} e bom).1 (encPolicy {} e bom).2 (F cps))
      else none) = _
  rw [C09_detect_roundtrip_utf8_counterexample.2.2.2.2.1]
  rfl

/-- the ASCII case -/
theorem C09_commute_ascii (ov : Bool) (o : EncOpts) (F : List CP → List CP) (cps : List CP)
    (hlt : ∀ c ∈ cps, c < 128) (h0 : ∀ c ∈ cps, c ≠ 0) :
    runBytes ov o F cps
      = some (emit (encPolicy o .ascii false).1 (encPolicy o .ascii false).2 (F cps)) := by
  unfold runBytes
  rw [C09_detect_roundtrip_ascii ov cps hlt h0]
  simp only [noEmbeddedZero_of_ne_zero cps h0, if_true]

example (F : List CP → List CP) :
    runBytes true {} F [0x69, 0x6E, 0x74, 0x0A] = some (emit .ascii false (F [0x69, 0x6E, 0x74, 0x0A])) :=
  C09_commute_ascii true {} F [0x69, 0x6E, 0x74, 0x0A] (by decide) (by decide)

end Unc
