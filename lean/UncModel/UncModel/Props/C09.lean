import UncModel.Unicode
namespace Unc
theorem C09_placeholder : encodeUtf8 0x41 = [0x41] := by decide
end Unc
