import UncModel.Gen.ExitSites
import UncModel.Gen.TokLoops
import UncModel.TokCtx
import UncModel.Lemmas.WidthLemmas
import UncModel.ChunkWalk
import UncModel.Gen.ChunkWalks
/-!
# C06 — clean termination: the part an executable model can carry

* status discipline: every `exit(…)` in the sources and every `return(…)` of `main()` uses one of the documented
  statuses (decided over the table regenerated from the current source by `translators/t_exit.py`);
* the newline loop of `uncrustify_file()` (`cpd.pass_count = 3; do { … } while (changed && cpd.pass_count-- > 0)`)
  runs at most four times whatever the passes do.

Memory safety, undefined behaviour, signals and hangs in the unmodelled passes are explored, not proved
(DESIGN.md §6/C06, §10).
-/
namespace Unc

/-- the documented exit statuses: 0, 1 (EXIT_FAILURE), EX_USAGE, EX_NOINPUT, EX_NOUSER, EX_NOHOST, EX_SOFTWARE, EX_IOERR, EX_CONFIG -/
def documentedStatus (n : Nat) : Bool := n = 0 || n = 1 || n = 64 || n = 66 || n = 67 || n = 68 || n = 70 || n = 74 || n = 78

/-- non-constant status expressions and why they are harmless: `error` is the result of `redir_stdout()`, which
    returns only `EXIT_SUCCESS` (it exits with EX_IOERR itself on failure) -/
def statusExprOk (e : String) : Bool := e = "error"

def exitSiteOk (s : String × Nat × String × String × Option Nat) : Bool :=
  match s.2.2.2.2 with
  | some v => documentedStatus v
  | none => statusExprOk s.2.2.2.1

theorem C06_status_set : Gen.exitSites.all exitSiteOk = true := by decide +kernel

/-- the first do/while of `uncrustify_file()`: `changed k` tells whether iteration `k` changed anything -/
def nlLoopIters (changed : Nat → Bool) : Nat → Nat → Nat → Nat
  | 0, _, iters => iters                                   -- (fuel; never reached, see theorem)
  | f+1, pass, iters =>
    let iters := iters + 1                                 -- body runs
    if changed iters ∧ pass > 0 then nlLoopIters changed f (pass - 1) iters   -- `pass_count-- > 0`
    else iters

theorem C06_nl_loop_bounded (changed : Nat → Bool) : nlLoopIters changed 10 3 0 ≤ 4 := by
  simp only [nlLoopIters]
  repeat' split
  all_goals omega

example : nlLoopIters (fun _ => true) 10 3 0 = 4 := by decide
example : nlLoopIters (fun _ => false) 10 3 0 = 1 := by decide
example : Gen.exitSites.length > 100 := by decide +kernel

/-! ### the scanning loops of the tokenizer stop at the end of the data -/

theorem get_remaining (c : TokCtx) (h : c.more = true) : c.get.remaining + 1 = c.remaining := by
  simp only [TokCtx.more, decide_eq_true_eq] at h
  simp [TokCtx.get, TokCtx.more, h, TokCtx.remaining]; omega

theorem get_at_end (c : TokCtx) (h : c.more = false) : c.get = c ∧ c.peek = 0 := by
  simp [TokCtx.get, TokCtx.peek, h]

/-- a loop `while (p(ctx.peek())) ctx.get();` whose predicate is false for 0 ends after at most `remaining + 1` tests,
    on every input -/
theorem C06_scan_terminates (p : Nat → Bool) (hp : p 0 = false) (c : TokCtx) :
    ∃ c', scanWhile p (c.remaining + 1) c = some c' := by
  generalize hn : c.remaining = n
  induction n generalizing c with
  | zero =>
    have hm : c.more = false := by
      simp [TokCtx.more, TokCtx.remaining] at *; omega
    refine ⟨c, ?_⟩
    simp [scanWhile, (get_at_end c hm).2, hp]
  | succ n ih =>
    have hm : c.more = true := by
      simp [TokCtx.more, TokCtx.remaining] at *; omega
    simp only [scanWhile]
    by_cases hc : p c.peek = true
    · simp only [hc, if_true]
      have := get_remaining c hm
      exact ih c.get (by omega)
    · exact ⟨c, by simp [hc]⟩

/-- the same with `ctx.more() &&` in the condition, for every predicate -/
theorem C06_scan_more_terminates (p : Nat → Bool) (c : TokCtx) :
    ∃ c', scanWhileMore p (c.remaining + 1) c = some c' := by
  generalize hn : c.remaining = n
  induction n generalizing c with
  | zero =>
    have hm : c.more = false := by
      simp [TokCtx.more, TokCtx.remaining] at *; omega
    exact ⟨c, by simp [scanWhileMore, hm]⟩
  | succ n ih =>
    have hm : c.more = true := by
      simp [TokCtx.more, TokCtx.remaining] at *; omega
    simp only [scanWhileMore]
    by_cases hc : (c.more && p c.peek) = true
    · simp only [hc, if_true]
      have := get_remaining c hm
      exact ih c.get (by omega)
    · exact ⟨c, by simp [hc]⟩

/-- a predicate that holds for 0 never lets the loop leave the end of the data: no amount of fuel suffices -/
theorem C06_scan_diverges (p : Nat → Bool) (hp : p 0 = true) (c : TokCtx) (hm : c.more = false) (f : Nat) :
    scanWhile p f c = none := by
  induction f with
  | zero => rfl
  | succ f ih =>
    have h := get_at_end c hm
    simp [scanWhile, h.2, hp, h.1, ih]

/-- loops of tokenize.cpp that are neither guarded by `more()`, nor a counter, nor a `peek` test that is false for 0:
    (function, ordinal, condition) with the reason they stop.  `parse_pawn_pattern` does NOT stop (known finding of C06:
    a Pawn `#define X` at the end of the file hangs) and is listed so that nothing else can hide behind it. -/
def tokLoopExceptions : List (String × Nat × String) := [
  ("parse_comment", 0, "true"),                       -- scans for the end of a `//` comment; leaves by `break`/`return` when `!ctx.more()`
  ("parse_number", 9, "1"),                           -- suffix scan: leaves as soon as the upper-cased character is not a suffix letter (0 is not)
  ("parse_word", 1, "true"),                          -- Objective-C `@` word scan; leaves when `!ctx.more()`
  ("parse_attribute_specifier_sequence", 0, "ch1"),   -- ch1 = ctx.peek(offset), 0 past the end
  ("parse_attribute_specifier_sequence", 1, "ch2 == '' || ch2 == '' || ch2 == '' || ch2 == ''"),   -- blank skip over peek(offset), 0 past the end
  ("parse_off_newlines", 0, "parse_newline(ctx)"),    -- parse_newline consumes at least one character when it returns true
  ("find_disable_processing_comment_marker", 0, "idx > 0 && text[idx - 1] != ''"),                 -- index walks down a string
  ("find_enable_processing_comment_marker", 0, "idx < int(text.size()) && text[idx] != ''"),       -- index walks up to the size
  ("tokenize", 1, "(chunk.GetStr().size() > 0) && ( (chunk.GetStr()[chunk.GetStr().size() - 1] == '') || (chunk.GetStr()[chunk.GetStr().size() - 1] == ''))"),
                                                      -- strips trailing blanks of a chunk text: the text gets shorter
  ("parse_pawn_pattern", 0, "!unc_isspace(ctx.peek())")   -- KNOWN DEFECT: holds for 0, see C06_pawn_pattern_witness
]

def tokLoopOk (l : String × Nat × String × String × String × List String) : Bool :=
  let cls := l.2.2.2.2.1
  cls == "guarded" || cls == "counter" ||
  (cls == "peek" && l.2.2.2.2.2.all (fun a => atomAtZero a == some false)) ||
  tokLoopExceptions.contains (l.1, l.2.1, l.2.2.2.1)

/-- every loop of the tokenizer in the current source is guarded by `more()`, a counter, a `peek` test that is false at
    the end of the data (`C06_scan_terminates`), or one of the listed exceptions -/
theorem C06_tokenizer_loops_guarded : Gen.tokLoops.all tokLoopOk = true := by decide +kernel

/-- the Pawn pattern scanner tests `!unc_isspace(ctx.peek())`, true for 0: at the end of the data it never stops -/
theorem C06_pawn_pattern_witness :
    atomAtZero "not:unc_isspace" = some true ∧
    ∀ f, scanWhile (fun ch => !isSpaceC ch) f { data := [35, 100], idx := 2 } = none :=
  ⟨by decide, fun f => C06_scan_diverges _ (by decide) _ (by decide) f⟩

example : (scanWhile isDecC 4 { data := [49, 50, 59], idx := 0 }).map (·.idx) = some 2 := by decide
example : Gen.tokLoops.length > 50 := by decide +kernel

/-! ### the code_width loop of `uncrustify_file()` ends -/


/-- **the code_width loop is bounded**: whatever `split_line()` asks for in whatever iteration, the loop body runs at most
    (number of gaps without a line break + number of chunks still flagged as one-liner) + 1 times -/
theorem C06_width_loop_bounded (req : Nat → List Bool → List (List Nat)) (g : List Bool) (k : Nat) :
    ∃ n g', Width.loop Width.passFixed req (Width.free g + 1) k g = some (n, g') ∧ n ≤ k + Width.free g + 1 := by
  generalize hm : Width.free g = m
  induction m using Nat.strongRecOn generalizing g k with
  | _ m ih =>
    simp only [Width.loop]
    split
    · exact ⟨k + 1, _, rfl, by omega⟩
    · rename_i hne
      have hf := Width.passFixed_free g (req k g)
      have hlt : Width.free (Width.passFixed g (req k g)).1 < m := by omega
      obtain ⟨n, g', h1, h2⟩ := ih _ hlt (Width.passFixed g (req k g)).1 (k + 1) rfl
      have hfuel : ∀ (f1 f2 : Nat) (kk : Nat) (gg : List Bool) (r : Nat × List Bool),
          f1 ≤ f2 → Width.loop Width.passFixed req f1 kk gg = some r → Width.loop Width.passFixed req f2 kk gg = some r := by
        intro f1
        induction f1 with
        | zero => intro f2 kk gg r _ h; simp [Width.loop] at h
        | succ f1 ihf =>
          intro f2 kk gg r hle h
          cases f2 with
          | zero => omega
          | succ f2 =>
            simp only [Width.loop] at h ⊢
            split
            · rename_i h0; simp only [h0, if_true] at h; exact h
            · rename_i h0; simp only [h0, if_false] at h; exact ihf f2 _ _ r (by omega) h
      exact ⟨n, g', hfuel _ _ _ _ _ (by omega) h1, by omega⟩

/-- before fix b70bece: one gap that has its break in front of a virtual brace, asked for again in every iteration (the token behind
    it lies beyond code_width and cannot be moved): a change is counted every time, the state never changes, the loop never ends -/
theorem C06_width_loop_old_diverges (fuel k : Nat) :
    Width.loop (Width.passOld (fun _ => true)) (fun _ _ => [[0]]) fuel k [true] = none := by
  induction fuel generalizing k with
  | zero => rfl
  | succ f ih =>
    simp only [Width.loop, Width.passOld, Width.effective, Width.used, List.any_cons, List.any_nil]
    simpa using ih (k + 1)

/-- the same requests end the fixed loop after one iteration; a loop that uses up one slot per iteration runs `free + 1` times -/
example : Width.loop Width.passFixed (fun _ _ => [[0]]) 2 0 [true] = some (1, [true]) := by decide
example : Width.loop Width.passFixed (fun k _ => [[2 * k]]) 4 0 [false, true, false] = some (3, [true, true, true]) := by decide
example : Width.loop Width.passFixed (fun _ _ => [[0, 2], [0]]) 4 0 [false, true, false] = some (2, [true, true, true]) := by decide

/-! ### walks along the chunk list end at the null chunk -/

/-- a walk whose condition is false on the null chunk runs its body at most once per remaining chunk, on every chunk list -/
theorem C06_walk_terminates {α : Type} (cond : Option α → Bool) (h0 : cond none = false) (rest : List α) :
    ∃ n, Walk.steps cond (rest.length + 1) rest = some n ∧ n ≤ rest.length := by
  induction rest with
  | nil => exact ⟨0, by simp [Walk.steps, h0], Nat.le_refl _⟩
  | cons c rest ih =>
    obtain ⟨n, hn, hle⟩ := ih
    by_cases hc : cond (some c) = true
    · refine ⟨n + 1, ?_, by simp; omega⟩
      simp only [List.length_cons, Walk.steps, hc, if_true]
      rw [hn]; rfl
    · exact ⟨0, by simp [Walk.steps, hc], by simp⟩

/-- a walk whose condition holds on the null chunk (only negative tests such as `pc->IsNot(CT_SEMICOLON)`) and on every chunk that is
    left never ends: whatever the fuel -/
theorem C06_walk_diverges {α : Type} (cond : Option α → Bool) (h0 : cond none = true) (rest : List α)
    (hr : ∀ c ∈ rest, cond (some c) = true) (fuel : Nat) : Walk.steps cond fuel rest = none := by
  induction fuel generalizing rest with
  | zero => rfl
  | succ f ih =>
    cases rest with
    | nil => simp [Walk.steps, h0, ih [] (by simp)]
    | cons c rest =>
      have hc : cond (some c) = true := hr c (by simp)
      simp [Walk.steps, hc, ih rest (fun x hx => hr x (by simp [hx]))]

def chunkWalkOk (w : String × String × String × String × String) : Bool :=
  w.2.2.2.2 == "guarded" || w.2.2.2.2 == "body-exit" || w.2.2.2.2 == "counted" || w.2.2.2.2 == "until-chunk" || w.2.2.2.2 == "cond-free" ||
  Gen.chunkWalkExceptions.any fun e => e.1 == w.1 && e.2.1 == w.2.1 && e.2.2.1 == w.2.2.1 && e.2.2.2.1 == w.2.2.2.1

set_option maxRecDepth 200000 in
/-- every loop of src/**/*.cpp that advances a chunk variable (table regenerated on every run) has a condition with a conjunct that
    is false on the null chunk (`guarded`: the hypothesis of `C06_walk_terminates`), leaves the loop when it meets the null chunk
    (`body-exit`), is bounded by a counter, ends at another chunk that lies ahead (`until-chunk`), does not depend on the walk variable
    (`cond-free`: an enclosing or other bound), or is one of the committed, individually justified exceptions -/
theorem C06_chunk_walks_guarded : Gen.chunkWalks.all chunkWalkOk = true := by decide +kernel

set_option maxRecDepth 200000 in
example : Gen.chunkWalks.length > 300 := by decide +kernel

/-- before the fixes 6b58563 … 703c4db: `while (pc->IsNot(CT_SEMICOLON)) pc = pc->GetNext();` on a rest without a semicolon -/
example : Walk.steps (fun c : Option Nat => c != some 59) 40 [1, 2, 3] = none := by decide
example : Walk.steps (fun c : Option Nat => c != none && c != some 59) 5 [1, 2, 3] = some 3 := by decide

end Unc
