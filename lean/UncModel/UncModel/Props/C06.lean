import UncModel.Gen.ExitSites
/-!
# C06 — clean termination: the part an executable model can carry

* status discipline: every `exit(…)` in the sources and every `return(…)` of `main()` uses one of the documented
  statuses (decided over the table regenerated from the current source by `translators/t_exit.py`);
* the newline loop of `uncrustify_file()` (`cpd.pass_count = 3; do { … } while (changed && cpd.pass_count-- > 0)`)
  runs at most four times whatever the passes do.

Memory safety, undefined behaviour, signals and hangs in the unmodelled passes are explored, not proved
(DESIGN.md §6/C06, §10).
-/
namespace Unc

/-- the documented exit statuses: 0, 1 (EXIT_FAILURE), EX_USAGE, EX_NOINPUT, EX_NOUSER, EX_NOHOST, EX_SOFTWARE, EX_IOERR, EX_CONFIG -/
def documentedStatus (n : Nat) : Bool := n = 0 || n = 1 || n = 64 || n = 66 || n = 67 || n = 68 || n = 70 || n = 74 || n = 78

/-- non-constant status expressions and why they are harmless: `error` is the result of `redir_stdout()`, which
    returns only `EXIT_SUCCESS` (it exits with EX_IOERR itself on failure) -/
def statusExprOk (e : String) : Bool := e = "error"

def exitSiteOk (s : String × Nat × String × String × Option Nat) : Bool :=
  match s.2.2.2.2 with
  | some v => documentedStatus v
  | none => statusExprOk s.2.2.2.1

theorem C06_status_set : Gen.exitSites.all exitSiteOk = true := by decide +kernel

/-- the first do/while of `uncrustify_file()`: `changed k` tells whether iteration `k` changed anything -/
def nlLoopIters (changed : Nat → Bool) : Nat → Nat → Nat → Nat
  | 0, _, iters => iters                                   -- (fuel; never reached, see theorem)
  | f+1, pass, iters =>
    let iters := iters + 1                                 -- body runs
    if changed iters ∧ pass > 0 then nlLoopIters changed f (pass - 1) iters   -- `pass_count-- > 0`
    else iters

theorem C06_nl_loop_bounded (changed : Nat → Bool) : nlLoopIters changed 10 3 0 ≤ 4 := by
  simp only [nlLoopIters]
  repeat' split
  all_goals omega

example : nlLoopIters (fun _ => true) 10 3 0 = 4 := by decide
example : nlLoopIters (fun _ => false) 10 3 0 = 1 := by decide
example : Gen.exitSites.length > 100 := by decide +kernel

end Unc
