import UncModel.Lemmas.BackupLemmas
/-!
# C14 — the backup always holds the last text uncrustify did not write itself

Model: `UncModel/Backup.lean` over `UncModel/FsProto.lean`.  `F cfg` is an arbitrary formatter per
configuration (it may be the identity: a run that changes nothing), `h` the md5-file content as a
function of the bytes it describes, assumed collision-free on the contents that occur in the
history (`InjOn h (occurring …)`; MD5 collisions are outside the claim, `md5.cpp` itself is checked
against `md5sum` by `props/c14.py`).  The fixed code is `Fix.fixed` (fs-1 patch: digest taken after
the rename); `⟨false, _⟩` is the statement order of the unchanged code.
-/
namespace Unc

/-- After every history of user edits and complete `--replace` runs (any configurations, no-op
    runs included) the implementation agrees with the reference model of the protocol:
    the backup holds `g` — the content the file had before the earliest run since the last user
    edit — and the md5 file describes the content uncrustify last left in the file. -/
theorem C14_backup_invariant (F : Nat → FBytes → FBytes) (h : FBytes → FBytes) :
    ∀ (ops : List HistOp) (s : FS) (sp : Spec), BackupInv h s sp → InjOn h (occurring F sp ops) →
      BackupInv h (runHist Fix.fixed F h s ops) (specHist F sp ops) := by
  intro ops
  induction ops with
  | nil => intro s sp hinv _; exact hinv
  | cons op ops ih =>
    intro s sp hinv hi
    exact ih _ _ (inv_step F h s sp op hinv (injOn_head hi)) (injOn_tail hi)

/-- the same, starting from a file uncrustify never touched -/
theorem C14_backup_invariant_fresh (F : Nat → FBytes → FBytes) (h : FBytes → FBytes) (c : FBytes) (ops : List HistOp)
    (hi : InjOn h (occurring F (Spec.fresh c) ops)) :
    BackupInv h (runHist Fix.fixed F h (FS.fresh c) ops) (specHist F (Spec.fresh c) ops) :=
  C14_backup_invariant F h ops _ _ ⟨rfl, rfl, rfl⟩ hi

/-- non-vacuity: edit, run A, run B, run A, edit, no-op run — the backup first holds `[1]`, the text
    of the first edit, through three runs, then `[5]` -/
example : specHist (fun cfg c => if cfg = 2 then c else cfg :: c) (Spec.fresh [1])
      [.run 0, .run 1, .run 0] = ⟨[0, 1, 0, 1], some [1], some [0, 1, 0, 1]⟩
    ∧ (runHist Fix.fixed (fun cfg c => if cfg = 2 then c else cfg :: c) id (FS.fresh [1])
      [.run 0, .run 1, .run 0, .userWrite [5], .run 2]) = ⟨some [5], none, some [5], some [5]⟩ := by
  decide

/-- Running uncrustify again never overwrites the backup: a run that directly follows a run leaves
    the backup file exactly as it was (equal or different configurations, no-op runs). -/
theorem C14_run_run_keeps_backup (F : Nat → FBytes → FBytes) (h : FBytes → FBytes) (ops : List HistOp) (a b : Nat)
    (s : FS) (sp : Spec) (hinv : BackupInv h s sp)
    (hi : InjOn h (occurring F sp (ops ++ [.run a, .run b]))) :
    (runHist Fix.fixed F h s (ops ++ [.run a, .run b])).bak = (runHist Fix.fixed F h s (ops ++ [.run a])).bak := by
  have h2 := C14_backup_invariant F h (ops ++ [.run a, .run b]) s sp hinv hi
  have hi1 : InjOn h (occurring F sp (ops ++ [.run a])) := by
    intro x y hx hy hxy
    have sub : ∀ z, z ∈ occurring F sp (ops ++ [.run a]) → z ∈ occurring F sp (ops ++ [.run a, .run b]) := by
      intro z
      clear hi h2 hx hy hxy hinv
      induction ops generalizing sp with
      | nil => simp [occurring]; intro hz; rcases hz with hz | hz | hz | hz <;> simp [hz]
      | cons op ops ih =>
        simp only [List.cons_append, occurring, List.mem_cons, List.mem_append]
        intro hz
        rcases hz with hz | hz | hz
        · exact Or.inl hz
        · exact Or.inr (Or.inl hz)
        · exact Or.inr (Or.inr (ih _ hz))
    exact hi x y (sub x hx) (sub y hy) hxy
  have h1 := C14_backup_invariant F h (ops ++ [.run a]) s sp hinv hi1
  rw [h2.2.1, h1.2.1]
  simp [specHist, List.foldl_append, Spec.step]

/-- non-vacuity: the hypotheses hold for `h = id`, a formatter that changes something, and the fresh state -/
example : BackupInv id (FS.fresh [1]) (Spec.fresh [1])
    ∧ InjOn id (occurring (fun cfg c => cfg :: c) (Spec.fresh [1]) ([.userWrite [4]] ++ [.run 0, .run 1]))
    ∧ (runHist Fix.fixed (fun cfg c => cfg :: c) id (FS.fresh [1]) ([.userWrite [4]] ++ [.run 0, .run 1])).bak = some [4] :=
  ⟨⟨rfl, rfl, rfl⟩, fun _ _ _ _ hab => hab, by decide⟩

/-- The unchanged code (digest taken BEFORE the rename, i.e. of the original): the history
    `[UserWrite u, Run A, Run A]` leaves uncrustify's own output in the backup; the user's text `u`
    is gone.  (`u = [1]`, `A` prepends a `0` unless already there, `h = id`.) -/
theorem C14_backup_overwritten_witness_before_fix :
    ∃ (F : Nat → FBytes → FBytes) (h : FBytes → FBytes) (u : FBytes),
      (∀ a b, h a = h b → a = b) ∧ F 0 (F 0 u) = F 0 u ∧
      (runHist ⟨false, true⟩ F h (FS.fresh [9]) [.userWrite u, .run 0, .run 0]).bak = some (F 0 u) ∧
      F 0 u ≠ u ∧
      (specHist F (Spec.fresh [9]) [.userWrite u, .run 0, .run 0]).g = some u :=
  ⟨fun _ c => if c.head? = some 0 then c else 0 :: c, id, [1], fun _ _ hab => hab, by decide, by decide, by decide,
    by decide⟩

/-- Histories with runs killed at any point outside the two crash windows (the backup file is
    being rewritten; the target has been renamed but the md5 file not yet completely written):
    the invariant holds after every step, where a run killed before the backup counts as not
    having happened and a run killed after the backup as having made its backup only.

    PARTIAL: the full statement ("for a run killed at ANY file operation") is false — see the two
    witnesses below; the protocol keeps its state in two/three files that cannot be updated
    atomically. -/
theorem C14_crash_partial (F : Nat → FBytes → FBytes) (h : FBytes → FBytes) :
    ∀ (ops : List KOp) (s s' : FS) (sp : Spec), BackupInv h s sp → InjOn h (koccurring F sp ops) →
      KRun Fix.fixed F h s ops s' → BackupInv h s' (kspecHist F sp ops) := by
  intro ops
  induction ops with
  | nil => intro s s' sp hinv _ hr; simp only [KRun] at hr; subst hr; exact hinv
  | cons op ops ih =>
    intro s s' sp hinv hi hr
    obtain ⟨s1, hs, hr⟩ := hr
    exact ih s1 s' _ (kinv_step F h s s1 sp op hinv (kinjOn_head hi) hs) (kinjOn_tail hi) hr

/-- every crash point is classified: a safe point of one of the two kinds, inside one of the two
    windows, or after the last call (a complete run) -/
theorem C14_crash_points_classified (cs : List Sys) :
    (early cs ∧ Sys.creat .bak ∉ cs) ∨ (early cs ∧ ∃ bs, Sys.write .bak bs ∈ cs)
    ∨ inBackupWindow cs ∨ inMd5Window cs ∨ ∃ bs, Sys.write .md5 bs ∈ cs := by
  by_cases h1 : Sys.rename .tmp .target ∈ cs ∨ Sys.creat .md5 ∈ cs
  · by_cases h2 : ∃ bs, Sys.write .md5 bs ∈ cs
    · exact Or.inr (Or.inr (Or.inr (Or.inr h2)))
    · exact Or.inr (Or.inr (Or.inr (Or.inl ⟨h1, fun bs hb => h2 ⟨bs, hb⟩⟩)))
  · have he : early cs := ⟨fun hh => h1 (Or.inl hh), fun hh => h1 (Or.inr hh)⟩
    by_cases h3 : Sys.creat .bak ∈ cs
    · by_cases h4 : ∃ bs, Sys.write .bak bs ∈ cs
      · exact Or.inr (Or.inl ⟨he, h4⟩)
      · exact Or.inr (Or.inr (Or.inl ⟨h3, fun bs hb => h4 ⟨bs, hb⟩⟩))
    · exact Or.inl ⟨he, h3⟩

/-- non-vacuity of the kill steps: a run killed during the write of the temp file (torn after one
    byte), after the backup was made -/
example : KStep Fix.fixed (fun _ c => 0 :: c) id (FS.fresh [1]) (.runKilledAfterBackup 0)
    ⟨some [1], some [0], some [1], none⟩ := by
  refine ⟨[.creat .bak, .write .bak [1], .creat .tmp], ?_, by simp [early], ⟨[1], by simp⟩⟩
  simp [runProg, doSourceFile, restPart, backupPart, fmtPart, finishPart, md5Part, Fix.fixed, FsMode.backup, CrashAt,
    torn, FS.get, FS.set, step, FS.fresh]
  exact ⟨1, rfl⟩

/-- Crash window 1 (fixed code): `[UserWrite u, Run A, Run B killed right after the rename, Run B]`.
    The kill leaves B's output in the file while the md5 file still describes A's output, so the
    next run takes the file for a user edit and overwrites the backup: `u` is lost. -/
theorem C14_crash_window_witness :
    ∃ (F : Nat → FBytes → FBytes) (h : FBytes → FBytes) (u : FBytes) (s1 s2 : FS) (cs : List Sys),
      (∀ a b, h a = h b → a = b) ∧
      s1 = runHist Fix.fixed F h (FS.fresh u) [.run 0] ∧
      CrashAt s1 [] (runProg Fix.fixed F h 1) (s2, cs) ∧ inMd5Window cs ∧
      (runHist Fix.fixed F h s2 [.run 1]).bak ≠ some u ∧ (runHist Fix.fixed F h s2 [.run 1]).target ≠ some u := by
  refine ⟨fun cfg c => if c.head? = some cfg then c else cfg :: c, id, [7], _, ⟨some [1, 0, 7], none, some [7], some [0, 7]⟩,
    [.creat .tmp, .write .tmp [1, 0, 7], .rename .tmp .target], fun _ _ hab => hab, rfl, ?_, ?_, by decide, by decide⟩
  · simp [runProg, doSourceFile, restPart, backupPart, fmtPart, finishPart, md5Part, Fix.fixed, FsMode.backup, CrashAt,
      torn, FS.get, FS.set, step, FS.fresh, runHist, applyOp, exec, execFrom, Result.push, Result.fs]
  · exact ⟨Or.inl (by simp), by intro bs; simp⟩

/-- Crash window 2 (fixed code): `[UserWrite u, Run A, UserWrite x, Run A killed between truncating
    and writing the backup]` leaves an EMPTY backup: the old backup `u` is destroyed, the new one
    (`x`) not yet there.  (The file itself still holds `x`.) -/
theorem C14_torn_backup_witness :
    ∃ (F : Nat → FBytes → FBytes) (h : FBytes → FBytes) (u x : FBytes) (s1 s2 : FS) (cs : List Sys),
      (∀ a b, h a = h b → a = b) ∧
      s1 = runHist Fix.fixed F h (FS.fresh u) [.run 0, .userWrite x] ∧
      CrashAt s1 [] (runProg Fix.fixed F h 0) (s2, cs) ∧ inBackupWindow cs ∧
      s1.bak = some u ∧ s2.bak = some [] ∧ s2.target = some x := by
  refine ⟨fun cfg c => if c.head? = some cfg then c else cfg :: c, id, [7], [8], _, ⟨some [8], none, some [], some [0, 7]⟩,
    [.creat .bak], fun _ _ hab => hab, rfl, ?_, ⟨by simp, by intro bs; simp⟩, by decide, rfl, rfl⟩
  simp [runProg, doSourceFile, restPart, backupPart, fmtPart, finishPart, md5Part, Fix.fixed, FsMode.backup, CrashAt,
    torn, FS.get, FS.set, step, FS.fresh, runHist, applyOp, exec, execFrom, Result.push, Result.fs]

end Unc
