import UncModel.Lemmas.ConfigSaveLemmas
import UncModel.Lemmas.ConfigRefLemmas
import UncModel.Lemmas.ConfigIdemLemmas
/-!
# C15 — configuration round-trips

Model: `UncModel/Config.lean` (tree with the fix patches `fixes/c15-*.patch`, `fixes/c16-*.patch`);
tables: `Gen/*.lean`, regenerated from the sources by every check run.
All theorems quantify over the WHOLE generated registry (`optionTable[i]? = some d`); the facts about the
registry they rest on are decided over the whole table in `Lemmas/ConfigTableFacts*.lean`.
-/
namespace Unc
open Gen

/-- `convert_string(to_string(v)) = v` for every enumerator of the four enum kinds -/
theorem C15_enum_str_roundtrip (k : OKind) (hk : k = .bool ∨ k = .iarf ∨ k = .lineend ∨ k = .tokenpos)
    (x : Nat) (nm : Bytes) (h : (namesOf k).lookup x = some nm) :
    convertString (spellingsOf k) nm = some x :=
  (convert_name k (enumTableOK_of_kind k hk) x nm h).1

example : (namesOf .tokenpos).lookup 9 = some (B "trail_break") ∧
    convertString (spellingsOf .tokenpos) (B "trail_break") = some 9 := by decide +kernel

/-- `strtol(to_string(n))` gives back `n` and consumes the whole text, for every `long` -/
theorem C15_number_roundtrip (v : Int) (h1 : LONG_MIN ≤ v) (h2 : v ≤ LONG_MAX) : strtol (intDec v) = (v, []) :=
  strtol_intDec v h1 h2

example : strtol (intDec (-1000)) = (-1000, []) := by decide +kernel

/-- For every option `d` of the registry and every admissible value `v`: the line that
    `save_option_file` writes for (`d`, `v`), given to `process_option_line` in ANY state, sets that option to `v`
    and changes nothing else — no other option, no keyword, no extension, no diagnostic; whatever the
    compatibility level and the current file are. -/
theorem C15_save_load_value {i : Nat} {d : OptDecl} (h : optionTable[i]? = some d) (v : Val)
    (hv : admissible d v = true) (incl : Option (Bytes → Int → St → St)) (fname : Bytes) (compat : Int) (st : St) :
    processLine incl fname compat st (saveLine d v) = (st.setOpt i v, compat) :=
  processLine_saveLine h v hv incl fname compat st

-- non-vacuity: a string option with quote, backslash, '#', '=' and blank in its value
example : (optionTable.zipIdx.any fun p => p.1.kind == .string && admissible p.1 (.s (B "a\\b\"c #d=e")) &&
    processLine none (B "x.cfg") 0 {} (saveLine p.1 (.s (B "a\\b\"c #d=e")))
      == (({} : St).setOpt p.2 (.s (B "a\\b\"c #d=e")), 0)) = true := by decide +kernel

/-- Equivalent spellings.  A line `NAME<separators>VALUE` where NAME is the option name in any letter case,
    the separators are any non-empty mix of blanks, `,` and `=`, and VALUE is written plainly or quoted with
    escapes, is handled exactly like the reader of that option applied to the value: the result does not
    depend on the spelling. -/
theorem C15_spellings_equiv {i : Nat} {d : OptDecl} (h : optionTable[i]? = some d)
    (nm seps txt w : Bytes) (hlow : toLowerS nm = d.name) (hne : nm ≠ []) (hp : ∀ c ∈ nm, plainCh c = true)
    (hs1 : seps ≠ []) (hs : ∀ c ∈ seps, isArgSep c = true) (hr : Renders txt w)
    (incl : Option (Bytes → Int → St → St)) (fname : Bytes) (compat : Int) (st : St) :
    processLine incl fname compat st (nm ++ seps ++ txt) = ((readOption st i (cstr w)).1, compat) :=
  processLine_option h incl fname compat st _ nm w [] (splitArgs_name_value nm seps txt w hne hp hs1 hs hr) hlow

/-- … in particular `name=value`, `NAME value`, `Name , "value"` load to the same state -/
theorem C15_spellings_equiv_pair {i : Nat} {d : OptDecl} (h : optionTable[i]? = some d)
    (nm₁ nm₂ seps₁ seps₂ txt₁ txt₂ w : Bytes)
    (hlow₁ : toLowerS nm₁ = d.name) (hne₁ : nm₁ ≠ []) (hp₁ : ∀ c ∈ nm₁, plainCh c = true)
    (hlow₂ : toLowerS nm₂ = d.name) (hne₂ : nm₂ ≠ []) (hp₂ : ∀ c ∈ nm₂, plainCh c = true)
    (hs₁ : seps₁ ≠ [] ∧ ∀ c ∈ seps₁, isArgSep c = true) (hs₂ : seps₂ ≠ [] ∧ ∀ c ∈ seps₂, isArgSep c = true)
    (hr₁ : Renders txt₁ w) (hr₂ : Renders txt₂ w)
    (incl : Option (Bytes → Int → St → St)) (fname : Bytes) (compat : Int) (st : St) :
    processLine incl fname compat st (nm₁ ++ seps₁ ++ txt₁) = processLine incl fname compat st (nm₂ ++ seps₂ ++ txt₂) := by
  rw [C15_spellings_equiv h nm₁ seps₁ txt₁ w hlow₁ hne₁ hp₁ hs₁.1 hs₁.2 hr₁,
    C15_spellings_equiv h nm₂ seps₂ txt₂ w hlow₂ hne₂ hp₂ hs₂.1 hs₂.2 hr₂]

example : processLine none (B "x.cfg") 0 {} (B "indent_columns=4")
    = processLine none (B "x.cfg") 0 {} (B "Indent_COLUMNS , \"4\"") := by decide +kernel

/-- A reference: the name of another option of the same enum type as value reads that option's CURRENT value. -/
theorem C15_reference_enum {i j : Nat} {d e : OptDecl} (hi : optionTable[i]? = some d) (hj : optionTable[j]? = some e)
    (hk : d.kind = e.kind) (hkind : d.kind = .iarf ∨ d.kind = .lineend ∨ d.kind = .tokenpos) (st : St) :
    readOption st i e.name = (st.setOpt i (getV st.vals j), true) := by
  have hki := kindOf_get hi
  have hkj := kindOf_get hj
  have hc := convertString_name_none hj d.kind (Or.inr hkind)
  have hfo := findOption_name hj
  unfold readOption
  rw [hki]
  rcases hkind with h | h | h <;> simp [h, readEnum, hki, hkj, ← hk, hfo] <;> simp [h] at hc <;> simp [hc]

/-- … for bool options, optionally inverted by a leading `~`, `!` or `-` -/
theorem C15_reference_bool {i j : Nat} {d e : OptDecl} (hi : optionTable[i]? = some d) (hj : optionTable[j]? = some e)
    (hd : d.kind = .bool) (he : e.kind = .bool) (st : St) :
    readOption st i e.name = (st.setOpt i (.b (boolOfVal (getV st.vals j))), true) ∧
    ∀ c, c = 126 ∨ c = 33 ∨ c = 45 →
      convertString boolSpellings (c :: e.name) = none →
      readOption st i (c :: e.name) = (st.setOpt i (.b (!boolOfVal (getV st.vals j))), true) := by
  have hki := kindOf_get hi
  have hkj := kindOf_get hj
  have hc : convertString boolSpellings e.name = none := convertString_name_none hj .bool (Or.inl rfl)
  have hfo := findOption_name hj
  have hf := rowFacts hj
  constructor
  · unfold readOption
    rw [hki, hd]
    unfold readBool
    rw [hc]
    simp only []
    cases hn : e.name with
    | nil => exact absurd hn hf.nameNe
    | cons c cs =>
      have hfl := hf.firstLetter
      rw [hn] at hfl
      simp only [List.head?_cons, Option.all_some, Bool.and_eq_true, decide_eq_true_eq] at hfl
      have : (c == 126 || c == 33 || c == 45) = false := by simp; omega
      simp only [this, Bool.false_eq_true, ↓reduceIte]
      rw [← hn, hfo]
      simp [hkj, he]
  · intro c hcs hconv
    unfold readOption
    rw [hki, hd]
    unfold readBool
    rw [hconv]
    simp only []
    have : (c == 126 || c == 33 || c == 45) = true := by rcases hcs with h | h | h <;> simp [h]
    simp [this, hfo, hkj, he]

/-- … for numeric options (signed or unsigned, optionally negated by a leading `-`): the referenced value is
    validated against the bounds of the option being set -/
theorem C15_reference_num {i j : Nat} {d e : OptDecl} (hi : optionTable[i]? = some d) (hj : optionTable[j]? = some e)
    (hd : d.kind = .num ∨ d.kind = .unum) (he : e.kind = .num ∨ e.kind = .unum) (st : St) :
    readOption st i e.name = storeNumber st i (numOfVal (getV st.vals j)) ∧
    readOption st i (45 :: e.name) = storeNumber st i (-numOfVal (getV st.vals j)) := by
  have hki := kindOf_get hi
  have hkj := kindOf_get hj
  have hfo := findOption_name hj
  obtain ⟨hnn, hsm⟩ := strtol_name hj
  have hkj' : (kindOf j == OKind.num || kindOf j == OKind.unum) = true := by
    rw [hkj]; rcases he with h | h <;> simp [h]
  have hreader : ∀ w, readOption st i w = readNumber st i w := by
    intro w; unfold readOption; rw [hki]; rcases hd with h | h <;> simp [h]
  constructor
  · rw [hreader]
    unfold readNumber
    have : (strtol e.name).2.isEmpty = false := by simpa using hnn
    simp only [this, Bool.false_eq_true, ↓reduceIte]
    unfold readNumberRef
    simp [hsm, hfo, hkj']
  · rw [hreader]
    unfold readNumber
    -- "-name" is not a number either
    have hnot : (strtol (45 :: e.name)).2.isEmpty = false := by
      have hf := rowFacts hj
      cases hn : e.name with
      | nil => exact absurd hn hf.nameNe
      | cons c cs =>
        have hfl := hf.firstLetter
        rw [hn] at hfl
        simp only [List.head?_cons, Option.all_some, Bool.and_eq_true, decide_eq_true_eq] at hfl
        have hdg : isDigitB c = false := by simp [isDigitB]; omega
        have hs : isSpaceB 45 = false := by decide
        simp [strtol, List.dropWhile, hs, takeSign, hdg]
    simp only [hnot, Bool.false_eq_true, ↓reduceIte]
    unfold readNumberRef
    simp [stripMinus, hfo, hkj']

example : (findExact (B "indent_columns")).map (fun i => (readOption {} i (B "output_tab_size")).1.vals)
    = (findExact (B "indent_columns")).map (fun i => [(i, .n 8)]) := by decide +kernel

/-- `--set NAME=VALUE` uses the same reader as a configuration line `NAME=VALUE` (NAME in any letter case); a value
    the reader refuses ends the run with status 1 instead of being skipped. -/
theorem C15_set_equiv {i : Nat} {d : OptDecl} (h : optionTable[i]? = some d) (nm w : Bytes)
    (hlow : toLowerS nm = d.name) (hn0 : nm ≠ []) (hw0 : w ≠ [])
    (hn : ∀ c ∈ nm, c ≠ 61 ∧ c ≠ 0) (hw : ∀ c ∈ w, c ≠ 61 ∧ c ≠ 0) (hlen : nm.length + 1 + w.length ≤ 256)
    (st : St) (hlive : st.exit = none) :
    applySet st (nm ++ 61 :: w) =
      (if (readOption st i w).2 then (readOption st i w).1 else { (readOption st i w).1 with exit := some 1 }) := by
  have hz : ∀ c ∈ nm ++ 61 :: w, c ≠ 0 := by
    intro c hc
    rcases List.mem_append.1 hc with hc | hc
    · exact (hn c hc).2
    · rcases List.mem_cons.1 hc with rfl | hc
      · decide
      · exact (hw c hc).2
  have hsplit : ∀ (acc a : Bytes), (∀ c ∈ a, c ≠ 61) → ∀ rest, splitEqAux acc (a ++ 61 :: rest) = (acc.reverse ++ a) :: splitEqAux [] rest := by
    intro acc a
    induction a generalizing acc with
    | nil => intro _ rest; simp [splitEqAux]
    | cons c cs ih =>
      intro hc rest
      have : (c == 61) = false := by simp [hc c (by simp)]
      simp only [List.cons_append, splitEqAux, this, Bool.false_eq_true, ↓reduceIte]
      rw [ih (c :: acc) (fun x hx => hc x (by simp [hx]))]
      simp
  have hlast : ∀ (acc a : Bytes), (∀ c ∈ a, c ≠ 61) → splitEqAux acc a = [acc.reverse ++ a] := by
    intro acc a
    induction a generalizing acc with
    | nil => intro _; simp [splitEqAux]
    | cons c cs ih =>
      intro hc
      have : (c == 61) = false := by simp [hc c (by simp)]
      simp only [splitEqAux, this, Bool.false_eq_true, ↓reduceIte]
      rw [ih (c :: acc) (fun x hx => hc x (by simp [hx]))]
      simp
  have htok : strtokEq (nm ++ 61 :: w) = [nm, w] := by
    unfold strtokEq
    rw [cstr_of_nonzero _ hz, hsplit [] nm (fun c hc => (hn c hc).1) w, hlast [] w (fun c hc => (hw c hc).1)]
    simp [hn0, hw0]
  have hfind : findOption nm = some i := by
    unfold findOption; rw [hlow, findExact_name h]
  unfold applySet
  have hl : ¬ ((cstr (nm ++ 61 :: w)).length > 256) := by
    rw [cstr_of_nonzero _ hz]; simp; omega
  simp only [hlive, Option.isSome_none, Bool.false_eq_true, ↓reduceIte, hl, htok, hfind]

/-- Custom keyword lines (`type`, `macro-open/close/else`, `set TOKEN`) written by `print_custom_keywords` read
    back as exactly the keyword they were written for — also when the word contains blanks, quotes, backslashes,
    `#`, `=` or is empty. -/
theorem C15_save_load_kw (w : Bytes) (tok : Nat) (hw : ∀ c ∈ w, c ≠ 0) (ht : 1 ≤ tok ∧ tok < tokenNames.length)
    (incl : Option (Bytes → Int → St → St)) (fname : Bytes) (compat : Int) (st : St) :
    processLine incl fname compat st (keywordLine w tok) = (st.addKeyword w tok, compat) :=
  processLine_keywordLine w tok ⟨hw, ht.1, ht.2⟩ incl fname compat st

example : processLine none [] 0 {} (keywordLine (B "a \"b\" #c") CT_TYPE) = (({} : St).addKeyword (B "a \"b\" #c") CT_TYPE, 0) := by
  decide +kernel

/-- The `file_ext` line written by `print_extensions` for one language reads back as exactly these mappings. -/
theorem C15_save_load_ext (l : Nat) (mine : List (Bytes × Nat)) (hne : mine ≠ [])
    (hok : ∀ p ∈ mine, ((∀ c ∈ p.1, c ≠ 0) ∧ p.2 < languageNames.length) ∧ p.2 = l)
    (incl : Option (Bytes → Int → St → St)) (fname : Bytes) (compat : Int) (st : St) :
    processLine incl fname compat st (extLine l mine) = ({ st with exts := insertAll mine st.exts }, compat) :=
  processLine_extLine l mine hne hok incl fname compat st

/-- **Round trip of a whole dump.**
    Let `st` be any state the writer can save (`Saveable`: admissible ASCII values without LF; keyword and
    extension maps sorted, as std::map keeps them, with ASCII C-string words, real tokens and languages).
    Loading the text written by `--update-config` as the configuration file of a fresh run ends without exit and
    without any diagnostic, with the same value for every option of the registry, the same custom keywords
    (types, `set` keywords, macro-open/else/close words) and the same file_ext mappings. -/
theorem C15_save_load_file (st : St) (hs : Saveable st)
    (fs : Bytes → Option Bytes) (name : Bytes) (fuel : Nat) (hfile : fs name = some (saveText st false)) :
    (loadFile fs fuel name compatLevel0 { cfgName := name }).exit = none ∧
    (loadFile fs fuel name compatLevel0 { cfgName := name }).diags = [] ∧
    (∀ i, i < optionCount → getV (loadFile fs fuel name compatLevel0 { cfgName := name }).vals i = getV st.vals i) ∧
    (loadFile fs fuel name compatLevel0 { cfgName := name }).kws = st.kws ∧
    (loadFile fs fuel name compatLevel0 { cfgName := name }).exts = st.exts := by
  have hl : loadFile fs fuel name compatLevel0 { cfgName := name }
      = (⟨loadedVals st.vals 0 optionTable [], st.kws, st.exts, [], none, name,
          0 + optionTable.length + st.kws.length + (extensionLines st.exts).length + 2, []⟩ : St) := by
    unfold loadFile
    simp only [hfile, saveText, splitLines_joinLines _ (saveLines_no_lf st hs)]
    rw [loadLines_saveLines st hs _ name compatLevel0 _ rfl rfl rfl]
  rw [hl]
  refine ⟨rfl, rfl, ?_, rfl, rfl⟩
  intro i hi
  simp only []
  rw [getV_loadedVals, optionTable_length]
  simp [hi]

/-- **Idempotence**: the dump of the reloaded dump is the dump, byte for byte — in both the full and the minimal
    form (`save (load (save σ)) = save σ`). -/
theorem C15_save_idem (st : St) (hs : Saveable st)
    (fs : Bytes → Option Bytes) (name : Bytes) (fuel : Nat) (hfile : fs name = some (saveText st false)) (minimal : Bool) :
    saveText (loadFile fs fuel name compatLevel0 { cfgName := name }) minimal = saveText st minimal := by
  obtain ⟨_, _, hv, hk, he⟩ := C15_save_load_file st hs fs name fuel hfile
  have hc := optionLinesAux_congr (loadFile fs fuel name compatLevel0 { cfgName := name }).vals st.vals minimal
    optionTable 0 (fun j _ h2 => hv j (by rw [optionTable_length] at h2; omega))
  unfold saveText saveLines
  rw [hc.1, hc.2, hk, he]

-- non-vacuity: a state with a non-default string value (quotes, backslash, '#'), two keywords, two extensions
example : ∃ st : St, Saveable st ∧ st.vals ≠ [] ∧ st.kws ≠ [] ∧ st.exts ≠ [] := by
  have h : optionTable.any (fun d => d.kind == .string) = true := by decide +kernel
  obtain ⟨d, hd, hk⟩ := List.any_eq_true.1 h
  obtain ⟨i, hi⟩ := List.getElem?_of_mem hd
  have hk' : d.kind = .string := by simpa using hk
  refine ⟨{ vals := setV [] i (.s (B "x \"y\" \\ #z")),
            kws := [(B "BEGIN_MAP", CT_MACRO_OPEN), (B "my type", CT_TYPE)],
            exts := [(B ".my ext", 1), (B ".zz", 0)] },
          ⟨?_, (by decide +kernel : KeysSorted [(B "BEGIN_MAP", CT_MACRO_OPEN), (B "my type", CT_TYPE)]), ?_,
            (by decide +kernel : KeysSorted [(B ".my ext", 1), (B ".zz", 0)]), ?_⟩,
          by simp [setV], by simp, by simp⟩
  · refine WellFormed_set WellFormed_default hi _ ?_ (by decide +kernel)
    simp only [admissible, hk']
    decide +kernel
  · intro p hp
    simp only [List.mem_cons, List.not_mem_nil, or_false] at hp
    rcases hp with rfl | rfl <;> exact ⟨⟨by decide +kernel, by decide +kernel, by decide +kernel⟩, by decide +kernel⟩
  · intro p hp
    simp only [List.mem_cons, List.not_mem_nil, or_false] at hp
    rcases hp with rfl | rfl <;> exact ⟨⟨by decide +kernel, by decide +kernel⟩, by decide +kernel⟩

end Unc
