import UncModel.Indent
import UncModel.Props.Render
/-!
# C18 — indentation reflects block nesting (the specification-shaped model; see DESIGN.md §6/C18 for what this is
and is not evidence of: the evidence about `indent_text()` itself is the differential correspondence run)
-/
namespace Unc

theorem topIndent_stackOf (o : IndentOpts) (d : Nat) : topIndent (stackOf o d) = 1 + d * o.cols := by
  cases d <;> simp [stackOf, topIndent]

theorem topBrace_stackOf (o : IndentOpts) (d : Nat) (h : 0 < d) : topBrace (stackOf o d) = 1 + (d - 1) * o.cols := by
  cases d with
  | zero => omega
  | succ d => simp [stackOf, topBrace]

theorem tail_stackOf (o : IndentOpts) (d : Nat) : (stackOf o d).tail = stackOf o (d - 1) := by
  cases d <;> simp [stackOf]

/-- tokens never close more than is open (checked on every prefix) -/
def WellNested : Nat → List ITok → Prop
  | _, [] => True
  | d, .closeB :: ts => 0 < d ∧ WellNested (d - 1) ts
  | d, .vclose :: ts => 0 < d ∧ WellNested (d - 1) ts
  | d, .caseL :: ts => 0 < d ∧ WellNested d ts
  | d, .openB :: ts => WellNested (d + 1) ts
  | d, .vopen :: ts => WellNested (d + 1) ts
  | d, .stmt :: ts => WellNested d ts

/-- Closed form: the stack machine places every first-on-line token at `1 + depth * indent_columns`
    (closing brace: at the depth of the statement that opened the block; case label: at the switch's brace column). -/
theorem C18_column_closed_form (o : IndentOpts) (d : Nat) (ts : List ITok) (h : WellNested d ts) :
    indentRun o (stackOf o d) ts = closedForm o d ts := by
  induction ts generalizing d with
  | nil => rfl
  | cons t ts ih =>
    cases t with
    | stmt =>
      simp only [indentRun, indentStep, closedForm, topIndent_stackOf]
      rw [ih d h]
    | openB =>
      simp only [indentRun, indentStep, closedForm, topIndent_stackOf]
      have : ({ indent := 1 + d * o.cols + o.cols, braceIndent := 1 + d * o.cols } : Frame) :: stackOf o d = stackOf o (d + 1) := by
        simp [stackOf, Nat.add_mul, Nat.add_assoc]
      rw [this, ih (d + 1) h]
    | vopen =>
      simp only [indentRun, indentStep, closedForm, topIndent_stackOf]
      have : ({ indent := 1 + d * o.cols + o.cols, braceIndent := 1 + d * o.cols } : Frame) :: stackOf o d = stackOf o (d + 1) := by
        simp [stackOf, Nat.add_mul, Nat.add_assoc]
      rw [this, ih (d + 1) h]
    | closeB =>
      simp only [indentRun, indentStep, closedForm, tail_stackOf, topBrace_stackOf o d h.1]
      rw [ih (d - 1) h.2]
    | vclose =>
      simp only [indentRun, indentStep, closedForm, tail_stackOf]
      rw [ih (d - 1) h.2]
    | caseL =>
      simp only [indentRun, indentStep, closedForm, topBrace_stackOf o d h.1]
      rw [ih d h.2]

/-- statements directly in the same block start in the same column; one level deeper is exactly `indent_columns` further right -/
theorem C18_nested_plus_one (o : IndentOpts) (d : Nat) :
    (indentRun o (stackOf o d) [.stmt, .openB, .stmt, .stmt, .closeB, .stmt]) =
      [some (1 + d * o.cols), some (1 + d * o.cols), some (1 + d * o.cols + o.cols), some (1 + d * o.cols + o.cols),
       some (1 + d * o.cols), some (1 + d * o.cols)] := by
  rw [C18_column_closed_form o d _ (by simp [WellNested])]
  simp [closedForm, Nat.add_mul, Nat.add_assoc]

/-- the model never looks at original columns: its only inputs are the token kinds and `indent_columns`
    (there is no `orig_col` in `ITok`), so two inputs that differ only in original indentation get the same columns. -/
theorem C18_indent_ignores_orig (o : IndentOpts) (ts : List ITok) (origCols origCols' : List Nat) :
    (fun (_ : List Nat) => indentRun o [] ts) origCols = (fun (_ : List Nat) => indentRun o [] ts) origCols' := rfl

example : indentRun { cols := 4 } [] [.stmt, .openB, .stmt, .vopen, .stmt, .vclose, .caseL, .closeB] =
    [some 1, some 1, some 5, none, some 9, none, some 1, some 1] := by decide

/-! ### brace-style offsets (`indent_brace`, `indent_switch_case`) -/

theorem topIndent_framesOf (o : IndentOpts2) (ks : List BKind) : topIndent (framesOf o ks) = colIn o ks := by
  cases ks <;> simp [framesOf, topIndent, colIn]

theorem topBrace_framesOf (o : IndentOpts2) (ks : List BKind) : topBrace (framesOf o ks) = braceCol o ks := by
  cases ks <;> simp [framesOf, topBrace, braceCol]

theorem tail_framesOf (o : IndentOpts2) (ks : List BKind) : (framesOf o ks).tail = framesOf o ks.tail := by
  cases ks <;> simp [framesOf]

/-- refinement: the frame machine computes exactly the columns that the stack of block kinds determines -/
theorem C18_machine_refines_kinds (o : IndentOpts2) (ks : List BKind) (ts : List ITok2) :
    indentRun2 o (framesOf o ks) ts = absRun o ks ts := by
  induction ts generalizing ks with
  | nil => rfl
  | cons t ts ih =>
    cases t with
    | stmt => simp only [indentRun2, indentStep2, absRun, topIndent_framesOf]; rw [ih ks]
    | openK k =>
      simp only [indentRun2, indentStep2, absRun, topIndent_framesOf]
      have : ({ indent := colIn o ks + offB o k + o.cols + offIn o k, braceIndent := colIn o ks + offB o k } : Frame) :: framesOf o ks
          = framesOf o (k :: ks) := by simp [framesOf, colIn, braceCol]
      rw [this, ih (k :: ks)]; simp [braceCol]
    | vopen =>
      simp only [indentRun2, indentStep2, absRun, topIndent_framesOf]
      have : ({ indent := colIn o ks + o.cols, braceIndent := colIn o ks } : Frame) :: framesOf o ks = framesOf o (.virt :: ks) := by
        simp [framesOf, colIn, braceCol, offB, offIn]
      rw [this, ih (.virt :: ks)]
    | closeB => simp only [indentRun2, indentStep2, absRun, topBrace_framesOf, tail_framesOf]; rw [ih ks.tail]
    | vclose => simp only [indentRun2, indentStep2, absRun, tail_framesOf]; rw [ih ks.tail]
    | caseL => simp only [indentRun2, indentStep2, absRun, topBrace_framesOf]; rw [ih ks]

/-- closed form: a statement inside the blocks `ks` starts at `1 + depth*indent_columns + (statement bodies)*indent_brace +
    (switch bodies)*indent_switch_case` -/
theorem C18_column_closed_form_offsets (o : IndentOpts2) (ks : List BKind) :
    colIn o ks = 1 + ks.length * o.cols + nStmt ks * o.brace + nSwitch ks * o.switchCase := by
  induction ks with
  | nil => simp [colIn, nStmt, nSwitch]
  | cons k ks ih =>
    cases k <;> simp only [colIn, offB, offIn, nStmt, nSwitch, ih, List.length_cons, Nat.succ_mul, Nat.add_mul, Nat.one_mul] <;> omega

/-- same block ⇒ same column; one level deeper in a statement body ⇒ exactly `indent_columns + indent_brace` further right -/
theorem C18_nested_offsets (o : IndentOpts2) (ks : List BKind) :
    absRun o ks [.stmt, .openK .stmt, .stmt, .stmt, .closeB, .stmt] =
      [some (colIn o ks), some (colIn o ks + o.brace), some (colIn o ks + o.brace + o.cols), some (colIn o ks + o.brace + o.cols),
       some (colIn o ks + o.brace), some (colIn o ks)] := by
  simp [absRun, colIn, braceCol, offB, offIn]

example : indentRun2 { cols := 4, brace := 2, switchCase := 3 } [] [.stmt, .openK .plain, .stmt, .openK .switch, .caseL, .stmt, .closeB, .closeB] =
    [some 1, some 1, some 5, some 7, some 10, some 14, some 7, some 1] := by decide

end Unc
