import UncModel.Lemmas.PunctLemmas
import UncModel.Lemmas.LexGenLemmas
import UncModel.Lemmas.LexCodeLemmas
import UncModel.Lemmas.LexNumLemmas
import UncModel.Lemmas.FuseGuardAll
/-!
# C02 -- lexical layer: punctuator lookup, whitespace insertion, completeness of the fusion guard

Models: `UncModel/Punct.lean` (`findPunct` = `find_punctuator`), `UncModel/Lex.lean` (specification
lexer), `UncModel/FuseGuard.lean` (`forceSpace` = the safety check of `space_text()`).
-/
namespace Unc

/-! ## 1. `find_punctuator` returns the longest enabled table entry that is a prefix

The C++ walks a trie for at most 6 characters and keeps the last node whose tag passes the language /
digraph test.  Because every prefix of a tag is a trie node, the walk is stopped only by the text, never by
the language: "longest enabled entry that is a prefix" is exactly right, for the table *after* the
generator's overwrite rule (one entry per distinct tag; `Gen.punctTable`).  `none` = no entry at all. -/
theorem C02_findPunct_longest (lang : Nat) (dig : Bool) (s : List CP) :
    match findPunct lang dig s with
    | none => ∀ e ∈ Gen.punctTable, punctEnabled lang dig e = true → ¬ e.1 <+: s
    | some n => (∃ e ∈ Gen.punctTable, punctEnabled lang dig e = true ∧ e.1 <+: s ∧ e.1.length = n) ∧
        ∀ e ∈ Gen.punctTable, punctEnabled lang dig e = true → e.1 <+: s → e.1.length ≤ n :=
  findPunctT_longest Gen.punctTable punctTable_wf lang dig s

-- non-vacuity: `>>=x` in C++ has the three enabled prefixes `>`, `>>`, `>>=`; the answer is 3
example : findPunct 2 false [62, 62, 61, 120] = some 3 := by decide
example : findPunct 2 false [120] = none := by decide
-- `<:` is found only with digraphs enabled
example : findPunct 2 true [60, 58] = some 2 ∧ findPunct 2 false [60, 58] = some 1 := by decide

/-! ## 2. whitespace insertion

Generic form (any stateful maximal-munch lexer): if every token of the list is munched exactly in the
glued text (`Good`), the driver returns exactly these tokens, followed by the end-of-text tokens of the
final state.  `w0` is leading white space. -/
theorem C02_lex_insert_ws {σ κ : Type} (L : Lexer σ κ) (l : List (κ × List CP × List CP)) (s0 s sf : σ)
    (w0 : List CP) (hw : WsRun L s0 w0 s) (hg : Good L s l sf) :
    L.lex s0 (w0 ++ glue l) = some (l.map (fun x => (x.1, x.2.1)) ++ L.fin sf) :=
  lex_glue L l s0 s sf w0 hw hg

-- non-vacuity for the C lexer: ` a  +b` : tokens `a` (two blanks after it) and `+`, `b` glued
example : Good (cLexer 1) (.code true) [(Kind.ident, [97], [32, 32]), (Kind.punct, [43], []), (Kind.ident, [98], [])]
    (.code false) := by
  refine ⟨.code false, .code false, by simp, by decide, by decide, ⟨.code false, by decide, .code false, by decide, rfl⟩, ?_⟩
  refine ⟨.code false, .code false, by simp, by decide, by decide, rfl, ?_⟩
  exact ⟨.code false, .code false, by simp, by decide, by decide, rfl, rfl⟩

/-- Instantiation for the C-family lexer **outside directives** (`_partial`: tokens that begin with `#`,
    and hence directive lines with their `eod` tokens, are not covered by this instance; inside a directive
    the generic theorem applies with separators free of line breaks, see `cWs`).
    For tokens `tᵢ` that are isolated (`Isolated`: munched exactly at the end of the text and before any
    white space) and white-space separators `wᵢ`, if every `wᵢ` is non-empty or `(tᵢ, tᵢ₊₁)` is a safe pair,
    the glued text lexes to the same tokens as the text with single spaces. -/
theorem C02_lex_insert_ws_code_partial (l : Nat) (lst : List (Kind × List CP × List CP)) (w0 : List CP)
    (hw0 : ∀ c ∈ w0, isWsChar c = true)
    (hall : ∀ x ∈ lst, PlainTok l x.1 x.2.1 ∧ ∀ c ∈ x.2.2, isWsChar c = true) (hadj : Adj l lst) :
    (cLexer l).lex (.code true) (w0 ++ glue lst) = (cLexer l).lex (.code true) (glue (respace lst)) ∧
    (cLexer l).lex (.code true) (w0 ++ glue lst) = some (lst.map fun x => (x.1, x.2.1)) := by
  have h1 := lex_code l lst w0 hw0 hall hadj
  have h2 := lex_code l (respace lst) [] (by simp) (by
    intro x hx
    simp only [respace, List.mem_map] at hx
    obtain ⟨y, hy, rfl⟩ := hx
    exact ⟨(hall y hy).1, by simp [isWsChar, isBlankWs]⟩) (adj_respace l lst)
  have h3 : (respace lst).map (fun x => (x.1, x.2.1)) = lst.map (fun x => (x.1, x.2.1)) := by
    simp [respace, List.map_map, Function.comp_def]
  simp only [List.nil_append] at h2
  rw [h1, h2, h3]
  exact ⟨rfl, rfl⟩

/-- Instantiation **inside a directive body** (the lexer started in mode `.dir`, i.e. after `# define` …):
    separators are blanks only (no line break), the tokens come out unchanged and are followed by the `eod`
    token that closes the directive -- for any blank separators, hence equal to the single-space text. -/
theorem C02_lex_insert_ws_dir_partial (l : Nat) (lst : List (Kind × List CP × List CP)) (w0 : List CP)
    (hw0 : ∀ c ∈ w0, isBlankWs c = true)
    (hall : ∀ x ∈ lst, PlainTok l x.1 x.2.1 ∧ ∀ c ∈ x.2.2, isBlankWs c = true) (hadj : Adj l lst) :
    (cLexer l).lex .dir (w0 ++ glue lst) = (cLexer l).lex .dir (glue (respace lst)) ∧
    (cLexer l).lex .dir (w0 ++ glue lst) = some (lst.map (fun x => (x.1, x.2.1)) ++ [(Kind.eod, [])]) := by
  have h1 := lex_dir l lst w0 hw0 hall hadj
  have h2 := lex_dir l (respace lst) [] (by simp) (by
    intro x hx
    simp only [respace, List.mem_map] at hx
    obtain ⟨y, hy, rfl⟩ := hx
    exact ⟨(hall y hy).1, by simp [isBlankWs]⟩) (adj_respace l lst)
  have h3 : (respace lst).map (fun x => (x.1, x.2.1)) = lst.map (fun x => (x.1, x.2.1)) := by
    simp [respace, List.map_map, Function.comp_def]
  simp only [List.nil_append] at h2
  rw [h1, h2, h3]
  exact ⟨rfl, rfl⟩

-- non-vacuity: the body `foo\tx1` of a directive
example : (cLexer 1).lex .dir (glue [(Kind.ident, [102, 111, 111], [9]), (Kind.ident, [120, 49], [])])
    = some [(Kind.ident, [102, 111, 111]), (Kind.ident, [120, 49]), (Kind.eod, [])] :=
  (C02_lex_insert_ws_dir_partial 1 [(Kind.ident, [102, 111, 111], [9]), (Kind.ident, [120, 49], [])] [] (by simp)
    (by
      intro x hx
      simp only [List.mem_cons, List.not_mem_nil, or_false] at hx
      rcases hx with rfl | rfl
      · exact ⟨plainTok_ident 1 ⟨102, [111, 111], rfl, by decide, by decide⟩, by decide⟩
      · exact ⟨plainTok_ident 1 ⟨120, [49], rfl, by decide, by decide⟩, by decide⟩)
    (by exact ⟨Or.inl (by simp), trivial⟩)).2

/-- identifiers are isolated tokens (per-class isolation lemma 1) -/
theorem C02_isolated_ident (l : Nat) (a : List CP) (ha : IsIdent a) : PlainTok l .ident a :=
  plainTok_ident l ha

/-- pp-numbers are isolated tokens (per-class isolation lemma 2) -/
theorem C02_isolated_number (l : Nat) (a : List CP) (ha : IsNumber (langSep l) a) : Isolated l a .number :=
  isolated_number l ha

/-- a punctuator token followed by text that does not extend it to a longer tag, does not open a comment and
    does not turn `.` into a number is munched exactly (per-class lemma 3; digraphs off) -/
theorem C02_munch_punct (l : Nat) (hl : l ∈ cFamily) (a y : List CP) (ha : a ∈ punctToks l)
    (hc : opensComment (a ++ y) = false) (hdd : dotDigit (a ++ y) = false)
    (hy : a.head? ≠ some 91 → NoLonger l a y) : munchTok l (a ++ y) = some (a.length, .punct) :=
  munchTok_punct_append l (cFamily_facts l hl).1.nodig (punctToks_enabled ha)
    ((cFamily_facts l hl).1.heads a ha).1 y hc hdd hy

-- non-vacuity: `+` followed by `x`
example : [43] ∈ punctToks 1 ∧ opensComment ([43] ++ [120]) = false ∧ dotDigit ([43] ++ [120]) = false ∧
    NoLonger 1 [43] [120] := by
  refine ⟨by decide, by decide, by decide, ?_⟩
  unfold NoLonger
  decide

/-- an identifier followed by a token that starts with neither an identifier character nor a quote is a
    safe pair (per-class safe-pair lemma) -/
theorem C02_safePair_ident (l : Nat) (a : List CP) (ha : IsIdent a) (d : CP) (b' : List CP)
    (hd : isIdCont d = false ∧ d ≠ 34 ∧ d ≠ 39) : SafePairK l a .ident (d :: b') :=
  safePairK_ident l ha (d :: b') d b' rfl hd

-- non-vacuity: `foo`, `x1` are identifiers; `x+` is a safe gluing, and the theorem applies to "foo  x1"
example : IsIdent [102, 111, 111] ∧ IsIdent [120, 49] :=
  ⟨⟨102, [111, 111], rfl, by decide, by decide⟩, ⟨120, [49], rfl, by decide, by decide⟩⟩
example : IsNumber (langSep 1) [48, 120, 49, 101] := ⟨by simp, by decide⟩
example : (cLexer 1).lex (.code true) ([32] ++ glue [(Kind.ident, [102, 111, 111], [32, 10]), (Kind.ident, [120, 49], [])])
    = some [(Kind.ident, [102, 111, 111]), (Kind.ident, [120, 49])] :=
  (C02_lex_insert_ws_code_partial 1 [(Kind.ident, [102, 111, 111], [32, 10]), (Kind.ident, [120, 49], [])] [32] (by decide)
    (by
      intro x hx
      simp only [List.mem_cons, List.not_mem_nil, or_false] at hx
      rcases hx with rfl | rfl
      · exact ⟨plainTok_ident 1 ⟨102, [111, 111], rfl, by decide, by decide⟩, by decide⟩
      · exact ⟨plainTok_ident 1 ⟨120, [49], rfl, by decide, by decide⟩, by decide⟩)
    (by exact ⟨Or.inl (by simp), trivial⟩)).2

/-! ## 3. completeness of the fusion guard, up to explicit exclusions

Full statement (DESIGN.md §6/C02 theorem 2), which the unchanged code does **not** satisfy:
  `∀ a b tokens of class word/number/punctuator, ¬ safePair l a b → forceSpace l … a b = true`.
Proved form: the same with the additional hypothesis `guardGap l a b = false`, for the four single-language
masks of the C family, digraphs off in both the lexer and `enable_digraphs`, neither chunk typed
`CT_ANGLE_CLOSE` (with both typed so, the code *deliberately* lets `>` `>` fuse into `>>`).  Every clause of
`guardGap` is shown necessary by a witness below.  Literals as second token (`L` + `"x"`) are outside the
three classes; see `C02_fuse_guard_gap_prefix_quote`. -/
theorem C02_fuse_guard_complete_partial (l : Nat) (hl : l ∈ cFamily) (permit : Bool) (ka kb : TokClass)
    (a b : List CP) (ha : IsTok l ka a) (hb : IsTok l kb b) (hgap : guardGap l a b = false)
    (hns : ¬ safePair l a b) : forceSpace l false permit a false b false = true :=
  fuse_guard_core (cFamily_facts l hl).1 (cFamily_facts l hl).2 permit ha hb hgap hns

-- non-vacuity: `+` `+` in C: both punctuator tokens, not excluded, not a safe pair (`++`)
example : IsTok 1 .punct [43] ∧ guardGap 1 [43] [43] = false ∧ ¬ safePair 1 [43] [43] :=
  ⟨by show [43] ∈ punctToks 1; decide, by decide, fun h => absurd (h []) (by decide)⟩
-- `long` `v0`: two words
example : IsTok 2 .word [108, 111, 110, 103] ∧ IsTok 2 .word [118, 48] ∧
    guardGap 2 [108, 111, 110, 103] [118, 48] = false ∧ ¬ safePair 2 [108, 111, 110, 103] [118, 48] :=
  ⟨⟨108, [111, 110, 103], rfl, by decide, by decide⟩, ⟨118, [48], rfl, by decide, by decide⟩, by decide,
   fun h => absurd (h []) (by decide)⟩

/-- A concrete failure of the guard: `a` and `b` are tokens of the specification lexer for `lspec` (kinds
    `ka`, `kb`), gluing them changes the first token when `rest` follows, and the guard of the unchanged
    code (language `lang`, `enable_digraphs = false`, no `CT_ANGLE_CLOSE`) does not force a space. -/
def GuardGap (lspec lang : Nat) (a : List CP) (ka : Kind) (b : List CP) (kb : Kind) (rest : List CP) : Prop :=
  munchTok lspec a = some (a.length, ka) ∧ munchTok lspec b = some (b.length, kb) ∧
  munchLen lspec (a ++ b ++ rest) ≠ some a.length ∧
  forceSpace lang false false a false b false = false ∧ forceSpace lang false true a false b false = false

instance (lspec lang a ka b kb rest) : Decidable (GuardGap lspec lang a ka b kb rest) := by
  unfold GuardGap; infer_instance

/-- `a / *p` -> `a/*p`: comment openers are not punctuators.  A gap of the check as it was (`forceSpace`); the current code tests
    for it first (`forceSpace2`, theorem `C02_comment_opener_guarded`) -/
theorem C02_fuse_guard_gap_comment_open : GuardGap 1 1 [47] .punct [42] .punct [112, 42, 47] := by decide
/-- `/` `/` -> `//` (likewise a gap of the former check only) -/
theorem C02_fuse_guard_gap_line_comment : GuardGap 1 1 [47] .punct [47] .punct [] := by decide

/-- **comment openers are guarded now**: whatever the language and the options, a first token that ends in `/` (and does not start
    with `@"`: a C# verbatim string ends in its quote, not in `/`) followed by a token that starts with `*` or `/` gets
    PCF_FORCE_SPACE -/
theorem C02_comment_opener_guarded (lang : Nat) (dig permit aAC bAC : Bool) (a b : List CP)
    (ha : a.getLast? = some 47) (h5 : a.take 2 ≠ [64, 34]) (hb : b.head? = some 42 ∨ b.head? = some 47) :
    forceSpace2 lang dig permit a aAC b bAC = true := by
  have hne : a ≠ [] := by intro h; simp [h] at ha
  have h1 : a ≠ [91, 93] := by intro h; simp [h] at ha
  have h2 : a ≠ [123, 123] := by intro h; simp [h] at ha
  have h3 : a ≠ [125, 125] := by intro h; simp [h] at ha
  have h4 : a ≠ [40, 41] := by intro h; simp [h] at ha
  have hlen : a.length > 0 := by cases a with | nil => exact absurd rfl hne | cons _ _ => simp
  simp only [forceSpace2, opensCommentPair, ha]
  rcases hb with hb | hb <;> simp [hb, hlen, h1, h2, h3, h4, h5]

/-- **a number that ends in an exponent letter keeps its distance from a sign**: `0x1e + 3` is not written `0x1e+3` (one pp-number) -/
theorem C02_number_sign_guarded (lang : Nat) (dig permit aAC bAC : Bool) (a b : List CP) (c : CP)
    (ha : a.getLast? = some c) (hc : c = 101 ∨ c = 69 ∨ c = 112 ∨ c = 80) (h5 : a.take 2 ≠ [64, 34])
    (hb : b.head? = some 43 ∨ b.head? = some 45) :
    forceSpace2 lang dig permit a aAC b bAC true = true := by
  have hne : a ≠ [] := by intro h; simp [h] at ha
  have hlen : a.length > 0 := by cases a with | nil => exact absurd rfl hne | cons _ _ => simp
  have h1 : a ≠ [91, 93] := by intro h; subst h; simp at ha; subst ha; rcases hc with h | h | h | h <;> cases h
  have h2 : a ≠ [123, 123] := by intro h; subst h; simp at ha; subst ha; rcases hc with h | h | h | h <;> cases h
  have h3 : a ≠ [125, 125] := by intro h; subst h; simp at ha; subst ha; rcases hc with h | h | h | h <;> cases h
  have h4 : a ≠ [40, 41] := by intro h; subst h; simp at ha; subst ha; rcases hc with h | h | h | h <;> cases h
  simp only [forceSpace2, extendsNumber, ha]
  rcases hc with h | h | h | h <;> rcases hb with hb | hb <;> simp [h, hb, hlen, h1, h2, h3, h4, h5]

/-- the former check is a lower bound of the current one: everything `C02_fuse_guard_complete_partial` proves is inherited -/
theorem C02_forceSpace2_ge (lang : Nat) (dig permit aAC bAC : Bool) (a b : List CP)
    (h : forceSpace lang dig permit a aAC b bAC = true) : forceSpace2 lang dig permit a aAC b bAC = true := by
  simp [forceSpace2, h]

/-- with the new test `a / *p` and `a / /b` are no gaps any more -/
example : forceSpace2 1 false false [47] false [42] false = true ∧ forceSpace2 1 false false [47] false [47] false = true := by decide
/-- `0x1e + 3` -> `0x1e+3`, one pp-number: a gap of the former check; the current code tests for it (`C02_number_sign_guarded`) -/
theorem C02_fuse_guard_gap_hex_exponent_sign :
    GuardGap 1 1 [48, 120, 49, 101] .number [43] .punct [51] := by decide
/-- `1 . a` -> `1.a` (replayed with the default configuration: sp_member=remove is the default) -/
theorem C02_fuse_guard_gap_number_dot : GuardGap 1 1 [49] .number [46] .punct [97] := by decide
/-- `1 ... 5` -> `1... 5` (replayed: `#define E 1 ... 5`, sp_before_ellipsis=remove) -/
theorem C02_fuse_guard_gap_number_ellipsis : GuardGap 1 1 [49] .number [46, 46, 46] .punct [] := by decide
/-- `a 1` -> `a1`: `kw2` tests KW1 of the digit -/
theorem C02_fuse_guard_gap_word_digit : GuardGap 1 1 [97] .ident [49] .number [] := by decide
/-- `1 2` -> `12` -/
theorem C02_fuse_guard_gap_number_digit : GuardGap 1 1 [49] .number [50] .number [] := by decide
/-- `1. f` -> `1.f` -/
theorem C02_fuse_guard_gap_number_tail_word : GuardGap 1 1 [49, 46] .number [102] .ident [] := by decide
/-- `. 5` -> `.5` -/
theorem C02_fuse_guard_gap_dot_digit : GuardGap 1 1 [46] .punct [53] .number [] := by decide
/-- `. .` followed by `.` -> `...` (replayed with the default configuration: `f(a, . . .)`) -/
theorem C02_fuse_guard_gap_ellipsis : GuardGap 1 1 [46] .punct [46] .punct [46] := by decide
/-- `% :` followed by `@` -> `%:@` (the MS charizing digraph is in the table without FLAG_DIG) -/
theorem C02_fuse_guard_gap_pct_colon_at : GuardGap 1 1 [37] .punct [58] .punct [64] := by decide
/-- Java `>` `>>>=`: a chunk of four characters switches the punctuator test off -/
theorem C02_fuse_guard_gap_long_chunk : GuardGap 16 16 [62] .punct [62, 62, 62, 61] .punct [] := by decide
/-- `L "x"` -> `L"x"`: an encoding prefix glued to a literal (second token is not of the three classes) -/
theorem C02_fuse_guard_gap_prefix_quote : GuardGap 1 1 [76] .ident [34, 120, 34] .str [] := by decide
/-- with digraphs as real tokens (lexer flag 0x4000) but `enable_digraphs=false`: `< :` -> `<:`
    (replayed: `a ? x < : b`, sp_cond_colon=remove; only on input that is not valid C) -/
theorem C02_fuse_guard_gap_digraph_lt_colon : GuardGap 0x4001 1 [60] .punct [58] .punct [] := by decide
/-- `a < ::b` -> `a<::b` = `a <: :b` in C++03 / ObjC (replayed: sp_compare=remove, -l C or OC; C++11 has the
    `<::` exception and is not affected) -/
theorem C02_fuse_guard_gap_digraph_lt_scope : GuardGap 0x4001 1 [60] .punct [58, 58] .punct [98] := by decide
/-- `% :` -> `%:` (= `#`) -/
theorem C02_fuse_guard_gap_digraph_pct_colon : GuardGap 0x4001 1 [37] .punct [58] .punct [] := by decide

-- every witness violates the full statement: its pair is excluded by `guardGap` (non-vacuity of the exclusions)
example : guardGap 1 [47] [42] = true ∧ guardGap 1 [48, 120, 49, 101] [43] = true ∧ guardGap 1 [49] [46] = true ∧
    guardGap 1 [97] [49] = true ∧ guardGap 1 [49, 46] [102] = true ∧ guardGap 1 [46] [53] = true ∧
    guardGap 1 [46] [46] = true ∧ guardGap 1 [37] [58] = true ∧ guardGap 16 [62] [62, 62, 62, 61] = true := by decide

end Unc
