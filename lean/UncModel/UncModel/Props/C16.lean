import UncModel.Lemmas.ConfigReadLemmas
import UncModel.Lemmas.ConfigSaveLemmas
/-!
# C16 — bad configuration lines are diagnosed and have no other effect

Model: `UncModel/Config.lean` (tree with the fix patches applied); registry: `Gen/*.lean`.
`st.plusDiags ds` is the state `st` with the diagnostics `ds` added and NOTHING else changed (no option, keyword,
extension, exit status).  A diagnostic `x` names a file (`x.file`), a line (`x.line`) and an option or word
(`x.name`).
-/
namespace Unc
open Gen

/-- Every line that names an option of the registry and gives it a value — whatever the value text is —
    has exactly one of two effects: the option (and nothing else) is set, silently, to a value that is admissible
    for it (right type, inside its documented range) whenever the state was well-typed, and the state stays
    well-typed; or one or more diagnostics naming the configuration file, the line and the option are added and
    nothing else changes. -/
theorem C16_option_line_outcome {i : Nat} {d : OptDecl} (h : optionTable[i]? = some d)
    (incl : Option (Bytes → Int → St → St)) (fname : Bytes) (compat : Int) (st : St) (line a0 a1 : Bytes)
    (more : List Bytes) (hs : splitArgs isArgSep line = .ok (a0 :: a1 :: more)) (hn : toLowerS a0 = d.name) :
    (∃ v, processLine incl fname compat st line = (st.setOpt i v, compat) ∧
      (WellTyped st.vals → admissible d v = true ∧ WellTyped (st.setOpt i v).vals)) ∨
    (∃ ds, ds ≠ [] ∧ processLine incl fname compat st line = (st.plusDiags ds, compat) ∧
      ∀ x ∈ ds, x.file = st.cfgName ∧ x.line = st.lineNo ∧ x.name = d.name) := by
  rw [processLine_option h incl fname compat st line a0 a1 more hs hn]
  have hr := readOption_result h st (cstr a1) (cstr_nonzero a1)
  generalize readOption st i (cstr a1) = r at hr
  cases hr with
  | stored v hv => exact Or.inl ⟨v, rfl, fun hwt => ⟨hv hwt, WellTyped_set hwt h v (hv hwt)⟩⟩
  | refused ds hne hnm =>
    refine Or.inr ⟨ds, hne, rfl, ?_⟩
    intro x hx
    obtain ⟨a, b, c⟩ := hnm x hx
    exact ⟨a, b, by rw [c, nameOf_get h]⟩

example : (processLine none (B "x.cfg") 0 { cfgName := B "x.cfg", lineNo := 7 } (B "indent_columns = 99")).1
    = ({ cfgName := B "x.cfg", lineNo := 7 } : St).plusDiags
        [⟨.unexpectedValue, B "x.cfg", 7, B "indent_columns", B "99"⟩,
         ⟨.greaterThanMax, B "x.cfg", 7, B "indent_columns", B "99"⟩] := by decide +kernel

/-- The classes of bad lines named by the property, in terms of the arguments `split_args` finds in the line. -/
inductive BadLine (st : St) (compat : Int) : Bytes → Prop
  /-- unterminated quote, text glued to a closing quote, backslash at the end of the line -/
  | syntaxError (line : Bytes) (e : SplitErr) (h : splitArgs isArgSep line = .error e) : BadLine st compat line
  /-- a name without a value -/
  | noValue (line a0 : Bytes) (h : splitArgs isArgSep line = .ok [a0]) : BadLine st compat line
  /-- a name that is neither a directive, nor a deprecated name, nor an option -/
  | unknownOption (line a0 a1 : Bytes) (more : List Bytes) (h : splitArgs isArgSep line = .ok (a0 :: a1 :: more))
      (hd : directives.contains (toLowerS a0) = false) (hc : findCompat compat (toLowerS a0) = none)
      (hu : findExact (toLowerS a0) = none) : BadLine st compat line
  /-- an option with a value its reader refuses: wrong type, number out of range, dangling or
      incompatible reference -/
  | badValue (i : Nat) (d : OptDecl) (hget : optionTable[i]? = some d) (line a0 a1 : Bytes) (more : List Bytes)
      (h : splitArgs isArgSep line = .ok (a0 :: a1 :: more)) (hn : toLowerS a0 = d.name)
      (hbad : (readOption st i (cstr a1)).2 = false) : BadLine st compat line

/-- **Bad lines are diagnosed and inert.**  For every state and every bad line, `process_option_line` adds at
    least one diagnostic — each naming the current line and the file being read (or, for value errors, the
    configuration file `cpd.filename`) — and changes nothing else: every option keeps its value, no keyword or
    extension is added, the compatibility level and the exit status are unchanged. -/
theorem C16_bad_line_inert (incl : Option (Bytes → Int → St → St)) (fname : Bytes) (compat : Int) (st : St)
    (line : Bytes) (hbad : BadLine st compat line) :
    ∃ ds, ds ≠ [] ∧ processLine incl fname compat st line = (st.plusDiags ds, compat) ∧
      ∀ x ∈ ds, x.line = st.lineNo ∧ (x.file = fname ∨ x.file = st.cfgName) := by
  cases hbad with
  | syntaxError _ e h =>
    refine ⟨[⟨if e == .unterminated then .unterminated else .unexpectedText, fname, st.lineNo, [], []⟩], by simp, ?_, ?_⟩
    · simp [processLine, h, St.warnF_eq]
    · intro x hx; simp at hx; subst hx; exact ⟨rfl, Or.inl rfl⟩
  | noValue _ a0 h =>
    refine ⟨[⟨.tooFewArgs, fname, st.lineNo, toLowerS a0, []⟩], by simp, ?_, ?_⟩
    · unfold processLine
      simp only [h, List.length_nil]
      have : (0 < if (toLowerS a0 == sSet || toLowerS a0 == sFileExt) = true then 2 else 1) := by split <;> omega
      simp only [this, ↓reduceIte, St.warnF_eq]
    · intro x hx; simp at hx; subst hx; exact ⟨rfl, Or.inl rfl⟩
  | unknownOption _ a0 a1 more h hd hc hu =>
    obtain ⟨n1, n2, n3, n4, n5, n6, n7, n8⟩ := not_directive_of_contains hd
    refine ⟨[⟨.unknownOption, fname, st.lineNo, cstr a0, []⟩], by simp, ?_, ?_⟩
    · unfold processLine
      simp only [h, n1, n2, n3, n4, n5, n6, n7, n8, Bool.or_self, Bool.false_eq_true, ↓reduceIte, List.length_cons]
      have : ¬ (more.length + 1 < 1) := by omega
      simp only [this, ↓reduceIte]
      simp [processRegular, hc, hu, St.warnF_eq]
    · intro x hx; simp at hx; subst hx; exact ⟨rfl, Or.inl rfl⟩
  | badValue i d hget _ a0 a1 more h hn hbad =>
    rw [processLine_option hget incl fname compat st line a0 a1 more h hn]
    have hr := readOption_result hget st (cstr a1) (cstr_nonzero a1)
    generalize readOption st i (cstr a1) = r at hr hbad
    cases hr with
    | stored v _ => simp at hbad
    | refused ds hne hnm =>
      exact ⟨ds, hne, rfl, fun x hx => ⟨(hnm x hx).2.1, Or.inr (hnm x hx).1⟩⟩

-- the four classes are inhabited
example : BadLine {} 0 (B "indent_columns = \"4") := .syntaxError _ .unterminated (by decide +kernel)
example : BadLine {} 0 (B "indent_columns") := .noValue _ (B "indent_columns") (by decide +kernel)
example : BadLine {} 0 (B "indent_colums 4") :=
  .unknownOption _ (B "indent_colums") (B "4") [] (by decide +kernel) (by decide +kernel) (by decide +kernel) (by decide +kernel)

/-- For every BOUNDED option of the registry and every `long` n written in decimal: the reader accepts n iff
    min ≤ n ≤ max; an accepted n is stored as it is; a refused n leaves the state unchanged except for two
    diagnostics (the range violation, echoing n, and "Expected number"), both naming file, line and option. -/
theorem C16_validate_bounds {i : Nat} {d : OptDecl} (h : optionTable[i]? = some d) (hb : d.bounded = true)
    (n : Int) (hl : LONG_MIN ≤ n) (hu : n ≤ LONG_MAX) (st : St) :
    (d.lo ≤ n ∧ n ≤ d.hi → readOption st i (intDec n) = (st.setOpt i (.n n), true)) ∧
    (¬ (d.lo ≤ n ∧ n ≤ d.hi) → ∃ x y : Diag,
        readOption st i (intDec n) = (st.plusDiags [y, x], false) ∧
        (x.kind = .lessThanMin ∨ x.kind = .greaterThanMax) ∧ x.arg = intDec n ∧ y.kind = .unexpectedValue ∧
        x.names st i ∧ y.names st i) := by
  have hf := rowFacts h
  have hkind := (hf.boundedNum hb).1
  have hk := kindOf_get h
  constructor
  · intro hr
    have hadm : admissible d (.n n) = true := by
      rcases hkind with hk' | hk' <;> simp [admissible, hk', hb, hr.1, hr.2]
    have := readOption_valueArg h (.n n) hadm st
    rcases hkind with hk' | hk' <;> simpa [valueArg, valStr, hk'] using this
  · intro hr
    have hst := strtol_intDec n hl hu
    have hreader : readOption st i (intDec n) = readNumber st i (intDec n) := by
      unfold readOption; rw [hk]; rcases hkind with hk' | hk' <;> simp [hk']
    rw [hreader]
    unfold readNumber
    simp only [hst, List.isEmpty_nil, ↓reduceIte]
    rcases storeNumber_cases h hkind st n with ⟨x, _, hv⟩ | ⟨x, hx, hxk, hxa, hv⟩
    · -- cannot be accepted: n is outside the bounds
      exfalso
      unfold storeNumber validate at hv
      simp only [h, hb, ↓reduceIte] at hv
      by_cases h1 : n < d.lo
      · simp [h1] at hv
      · by_cases h2 : n > d.hi
        · simp [h1, h2] at hv
        · exact hr ⟨by omega, by omega⟩
    · simp only [hv, Bool.false_eq_true, ↓reduceIte]
      have hnone := findOption_none_of_complete (intDec n) n hst
      unfold readNumberRef
      simp only [hnone]
      rw [St.warnO_eq, St.plusDiags_plusDiags]
      exact ⟨x, _, rfl, hxk, hxa, rfl, hx, ⟨rfl, rfl, rfl⟩⟩

example : ∃ (i : Nat) (d : OptDecl), optionTable[i]? = some d ∧ d.bounded = true := by
  have h : optionTable.any (fun d => d.bounded) = true := by decide +kernel
  obtain ⟨d, hd, hb⟩ := List.any_eq_true.1 h
  obtain ⟨i, hi⟩ := List.getElem?_of_mem hd
  exact ⟨i, d, hi, hb⟩

/-- If nl_max > 0 and some guarded option exceeds it, the configuration is refused with EX_CONFIG (78), and the
    offending option is reported. -/
theorem C16_nlmax_guard (st : St) (hlive : st.exit = none) (hpos : numOf st.vals sNlMax > 0)
    (g : Bytes) (hg : g ∈ nlMaxGuarded) (hbig : numOf st.vals g > numOf st.vals sNlMax) :
    (nlMaxGuard st).exit = some 78 ∧ g ∈ (nlMaxGuard st).tooBig := by
  have hmem : g ∈ tooBigFor st.vals := by
    simp only [tooBigFor, List.mem_filter, decide_eq_true_eq]
    exact ⟨hg, hbig⟩
  have hne : (tooBigFor st.vals).isEmpty = false := by
    cases h : tooBigFor st.vals with
    | nil => rw [h] at hmem; simp at hmem
    | cons _ _ => rfl
  simp [nlMaxGuard, hlive, hpos, hne, hmem]

/-- … at the level of `main()`: whatever the configuration file(s) and `--set` arguments are, if loading them
    did not already end the run and leaves such a conflict, the run ends with status 78.  `runConfig` is all that
    happens before the first source file is opened, so no source has been read. -/
theorem C16_nlmax_refused_before_sources (fs : Bytes → Option Bytes) (cfg : Bytes) (sets : List Bytes)
    (hlive : (sets.foldl applySet (loadFile fs maxIncludeDepth cfg compatLevel0 { cfgName := cfg })).exit = none)
    (hpos : numOf (sets.foldl applySet (loadFile fs maxIncludeDepth cfg compatLevel0 { cfgName := cfg })).vals sNlMax > 0)
    (g : Bytes) (hg : g ∈ nlMaxGuarded)
    (hbig : numOf (sets.foldl applySet (loadFile fs maxIncludeDepth cfg compatLevel0 { cfgName := cfg })).vals g
            > numOf (sets.foldl applySet (loadFile fs maxIncludeDepth cfg compatLevel0 { cfgName := cfg })).vals sNlMax) :
    (runConfig fs cfg sets).exit = some 78 :=
  (C16_nlmax_guard _ hlive hpos g hg hbig).1

example : (runConfig (fun p => if p = B "m.cfg" then some (B "nl_max = 2\nnl_after_func_proto = 3\n") else none)
    (B "m.cfg") []).exit = some 78 := by decide +kernel

/-- an include cycle ends with a diagnostic and EX_SOFTWARE instead of unbounded recursion -/
theorem C16_include_cycle_refused :
    (runConfig (fun p => if p = B "m.cfg" then some (B "include m.cfg\n") else none) (B "m.cfg") []).exit = some 70 ∧
    ((runConfig (fun p => if p = B "m.cfg" then some (B "include m.cfg\n") else none) (B "m.cfg") []).diags.map (·.kind))
      = [.includeTooDeep] := by decide +kernel

end Unc
