import UncModel.Lemmas.BracketLemmas
import UncModel.Gen.Mods
import UncModel.Gen.ModGates
/-!
# C04 — code-modifying options change only the tokens they name

Two families of statements.

**Bracket structure** (model `Brackets.lean`): the edits the modifying passes are documented to make — insert a bracket
pair around a well-nested segment (`add_parens_between`, `convert_vbrace`), delete a matched pair (`examine_brace` →
`convert_brace`, `mod_case_brace_remove`, return-parenthesis removal), turn virtual braces into real ones
(`convert_vbrace_to_brace`), permute whole well-nested lines (`do_the_sort`) — keep a well-nested stream well nested,
and leave every token that is not a bracket of the edited kind where it was.  The hypotheses ("the segment is well
nested", "the pair is matched") are exactly what the unmodelled decision code must deliver; the C04 check evaluates
`wellNested` (this definition, through the driver) on the real token streams before and after.

**Frame** (tables regenerated from the source on every run, `Gen/Mods.lean`): every site of `src/` that adds, deletes,
retexts or moves a chunk lies in a function the committed classification knows; the functions classified `mod` are gated
by `mod_` options whose defaults are all "off"; the passes the driver calls under an `if` are gated by option tests that
are false at the defaults.  Hence with every `mod_` option at its default only tokenizer / re-chunking / newline /
comment / virtual-chunk code can touch the list (whose text preservation is C02's H-text monitor).
-/
namespace Unc
open Gen

/-! ### bracket structure -/

/-- wrap a well-nested segment into a new pair of kind `k` -/
theorem C04_insert_pair_nested (a m b : List BTok) (k : Nat)
    (h : wellNested (a ++ m ++ b) = true) (hm : wellNested m = true) :
    wellNested (a ++ [BTok.op k] ++ m ++ [BTok.cl k] ++ b) = true := by
  simp only [wellNested, beq_iff_eq] at h ⊢
  rw [List.append_assoc, brun_append] at h
  cases ha : brun [] a with
  | none => simp [ha] at h
  | some sa =>
    rw [ha] at h
    simp only [Option.bind_some, brun_append] at h
    rw [brun_nested sa m hm] at h
    simp only [Option.bind_some] at h
    simp only [List.append_assoc, brun_append, ha, Option.bind_some]
    have h1 : brun sa [BTok.op k] = some (k :: sa) := by simp [brun, bstep]
    rw [h1]
    simp only [Option.bind_some]
    rw [brun_nested (k :: sa) m hm]
    simp only [Option.bind_some]
    have h2 : brun (k :: sa) [BTok.cl k] = some sa := by simp [brun, bstep]
    rw [h2]
    simpa using h

/-- delete a matched pair (the segment between the two brackets is well nested) -/
theorem C04_remove_pair_nested (a m b : List BTok) (k : Nat)
    (h : wellNested (a ++ [BTok.op k] ++ m ++ [BTok.cl k] ++ b) = true) (hm : wellNested m = true) :
    wellNested (a ++ m ++ b) = true := by
  simp only [wellNested, beq_iff_eq] at h ⊢
  simp only [List.append_assoc, brun_append] at h
  cases ha : brun [] a with
  | none => simp [ha] at h
  | some sa =>
    rw [ha] at h
    simp only [Option.bind_some] at h
    have h1 : brun sa [BTok.op k] = some (k :: sa) := by simp [brun, bstep]
    rw [h1] at h
    simp only [Option.bind_some] at h
    rw [brun_nested (k :: sa) m hm] at h
    simp only [Option.bind_some] at h
    have h2 : brun (k :: sa) [BTok.cl k] = some sa := by simp [brun, bstep]
    rw [h2] at h
    simp only [Option.bind_some] at h
    simp only [List.append_assoc, brun_append, ha, Option.bind_some]
    rw [brun_nested sa m hm]
    simpa using h

/-- virtual braces turned into real braces (any renaming of kinds): nesting is kept -/
theorem C04_vbrace_convert_nested (ts : List BTok) (h : wellNested ts = true) :
    wellNested (ts.map (BTok.rename vbraceToBrace)) = true := by
  simp only [wellNested, beq_iff_eq] at h ⊢
  simpa using brun_rename vbraceToBrace [] [] ts h

theorem flatten_nested (ls : List (List BTok)) (h : ∀ l ∈ ls, wellNested l = true) : wellNested ls.flatten = true := by
  induction ls with
  | nil => rfl
  | cons l rest ih =>
    have hl := h l List.mem_cons_self
    have hr := ih (fun l' hl' => h l' (List.mem_cons_of_mem _ hl'))
    simp only [wellNested, beq_iff_eq, List.flatten_cons, brun_append] at hl hr ⊢
    rw [hl]
    simpa using hr

/-- sorting permutes whole lines: if every line is well nested, so is every reordering -/
theorem C04_lines_permute_nested (ls ls' : List (List BTok)) (hp : ls.Perm ls') (h : ∀ l ∈ ls, wellNested l = true) :
    wellNested ls'.flatten = true :=
  flatten_nested ls' (fun l hl => h l (hp.mem_iff.mpr hl))

/-- inserting or deleting brackets of kind `k` does not touch any other token, nor their order -/
theorem C04_edit_frame (a m b : List BTok) (k : Nat) :
    othersThan k (a ++ [BTok.op k] ++ m ++ [BTok.cl k] ++ b) = othersThan k (a ++ m ++ b) := by
  simp [othersThan, List.filter_append, BTok.isBracketOf]

/-! ### frame: who can change the token list, and what gates it -/

def mutClassOf (f fn : String) : Option (String × List String × Nat) :=
  (Gen.mutClass.find? (fun c => c.1 == f && c.2.1 == fn)).map (fun c => (c.2.2.1, c.2.2.2.1, c.2.2.2.2))

def siteClassified (s : String × String × Nat) : Bool :=
  match mutClassOf s.1 s.2.1 with
  | some (_, _, m) => decide (s.2.2 ≤ m)
  | none => false

/-- every mutation site of the current source lies in a classified function (and no function has gained sites) -/
theorem C04_sites_classified : Gen.mutSites.all siteClassified = true := by decide +kernel

def knownClass (c : String) : Bool :=
  c == "tok" || c == "rechunk" || c == "nl" || c == "cmt" || c == "virtual" || c == "ws" || c == "tool" || c == "mod"

def defaultOf (o : String) : Option Nat := (Gen.modDefaults.find? (fun d => d.1 == o)).map (·.2)

def classEntryOk (c : String × String × String × List String × Nat) : Bool :=
  knownClass c.2.2.1 &&
  (c.2.2.1 != "mod" || (!c.2.2.2.1.isEmpty && c.2.2.2.1.all (fun o => defaultOf o == some 0)))

/-- a function classified `mod` names at least one gate, and every gate is a `mod_` option that is off by default -/
theorem C04_mod_gates_default_off : Gen.mutClass.all classEntryOk = true := by decide +kernel

/-- passes called without an `if` in the driver: they test their options themselves -/
def internallyGated : List String := ["do_braces", "do_parens", "do_parens_assign", "do_parens_return"]

def driverCallOk (c : String × List (String × String × Bool)) : Bool :=
  if c.2.isEmpty then internallyGated.contains c.1
  else c.2.all (fun a => !a.2.2 && (a.2.1 == "truthy" || a.2.1 == "nonzero") && defaultOf a.1 == some 0)

/-- the option tests around the modifying passes in `uncrustify_file()` are all false at the defaults (every test is
    an un-negated "option is set" on a `mod_` option whose default is off; language tests only conjoin) -/
theorem C04_driver_gates_default_off : Gen.driverCalls.all driverCallOk = true := by decide +kernel

def gateRowOk (r : String × List String × List String) : Bool :=
  r.2.2.isEmpty && !r.2.1.isEmpty && r.2.1.all (fun o => defaultOf o == some 0)

/-- call-path analysis regenerated from the source (translators/t_gates.py): every function classified `mod` is reached
    from `uncrustify_file()` only through a test of a `mod_` option (around a call site on the path, around every mutation
    site inside the function, or as an early return), and every option so tested is off by default -/
theorem C04_mod_functions_gated : Gen.modGates.all gateRowOk = true := by decide +kernel

/-! ### non-vacuity -/

-- `if (a) { f(x[1]); }`  →  braces removed
example : wellNested [.other, .op 0, .other, .cl 0, .op 2, .other, .op 0, .other, .op 1, .other, .cl 1, .cl 0, .other, .cl 2] = true := by decide
example : wellNested [.other, .op 0, .other, .cl 0, .other, .op 0, .other, .op 1, .other, .cl 1, .cl 0, .other] = true := by decide
-- parentheses straddling a subscript are rejected
example : wellNested [.op 0, .other, .op 1, .other, .cl 0, .other, .op 0, .other, .cl 1, .cl 0] = false := by decide
-- more `{` than `}`
example : wellNested [.op 2, .op 2, .other, .cl 2] = false := by decide
example : Gen.mutSites.length > 60 ∧ Gen.driverCalls.length > 10 ∧ Gen.modDefaults.length > 50 := by decide +kernel
example : (Gen.mutClass.filter (fun c => c.2.2.1 == "mod")).length > 15 ∧ Gen.modGates.length > 15 := by decide +kernel

end Unc
