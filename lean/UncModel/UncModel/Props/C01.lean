import UncModel.Lemmas.MiniCLemmas
import UncModel.Props.C02
import UncModel.Props.C04
/-!
# C01 — formatting preserves program meaning: the part an executable model can carry   (PARTIAL)

A compiler is not modelled.  Recorded assumption **A-cc**: for a fixed compiler and flags the object code is a function
of the preprocessing-token sequence including directive-line structure (`__LINE__`, `__FILE__`, `assert`, debug
information excluded).  Under A-cc:

* whitespace-only configurations: equality of the token streams is the C02 development (`C02_vis_pipeline`,
  `C02_lex_insert_ws*`, `C02_fuse_guard_complete_partial` with its listed gaps) — re-exported here as `C01_ws_visible`;
* code-modifying options: the bracket structure is kept (`Props/C04.lean`), and for brace removal / addition the
  statement structure is kept **up to redundant single-statement blocks** — proved below on the statement model
  `MiniC.lean`, whose parser implements the C rule for `else`:
  `C01_brace_removal_sound`, `C01_brace_removal_sound_before_else`, `C01_brace_addition_sound`; the guard is
  necessary (`C01_dangling_else_witness`) and must look through enclosing brace-less statements
  (`C01_nested_guard_witness`).

The decision procedure of `examine_brace()` itself is not verified: the C01 check runs uncrustify on statement skeletons
of every shape up to a bound and has the Lean parser judge input and output (`minic.norm`), and compiles generated
programs before and after formatting.
-/
namespace Unc
open MiniC MiniC.Stmt

/-- whitespace-only configurations: the visible code points of the output are those of the input (C02) -/
theorem C01_ws_visible (c : OutCfg) (o : RenderOpts) (input p0Texts : List CP) (p1 : Array Chunk)
    (cmt : Nat → Option CmtInfo) (init : OutSt) (hnl : NlOK c.nl) (hinit : vis init.out = [])
    (hLoss : vis input = vis p0Texts) (hText : chunkVis p1 cmt = vis p0Texts) :
    vis (render c o p1 cmt init).o.out = vis input :=
  C02_vis_pipeline c o input p0Texts p1 cmt init hnl hinit hLoss hText

/-- the token list of a well-formed statement parses back to that statement (nothing dangling), whatever follows,
    as long as an `else` follows only a statement that does not end in an open `if` -/
theorem C01_parse_unparse (st : Stmt) (rest : List MiniC.Tok) (hw : wf st = true) (ht : tailOk st rest) :
    parse (size st) (unparse st ++ rest) = some (st, rest) :=
  parse_unparse st (size st) rest hw ht (Nat.le_refl _)

/-- **brace removal with the guard preserves meaning**: the token list after removal parses to a tree that equals the
    original up to redundant single-statement blocks -/
theorem C01_brace_removal_sound (st : Stmt) (hw : wf st = true) :
    parse (size (rmBraces false st)) (unparse (rmBraces false st)) = some (rmBraces false st, []) ∧
    norm (rmBraces false st) = norm st := by
  refine ⟨?_, norm_rmB st false false⟩
  have h := parse_unparse (rmBraces false st) (size (rmBraces false st)) [] (wf_rmB st false false hw)
    (by intro h; simp at h) (Nat.le_refl _)
  simpa using h

/-- the same in then-position: when an `else` follows, the result still does not capture it -/
theorem C01_brace_removal_sound_before_else (st : Stmt) (rest : List MiniC.Tok) (hw : wf st = true) (hc : openEnd st = false) :
    parse (size (rmBraces true st)) (unparse (rmBraces true st) ++ MiniC.Tok.els :: rest) = some (rmBraces true st, MiniC.Tok.els :: rest) ∧
    norm (rmBraces true st) = norm st := by
  refine ⟨?_, norm_rmB st true false⟩
  exact parse_unparse _ _ _ (wf_rmB st true false hw) (fun _ => closed_rmB st false hc) (Nat.le_refl _)

/-- brace addition preserves meaning, for every statement (well formed or not: the added braces close every `if`) -/
theorem C01_brace_addition_sound (st : Stmt) :
    parse (size (addBraces st)) (unparse (addBraces st)) = some (addBraces st, []) ∧ norm (addBraces st) = norm st := by
  refine ⟨?_, norm_addBraces st⟩
  have h := parse_unparse (addBraces st) (size (addBraces st)) [] (wf_addBraces st) (by intro h; simp at h) (Nat.le_refl _)
  simpa using h

/-- without the guard the `else` changes owner: `if (0) { if (1) x2; } else x3;` -/
theorem C01_dangling_else_witness :
    let st := ifE 0 (block1 (ifT 1 (simple 2))) (simple 3)
    wf st = true ∧
    parse 10 (unparse (rmBracesUnguarded st)) = some (ifT 0 (ifE 1 (simple 2) (simple 3)), []) ∧
    norm (ifT 0 (ifE 1 (simple 2) (simple 3))) ≠ norm st ∧
    rmBraces false st = st := by
  decide

/-- the guard must look through enclosing brace-less statements: `if (0) while (1) { if (2) x3; } else x4;` keeps its braces -/
theorem C01_nested_guard_witness :
    let st := ifE 0 (loop 1 (block1 (ifT 2 (simple 3)))) (simple 4)
    rmBraces false st = st ∧
    (∃ t, parse 10 (unparse (rmBracesUnguarded st)) = some (t, []) ∧ norm t ≠ norm st) := by
  refine ⟨by decide, ⟨ifT 0 (loop 1 (ifE 2 (simple 3) (simple 4))), by decide, by decide⟩⟩

/-! ### non-vacuity -/
example : rmBraces false (ifE 0 (block1 (simple 1)) (block1 (loop 2 (block1 (simple 3))))) = ifE 0 (simple 1) (loop 2 (simple 3)) := by decide
example : wf (ifE 0 (block1 (simple 1)) (block1 (loop 2 (block1 (simple 3))))) = true := by decide
example : addBraces (ifT 0 (ifT 1 (simple 2))) = ifT 0 (block1 (ifT 1 (block1 (simple 2)))) := by decide

end Unc
