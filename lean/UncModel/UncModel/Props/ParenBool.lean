import UncModel.ParenBool
/-!
Theorems about the model of `check_bool_parens()` (`ParenBool.lean`), for every token list of one nesting level:

* `addParens_erase`   – only parentheses are inserted: deleting them from the output gives the input back, token for token
                        and in order (C04: "only the tokens they name");
* `addParens_groups`  – the inserted parentheses form non-nested, closed groups (C04: bracket pairs stay balanced);
* `addParens_fixed_no_assign_in_group` – with the fix, no assignment operator ends up inside an inserted pair, which is
                        what changed the meaning before (C01);
* `old_changes_meaning_witness` – before the fix `a = b == c && d` became `(a = b == c) && d`: the precedence parser of
                        the model gives the two a different tree; after the fix it does not.
A bounded cross-check (`fixed_same_meaning_upto5`, every token list of length ≤ 5 over two atoms and the three operator
kinds) is a *test* of "same meaning", not the unbounded claim.
-/
namespace Unc.PB

def isParen : PTok → Bool
  | .lp => true | .rp => true | _ => false

def erase (ts : List PTok) : List PTok := ts.filter (fun t => !isParen t)

def noParens (ts : List PTok) : Prop := ∀ t ∈ ts, isParen t = false

theorem erase_noParens (ts : List PTok) (h : noParens ts) : erase ts = ts := by
  unfold erase
  exact List.filter_eq_self.mpr (by intro t ht; simp [h t ht])

theorem erase_append (a b : List PTok) : erase (a ++ b) = erase a ++ erase b := by simp [erase]

/-- the output is a sequence of single non-parenthesis tokens and closed groups `( g )` whose content has no parenthesis
    and satisfies `P` -/
inductive Groups (P : List PTok → Prop) : List PTok → Prop
  | nil : Groups P []
  | tok (l : List PTok) (t : PTok) : isParen t = false → Groups P l → Groups P (l ++ [t])
  | grp (l g : List PTok) : noParens g → P g → Groups P l → Groups P (l ++ PTok.lp :: g ++ [PTok.rp])

theorem Groups.append_plain {P} {l : List PTok} (h : Groups P l) (m : List PTok) (hm : noParens m) : Groups P (l ++ m) := by
  induction m generalizing l with
  | nil => simpa using h
  | cons t ts ih =>
    have : l ++ t :: ts = (l ++ [t]) ++ ts := by simp
    rw [this]
    exact ih (Groups.tok l t (hm t (by simp)) h) (fun x hx => hm x (by simp [hx]))

/-- scanner invariant after reading the prefix `pre` -/
structure Inv (P : List PTok → Prop) (s : St) (pre : List PTok) : Prop where
  er : erase s.out ++ s.seg = pre
  seg : noParens s.seg
  out : Groups P s.out
  p : P s.seg

theorem flush_ok {P} (s : St) (pre : List PTok) (w : Bool) (h : Inv P s pre) :
    erase (flush s w) = pre ∧ Groups P (flush s w) := by
  unfold flush
  split
  · constructor
    · have e1 : erase [PTok.lp] = [] := by simp [erase, isParen]
      have e2 : erase [PTok.rp] = [] := by simp [erase, isParen]
      rw [erase_append, erase_append, erase_append, e1, e2, erase_noParens _ h.seg]
      simpa using h.er
    · have : s.out ++ [PTok.lp] ++ s.seg ++ [PTok.rp] = s.out ++ PTok.lp :: s.seg ++ [PTok.rp] := by simp
      rw [this]
      exact Groups.grp _ _ h.seg h.p h.out
  · constructor
    · rw [erase_append, erase_noParens _ h.seg, h.er]
    · exact h.out.append_plain _ h.seg

theorem step_inv {P} (fixed : Bool) (s : St) (pre : List PTok) (t : PTok) (ht : isParen t = false)
    (hP0 : P []) (hPapp : ∀ g x, P g → isParen x = false → (fixed = true → x ≠ PTok.asg) → P (g ++ [x]))
    (h : Inv P s pre) : Inv P (step fixed s t) (pre ++ [t]) := by
  cases t with
  | lp => simp [isParen] at ht
  | rp => simp [isParen] at ht
  | bool =>
    have hf := flush_ok s pre true h
    refine ⟨?_, ?_, ?_, ?_⟩
    · simp only [step, erase_append, hf.1]; simp [erase, isParen]
    · intro x hx; simp [step] at hx
    · simp only [step]; exact Groups.tok _ _ (by simp [isParen]) hf.2
    · simpa [step] using hP0
  | cmp =>
    refine ⟨?_, ?_, ?_, ?_⟩
    · simp only [step]; rw [← List.append_assoc, h.er]
    · intro x hx
      simp only [step, List.mem_append, List.mem_singleton] at hx
      rcases hx with hx | rfl
      · exact h.seg x hx
      · simp [isParen]
    · simpa [step] using h.out
    · simp only [step]; exact hPapp _ _ h.p (by simp [isParen]) (by intro _; simp)
  | atom n =>
    refine ⟨?_, ?_, ?_, ?_⟩
    · simp only [step]; rw [← List.append_assoc, h.er]
    · intro x hx
      simp only [step, List.mem_append, List.mem_singleton] at hx
      rcases hx with hx | rfl
      · exact h.seg x hx
      · simp [isParen]
    · simpa [step] using h.out
    · simp only [step]; exact hPapp _ _ h.p (by simp [isParen]) (by intro _; simp)
  | asg =>
    cases fixed with
    | true =>
      refine ⟨?_, ?_, ?_, ?_⟩
      · simp only [step, if_true, erase_append, erase_noParens _ h.seg]
        have : erase [PTok.asg] = [PTok.asg] := by simp [erase, isParen]
        rw [this, ← h.er]; simp
      · intro x hx; simp [step] at hx
      · simp only [step, if_true]
        have : s.out ++ s.seg ++ [PTok.asg] = (s.out ++ s.seg) ++ [PTok.asg] := by simp
        rw [this]
        exact Groups.tok _ _ (by simp [isParen]) (h.out.append_plain _ h.seg)
      · simpa [step] using hP0
    | false =>
      refine ⟨?_, ?_, ?_, ?_⟩
      · simp only [step, Bool.false_eq_true, if_false]; rw [← List.append_assoc, h.er]
      · intro x hx
        simp only [step, Bool.false_eq_true, if_false, List.mem_append, List.mem_singleton] at hx
        rcases hx with hx | rfl
        · exact h.seg x hx
        · simp [isParen]
      · simpa [step] using h.out
      · simp only [step, Bool.false_eq_true, if_false]
        exact hPapp _ _ h.p (by simp [isParen]) (by intro hc; cases hc)

theorem fold_inv {P} (fixed : Bool) (ts : List PTok) (hts : noParens ts)
    (hP0 : P []) (hPapp : ∀ g x, P g → isParen x = false → (fixed = true → x ≠ PTok.asg) → P (g ++ [x])) :
    ∀ (s : St) (pre : List PTok), Inv P s pre → Inv P (ts.foldl (step fixed) s) (pre ++ ts) := by
  induction ts with
  | nil => intro s pre h; simpa using h
  | cons t rest ih =>
    intro s pre h
    simp only [List.foldl_cons]
    have := ih (fun x hx => hts x (by simp [hx])) (step fixed s t) (pre ++ [t])
      (step_inv fixed s pre t (hts t (by simp)) hP0 hPapp h)
    simpa using this

theorem addParens_spec {P} (fixed : Bool) (ts : List PTok) (hts : noParens ts)
    (hP0 : P []) (hPapp : ∀ g x, P g → isParen x = false → (fixed = true → x ≠ PTok.asg) → P (g ++ [x])) :
    erase (addParens fixed ts) = ts ∧ Groups P (addParens fixed ts) := by
  unfold addParens
  have h0 : Inv P { out := [], seg := [], hit := false, moved := false } [] :=
    { er := by simp [erase], seg := (by intro x hx; simp at hx), out := Groups.nil, p := hP0 }
  have h := fold_inv fixed ts hts hP0 hPapp _ _ h0
  simp only [List.nil_append] at h
  exact flush_ok _ ts _ h

/-- only parentheses are inserted; everything else is kept, in order -/
theorem addParens_erase (fixed : Bool) (ts : List PTok) (hts : noParens ts) : erase (addParens fixed ts) = ts :=
  (addParens_spec (P := fun _ => True) fixed ts hts trivial (fun _ _ _ _ _ => trivial)).1

/-- the inserted parentheses are closed, non-nested groups -/
theorem addParens_groups (fixed : Bool) (ts : List PTok) (hts : noParens ts) : Groups (fun _ => True) (addParens fixed ts) :=
  (addParens_spec (P := fun _ => True) fixed ts hts trivial (fun _ _ _ _ _ => trivial)).2

/-- with the fix no assignment operator lies inside an inserted pair of parentheses -/
theorem addParens_fixed_no_assign_in_group (ts : List PTok) (hts : noParens ts) :
    Groups (fun g => PTok.asg ∉ g) (addParens true ts) :=
  (addParens_spec (P := fun g => PTok.asg ∉ g) true ts hts (by simp)
    (by intro g x hg _ hx; simp only [List.mem_append, List.mem_singleton, not_or]; exact ⟨hg, fun h => hx rfl h.symm⟩)).2

/-- `a = b == c && d`: before the fix the assignment is captured (`(a = b == c) && d`) and the tree changes;
    after the fix the comparison alone is wrapped (`a = (b == c) && d`) and the tree is the same -/
theorem old_changes_meaning_witness :
    let ts := [PTok.atom 0, .asg, .atom 1, .cmp, .atom 2, .bool, .atom 3]
    addParens false ts = [.lp, .atom 0, .asg, .atom 1, .cmp, .atom 2, .rp, .bool, .atom 3] ∧
    sameMeaning (addParens false ts) ts = false ∧
    addParens true ts = [.atom 0, .asg, .lp, .atom 1, .cmp, .atom 2, .rp, .bool, .atom 3] ∧
    sameMeaning (addParens true ts) ts = true := by
  decide +kernel

/-- TEST (bounded, not the unbounded claim): for every token list of length ≤ 5 that the parser accepts, the fixed
    scanner's output has the same tree -/
theorem fixed_same_meaning_upto5 :
    ((List.range 6).flatMap allLists).all (fun ts => (meaning ts).isNone || sameMeaning (addParens true ts) ts) = true := by
  decide +kernel

example : addParens true [.atom 0, .cmp, .atom 1, .bool, .atom 2, .cmp, .atom 3] =
    [.lp, .atom 0, .cmp, .atom 1, .rp, .bool, .lp, .atom 2, .cmp, .atom 3, .rp] := by decide
example : addParens true [.atom 0, .cmp, .atom 1] = [.atom 0, .cmp, .atom 1] := by decide

end Unc.PB
