import UncModel.Lemmas.CliLemmas
import UncModel.Gen.LogArgs
/-!
# C10 — output depends only on (bytes, language, configuration, file name)

Model: `UncModel/Cli.lean` (`Args`, `parseArgs`, `route`, `plan`), `UncModel/CheckMode.lean` (`execJob`, `runCli`);
the formatter is the abstract parameter `F : Bytes → Lang → Name → Bytes`.
-/
namespace Unc
open Cli

set_option maxRecDepth 8000 in
set_option maxHeartbeats 1600000 in
/-- which argv shape is read as which lookups: the argv of every delivery mode, with or without `-l`,
    for arbitrary `plain` names (not starting with `-`) -/
theorem C10_modes_parse (prog cfg n : Str) (l : Option Str) (m : Mode)
    (hprog : plain prog) (hcfg : plain cfg) (hn : plain n) (hl : ∀ x, l = some x → plain x)
    (hm : match m with
      | .fileOut o => plain o | .withPrefix p => plain p | .withSuffix s => plain s | .list f => plain f | _ => True) :
    parseArgs (m.argv prog cfg n l) = m.opts cfg n l := by
  cases l with
  | none => cases m <;> simp only [Mode.argv, Mode.words, Mode.opts, List.cons_append, List.nil_append] <;> parse_simp
  | some x =>
    have hx : plain x := hl x rfl
    cases m <;> simp only [Mode.argv, Mode.words, Mode.opts, List.cons_append, List.nil_append] <;> parse_simp

example : parseArgs (Mode.argv c!"uncrustify" c!"my.cfg" c!"a.c" (some c!"CPP") (.fileOut c!"out/a.c"))
    = { Opts.none with cfg := some c!"my.cfg", lang := some c!"CPP", sourceFile := some c!"a.c", output := some c!"out/a.c" } :=
  C10_modes_parse _ _ _ _ _ (by decide) (by decide) (by decide) (by intro x h; cases h; decide) (by decide)

set_option maxRecDepth 8000 in
set_option maxHeartbeats 1600000 in
/-- every delivery mode hands `F raw (language of NAME) NAME` — the same formatter call — to that mode's sink,
    writes nothing else, and ends with status 0 -/
theorem C10_modes_same_F (F : Formatter) (w : World) (env : Env) (prog cfg n : Str) (m : Mode)
    (hprog : plain prog) (hcfg : plain cfg) (hcfg' : cfg ≠ []) (hn : plain n)
    (hload : env.cfgLoad cfg = none) (hhdr : env.headersOk = true) (hfile : env.loadable n = true)
    (hm : m.ok env n) :
    runCli F w (m.argv prog cfg n none) env
      = (0, [m.eff n (F (m.raw w n) (langFlagsFromFilename env.extMap n) n)]) := by
  have hp := C10_modes_parse prog cfg n none m hprog hcfg hn (by intro x h; cases h)
    (by cases m <;> simp_all [Mode.ok])
  cases m <;> simp only [Mode.opts] at hp <;> simp only [Mode.ok] at hm
  all_goals (try obtain ⟨h1, t, h2, h3⟩ := hm)
  all_goals (try obtain ⟨t, h2, h3⟩ := hm)
  all_goals (try obtain ⟨h1, h2⟩ := hm)
  all_goals (simp only [runCli, plan, hp]; simp only [Mode.argv, Mode.words, List.cons_append, List.nil_append]; route_simp)
  all_goals simp +decide [Mode.eff, Mode.raw, *]

example : runCli (fun raw _ _ => raw.filter (· != 32)) { file := fun _ => [105, 32, 59], stdin := [] }
    (Mode.argv c!"uncrustify" c!"my.cfg" c!"a.c" none (.withPrefix c!"out"))
    { envCfg := none, homeCfg := none, cfgLoad := fun _ => none, extMap := [], optKnown := fun _ => true,
      optReads := fun _ _ => true, typeFile := fun _ => none, headersOk := true, loadable := fun _ => true,
      writable := fun _ => true, stdinOk := true, listText := fun _ => none }
    = (0, [.write c!"out/a.c" [105, 59]]) :=
  C10_modes_same_F _ _ _ _ _ _ _ (by decide) (by decide) (by decide) (by decide) rfl rfl rfl (by simp [Mode.ok, plain])

set_option maxRecDepth 8000 in
set_option maxHeartbeats 1600000 in
/-- the modes agree whether the language comes from the extension or from `-l`, whenever `-l` names the
    language the extension table (T-lang, with the configuration's `file_ext` lines) gives for the file -/
theorem C10_modes_lang_override (F : Formatter) (w : World) (env : Env) (prog cfg n x : Str) (m : Mode)
    (hprog : plain prog) (hcfg : plain cfg) (hcfg' : cfg ≠ []) (hn : plain n) (hx : plain x)
    (hload : env.cfgLoad cfg = none) (hhdr : env.headersOk = true) (hfile : env.loadable n = true)
    (hm : m.ok env n)
    (hlang : langFlagsFromName x = langFlagsFromFilename env.extMap n) (hnz : langFlagsFromFilename env.extMap n ≠ 0) :
    runCli F w (m.argv prog cfg n (some x)) env = runCli F w (m.argv prog cfg n none) env := by
  rw [C10_modes_same_F F w env prog cfg n m hprog hcfg hcfg' hn hload hhdr hfile hm]
  have hp := C10_modes_parse prog cfg n (some x) m hprog hcfg hn (by intro y h; cases h; exact hx)
    (by cases m <;> simp_all [Mode.ok])
  cases m <;> simp only [Mode.opts] at hp <;> simp only [Mode.ok] at hm
  all_goals (try obtain ⟨h1, t, h2, h3⟩ := hm)
  all_goals (try obtain ⟨t, h2, h3⟩ := hm)
  all_goals (try obtain ⟨h1, h2⟩ := hm)
  all_goals (simp only [runCli, plan, hp]; simp only [Mode.argv, Mode.words, List.cons_append, List.nil_append]; route_simp)
  all_goals simp +decide [Mode.eff, Mode.raw, *]

/-- stdin with `-l LANG` and no `--assume`: the formatter sees the name "stdin" and the language of `-l` -/
theorem C10_mode_stdin_lang (F : Formatter) (w : World) (env : Env) (prog cfg x : Str)
    (hprog : plain prog) (hcfg : plain cfg) (hcfg' : cfg ≠ []) (hx : plain x)
    (hload : env.cfgLoad cfg = none) (hhdr : env.headersOk = true) (hstdin : env.stdinOk = true)
    (hnz : langFlagsFromName x ≠ 0) :
    runCli F w [prog, c!"-c", cfg, c!"-l", x] env = (0, [.stdout (F w.stdin (langFlagsFromName x) c!"stdin")]) := by
  have hp : parseArgs [prog, c!"-c", cfg, c!"-l", x] = { Opts.none with cfg := some cfg, lang := some x } := by parse_simp
  simp only [runCli, plan, hp]
  route_simp

/-! ## observers -/

/-- The observer options `-q`, `-s`, `-L`, `-p`, `--dump-steps`, `--debug-csv-format` (set to arbitrary values
    on top of a command line that runs without them) either end the process with status 78 before any source
    is read (`--debug-csv-format` without `-p FILE`; `-p` / `--dump-steps` without `-f` in multi-file mode) or
    leave every job's input, name, language, sink, tracking target and mtime flag — and the flags `do_check`,
    `if_changed`, `frag`, `lang_forced` and the point where the run stops — unchanged. -/
theorem C10_observers_inert (o : Opts) (argc : Nat) (env : Env) (quiet showSev csv : Bool) (log parsed dump : Option Str)
    (hoff : o.parsed = none ∧ o.dump = none ∧ o.csv = false)
    (g : Globals) (jobs : List Job) (stop : Option Nat) (h : route o argc env = .run g jobs stop) :
    route (o.withObservers quiet showSev csv log parsed dump) argc env = .exit 78 ∨
    ∃ g' jobs', route (o.withObservers quiet showSev csv log parsed dump) argc env = .run g' jobs' stop
      ∧ jobs'.map Job.core = jobs.map Job.core ∧ g'.core = g.core :=
  observers_route (sameBut_withObservers o quiet showSev csv log parsed dump) hoff argc env g jobs stop h

/-- … and then every byte that reaches an output target (stdout, `-o`, prefix/suffix path, in-place rewrite),
    the exit status and `check_fail_cnt` are the same: the observers only add side files and log lines. -/
theorem C10_observers_same_bytes (F : Formatter) (w : World) (g g' : Globals) (jobs jobs' : List Job) (stop : Option Nat)
    (hj : jobs'.map Job.core = jobs.map Job.core) (hg : g'.core = g.core) :
    (runOutcome F w (.run g' jobs' stop)).1 = (runOutcome F w (.run g jobs stop)).1 ∧
    (runOutcome F w (.run g' jobs' stop)).2.filter Eff.isOutput = (runOutcome F w (.run g jobs stop)).2.filter Eff.isOutput := by
  have k := runJobs_core F g g' w hg jobs jobs' 0 hj
  have hc : g'.doCheck = g.doCheck := by
    simp only [Globals.core, Prod.mk.injEq] at hg; exact hg.1
  simp only [runOutcome, finalStatus, k.1, k.2.1, k.2.2, hc, and_self]

set_option maxRecDepth 8000 in
set_option maxHeartbeats 1600000 in
/-- the argv shape with all six observers is read as the `-f` mode plus observers (non-vacuity of the two
    theorems above at the argv level) -/
theorem C10_observers_parse (prog cfg n p d l : Str)
    (hprog : plain prog) (hcfg : plain cfg) (hn : plain n) (hp : plain p) (hd : plain d) (hl : plain l) :
    parseArgs [prog, c!"-c", cfg, c!"-f", n, c!"-p", p, c!"-L", l, c!"-s", c!"-q", c!"--dump-steps", d, c!"--debug-csv-format"]
      = (Mode.opts cfg n none .file).withObservers true true true (some l) (some p) (some d) := by
  simp only [Mode.opts, Opts.withObservers]
  parse_simp

example : (route ((Mode.opts c!"my.cfg" c!"a.c" none .file).withObservers true true true (some c!"A") (some c!"p.txt") (some c!"dmp"))
      14 { envCfg := none, homeCfg := none, cfgLoad := fun _ => none, extMap := [], optKnown := fun _ => true,
           optReads := fun _ _ => true, typeFile := fun _ => none, headersOk := true, loadable := fun _ => true,
           writable := fun _ => true, stdinOk := true, listText := fun _ => none }).jobs
      = [{ src := .file c!"a.c", name := c!"a.c", lang := 1, sink := .stdout, track := none,
           parsed := some c!"p.txt.csv", dump := some c!"dmp", keepMtime := false }] := by decide +kernel

/-! ## exit statuses -/

/-- every status with which `main()` ends before or between the formatter calls lies in
    {0, 1, 64, 66, 67, 68, 70, 74, 78}, provided the two callees that `exit` on their own —
    `load_option_file` and `load_keyword_file` — do (70, 0 resp. 74, 70 in the current sources) -/
theorem C10_status_set (argv : List Str) (env : Env)
    (hcfg : ∀ s n, env.cfgLoad s = some n → n ∈ statusSet) (htyp : ∀ s n, env.typeFile s = some n → n ∈ statusSet) :
    (plan argv env).statusOk ∧
    ∀ (F : Formatter) (w : World), (runCli F w argv env).1 ∈ statusSet := by
  have h1 : (plan argv env).statusOk := route_status _ _ _ hcfg htyp
  refine ⟨h1, ?_⟩
  intro F w
  unfold runCli
  cases hp : plan argv env with
  | exit n => rw [hp] at h1; exact h1
  | exitWriting p => simp [runOutcome, statusSet]
  | run g jobs stop =>
    rw [hp] at h1
    simp only [runOutcome, finalStatus]
    split
    · simp [statusSet]
    · cases stop with
      | some n => exact h1
      | none => simp only []; split <;> simp [statusSet]

example : plan [c!"uncrustify", c!"-c", c!"my.cfg", c!"--check", c!"-o", c!"x", c!"-f", c!"a.c"]
      { envCfg := none, homeCfg := none, cfgLoad := fun _ => none, extMap := [], optKnown := fun _ => true,
        optReads := fun _ _ => true, typeFile := fun _ => none, headersOk := true, loadable := fun _ => true,
        writable := fun _ => true, stdinOk := true, listText := fun _ => none } = .exit 67 := by decide +kernel

/-! ## which argv shapes are read as which option -/

/-- `Args::Present(tok)`: true iff some word of argv — the program name included — *equals* `tok` -/
theorem C10_args_present_exact (argv : List Str) (tok : Str) :
    ((Args.init argv).present tok).1 = true ↔ tok ∈ argv :=
  present_iff _ _

/-- `Args::Params` matches a word `w` against `tok` iff `w` is `tok`, or `tok=VALUE`, or — for short options
    only (fix `args-long-option-exact.patch`; before it, for every option) — `tok` followed by further characters -/
theorem C10_args_prefix_matching (tok w : Str) :
    preMatch tok w = true ↔
      w = tok ∨ (∃ v, w = tok ++ '=' :: v) ∨
      (¬ (tok.length > 2 ∧ tok[1]? = some '-') ∧ ∃ c v, w = tok ++ c :: v) :=
  preMatch_iff tok w

/-- the value `Args::Param(tok)` returns: the first matching word decides; a longer word yields its own tail
    (one leading `=` dropped), an exact word yields the *next* word whatever it looks like (or nothing at the end) -/
theorem C10_args_param_value (tok : Str) (pre : List Str) (w : Str) (post : List Str)
    (hpre : ∀ x ∈ pre, preMatch tok x = false) (hw : preMatch tok w = true) :
    ((Args.init (pre ++ w :: post)).param tok).1 =
      if w.length > tok.length then
        some (if (w.drop tok.length).head? = some '=' then w.drop (tok.length + 1) else w.drop tok.length)
      else post.head? :=
  param_value tok pre w post hpre hw

/-- a word that does not start with `-` is never read as an option (only, possibly, as the value of the
    option word before it) -/
theorem C10_args_plain_not_option (w t : Str) (h : plain w) :
    w ≠ '-' :: t ∧ preMatch ('-' :: t) w = false :=
  ⟨fun he => by simp [plain_ne w t h] at he, plain_preMatch w t h⟩

/-- Consequences worth knowing (each replayed on the real binary by props/c10.py):
    * only the *first* occurrence of an option word is consumed: a repeated `-q` becomes a positional file
      name and the run ends with 67 ("Cannot specify both the single file option and a multi-file option");
    * `a || b` lookups short-circuit: with `-L` present, `--log X` is left over as two file names;
    * a file whose name starts with `-f` is read as `-f REST`;
    * `--files LIST` is read as the list option (with the fix; before it `--file` matched it by prefix,
      `source_file` became "s" and the run ended with 67). -/
theorem C10_args_witnesses :
    (parseArgs [c!"uncrustify", c!"-q", c!"-q", c!"-c", c!"my.cfg", c!"-f", c!"a.c"]).unused = [c!"-q"] ∧
    (parseArgs [c!"uncrustify", c!"-L", c!"1", c!"--log", c!"2", c!"-c", c!"my.cfg", c!"-f", c!"a.c"]).unused = [c!"--log", c!"2"] ∧
    (parseArgs [c!"uncrustify", c!"-c", c!"my.cfg", c!"-foo.c"]).sourceFile = some c!"oo.c" ∧
    (parseArgs [c!"uncrustify", c!"-c", c!"my.cfg", c!"--files", c!"list.txt"]).sourceList = some c!"list.txt" ∧
    (parseArgs [c!"uncrustify", c!"-c", c!"my.cfg", c!"--files", c!"list.txt"]).sourceFile = none ∧
    (parseArgs [c!"uncrustify", c!"-c", c!"my.cfg", c!"--files=list.txt"]).sourceList = some c!"list.txt" ∧
    (parseArgs [c!"uncrustify", c!"-c", c!"my.cfg", c!"--prefix=out", c!"-lCPP", c!"a.c"]).pfx = some c!"out" ∧
    (parseArgs [c!"uncrustify", c!"-c", c!"my.cfg", c!"--prefix=out", c!"-lCPP", c!"a.c"]).lang = some c!"CPP" := by
  decide +kernel

/-- frame condition behind "observers are inert": `LOG_FMT(sev, …)` evaluates its arguments only when the severity is
    switched on (-L); no argument of any LOG_FMT in the current sources contains `++`, `--` or an assignment
    (table regenerated by translators/t_log.py on every run) -/
theorem C10_log_args_pure : Gen.logSideEffects = [] ∧ Gen.logCalls > 1000 := by decide

end Unc
