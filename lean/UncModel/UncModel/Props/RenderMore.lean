import UncModel.Lemmas.RenderMoreLemmas
/-!
# More properties of the output machine and of `output_text()`

* C03 — string/char literals are written verbatim
* C07 — disabled regions are copied through

Definitions (`RegionItem`, `regionChunks`, `regionBytes`) and proofs are in
`UncModel/Lemmas/RenderMoreLemmas.lean`.
-/

namespace Unc

/-! ## 1. verbatim text (C03) -/

/-- with `is_literal = true` a text without line breaks is written exactly (tabs included — the
    tab-after-space rewrite is disabled for literals) after flushing the blanks that were pending.
    Holds in both `output_trailspace` modes. -/
theorem literal_verbatim (c : OutCfg) (s : OutSt) (txt : List CP)
    (hx : ∀ x ∈ txt, x ≠ 10 ∧ x ≠ 13) (hne : txt ≠ []) (hlast : ∀ x, txt.getLast? = some x → x ≠ 32)
    (hts : s.tabSp = false) (hl : s.last ≠ 13) :
    (addText c s txt true).out = s.out ++ List.replicate s.spaces 32 ++ txt ∧
    (addText c s txt true).spaces = 0 :=
  addText_verbatim_out c s txt true hx hne hlast hts hl (Or.inl rfl)

/-- `"a \tb"` after `x =` with one pending space, `indent_with_tabs = 0`: the tab after the space survives -/
example : (addText { iwt := 0 } { spaces := 1, last := 32, rout := [61, 32, 120] } [34, 97, 32, 9, 98, 34] true).out
      = [120, 32, 61] ++ List.replicate 1 32 ++ [34, 97, 32, 9, 98, 34] ∧
    (addText { iwt := 0 } { spaces := 1, last := 32, rout := [61, 32, 120] } [34, 97, 32, 9, 98, 34] true).spaces = 0 :=
  literal_verbatim { iwt := 0 } { spaces := 1, last := 32, rout := [61, 32, 120] } [34, 97, 32, 9, 98, 34]
    (by decide) (by simp) (by intro x h; simp at h; subst h; decide) rfl (by decide)

/-- the same text, not literal: the tab after the space is rewritten (so the hypothesis of `literal_no_tab`
    cannot be dropped) -/
example : (addText { iwt := 0 } {} [97, 32, 9, 98] false).out = [97, 32, 32, 32, 32, 32, 32, 32, 98] := by decide

/-- the non-literal variant: the same, for a text without tabs -/
theorem literal_no_tab (c : OutCfg) (s : OutSt) (txt : List CP)
    (hx : ∀ x ∈ txt, x ≠ 10 ∧ x ≠ 13) (hne : txt ≠ []) (hlast : ∀ x, txt.getLast? = some x → x ≠ 32)
    (hts : s.tabSp = false) (hl : s.last ≠ 13) (htab : ∀ x ∈ txt, x ≠ 9) :
    (addText c s txt false).out = s.out ++ List.replicate s.spaces 32 ++ txt ∧
    (addText c s txt false).spaces = 0 :=
  addText_verbatim_out c s txt false hx hne hlast hts hl (Or.inr htab)

example : (addText {} { trail := true, spaces := 2, rout := [120] } [97, 32, 98] false).out
      = [120] ++ List.replicate 2 32 ++ [97, 32, 98] ∧
    (addText {} { trail := true, spaces := 2, rout := [120] } [97, 32, 98] false).spaces = 0 :=
  literal_no_tab {} { trail := true, spaces := 2, rout := [120] } [97, 32, 98]
    (by decide) (by simp) (by intro x h; simp at h; subst h; decide) rfl (by decide) (by decide)

/-- a `CT_STRING` chunk: its text appears verbatim in the output, preceded only by blanks -/
theorem text_chunk_verbatim (c : OutCfg) (o : RenderOpts) (s : RSt) (pc : Chunk) (prevCol prevLen : Nat)
    (hty : pc.ty = "STRING")
    (hx : ∀ x ∈ pc.txt, x ≠ 10 ∧ x ≠ 13) (hne : pc.txt ≠ [])
    (hlast : ∀ x, pc.txt.getLast? = some x → x ≠ 32)
    (hts : s.o.tabSp = false) (hl : s.o.last ≠ 13) :
    ∃ pre, (∀ x ∈ pre, isBlank x = true) ∧
      (renderText c o s pc prevCol prevLen).1.o.out = s.o.out ++ pre ++ pc.txt := by
  have hdef : ¬ (pc.ty = "PP_DEFINE" ∧ o.forceTabAfterDefine = true) := by
    rw [hty]; intro h; exact absurd h.1 (by decide)
  have hlit : decide (pc.ty = "STRING" ∨ pc.ty = "STRING_MULTI") = true := by simp [hty]
  obtain ⟨⟨hl', e, he, hpe⟩, hts'⟩ := textIndent_bext c o s.o pc prevCol prevLen hl
  obtain ⟨ho, _⟩ := addText_verbatim_out c (textIndent c o s.o pc prevCol prevLen) pc.txt true hx hne hlast
    (hts'.trans hts) hl' (Or.inl rfl)
  refine ⟨e ++ List.replicate (textIndent c o s.o pc prevCol prevLen).spaces 32, ?_, ?_⟩
  · intro x hx'
    rcases List.mem_append.1 hx' with h | h
    · exact hpe x h
    · rw [(List.mem_replicate.1 h).2]; rfl
  · rw [renderText_o]
    simp only [if_neg hdef, hlit]
    show (addText c (textIndent c o s.o pc prevCol prevLen) pc.txt true).out = _
    rw [ho, he]; simp

example : ∃ pre, (∀ x ∈ pre, isBlank x = true) ∧
    (renderText {} {} { o := { col := 4, last := 61, didNl := false, rout := [61, 32, 120] } }
      { ty := "STRING", txt := [34, 32, 9, 34], col := 5 } 3 1).1.o.out = [120, 32, 61] ++ pre ++ [34, 32, 9, 34] :=
  text_chunk_verbatim {} {} { o := { col := 4, last := 61, didNl := false, rout := [61, 32, 120] } }
    { ty := "STRING", txt := [34, 32, 9, 34], col := 5 } 3 1 rfl (by decide) (by simp)
    (by intro x h; simp at h; subst h; decide) rfl (by decide)

example : (renderText {} {} { o := { col := 4, last := 61, didNl := false, rout := [61, 32, 120] } }
      { ty := "STRING", txt := [34, 32, 9, 34], col := 5 } 3 1).1.o.out = [120, 32, 61, 32, 34, 32, 9, 34] := by decide

/-! ## 2. disabled regions (C07) -/

/-- a run of `IGNORED` and `NEWLINE` chunks is written as the ignored lines, byte for byte, separated by
    exactly `nl_count` terminators each — whatever the column state is.
    (`_hcr` is not needed: `add_char('\n')` does not run the pending-CR prologue and raw writes do not
    call `add_char`.) -/
theorem region_bytes (c : OutCfg) (o : RenderOpts) (items : List RegionItem) (cmt : Nat → Option CmtInfo)
    (prev : Nat × Nat) (s : RSt) (hs : s.o.spaces = 0) (_hcr : s.o.last ≠ 13)
    (hl : ∀ t, RegionItem.line t ∈ items → ∀ x ∈ t, x ≠ 10 ∧ x ≠ 13) :
    (renderLoop c o (regionChunks items).toArray cmt ((regionChunks items).length + 1) 0 prev s).o.out
      = s.o.out ++ regionBytes c.nl items := by
  have hlen : (regionChunks items).length = items.length := by simp [regionChunks]
  obtain ⟨prev', s', e, ho, _⟩ := renderLoop_region c o (regionChunks items).toArray cmt items []
    (items.length + 1) 0 prev s (by simp) (by omega) hs hl
  have e1 : items.length + 1 - items.length = 1 := by omega
  rw [hlen, e, e1, renderLoop]
  have hnone : (regionChunks items).toArray[0 + items.length]? = none := by simp [hlen]
  simp only [hnone]
  exact ho

/-- the same for a region embedded in an arbitrary chunk array: started at the first chunk of the region with
    enough fuel, the loop reaches the chunk after the region having written exactly the region's bytes -/
theorem region_bytes_embedded (c : OutCfg) (o : RenderOpts) (cs : Array Chunk) (cmt : Nat → Option CmtInfo)
    (items : List RegionItem) (post : List Chunk) (f i : Nat) (prev : Nat × Nat) (s : RSt)
    (hcs : cs.toList.drop i = regionChunks items ++ post) (hf : items.length ≤ f) (hs : s.o.spaces = 0)
    (hl : ∀ t, RegionItem.line t ∈ items → ∀ x ∈ t, x ≠ 10 ∧ x ≠ 13) :
    ∃ prev' s', renderLoop c o cs cmt f i prev s =
        renderLoop c o cs cmt (f - items.length) (i + items.length) prev' s' ∧
      s'.o.out = s.o.out ++ regionBytes c.nl items ∧ s'.o.spaces = 0 :=
  renderLoop_region c o cs cmt items post f i prev s hcs hf hs hl

/-- `  a\tb`, two line breaks, `c` — from a state in the middle of a line, CRLF output -/
def exRegion : List RegionItem := [.line [32, 32, 97, 9, 98], .brk 2, .line [99], .brk 1]

theorem exRegion_ok : ∀ t, RegionItem.line t ∈ exRegion → ∀ x ∈ t, x ≠ 10 ∧ x ≠ 13 := by
  intro t ht
  simp [exRegion] at ht
  rcases ht with rfl | rfl <;> decide

example : (renderLoop { nl := [13, 10] } {} (regionChunks exRegion).toArray (fun _ => none)
      ((regionChunks exRegion).length + 1) 0 (0, 0) { o := { col := 17, last := 47, didNl := false, rout := [47] } }).o.out
    = [47] ++ regionBytes [13, 10] exRegion :=
  region_bytes { nl := [13, 10] } {} exRegion (fun _ => none) (0, 0)
    { o := { col := 17, last := 47, didNl := false, rout := [47] } } rfl (by decide) exRegion_ok

example : [47] ++ regionBytes [13, 10] exRegion = [47, 32, 32, 97, 9, 98, 13, 10, 13, 10, 99, 13, 10] := by decide

example : ∃ prev' s',
    renderLoop {} {} (#[{ ty := "WORD", txt := [120], col := 1 }] ++ (regionChunks exRegion).toArray) (fun _ => none)
        9 1 (0, 0) {} =
      renderLoop {} {} (#[{ ty := "WORD", txt := [120], col := 1 }] ++ (regionChunks exRegion).toArray) (fun _ => none)
        (9 - exRegion.length) (1 + exRegion.length) prev' s' ∧
    s'.o.out = [] ++ regionBytes [10] exRegion ∧ s'.o.spaces = 0 :=
  region_bytes_embedded {} {} (#[{ ty := "WORD", txt := [120], col := 1 }] ++ (regionChunks exRegion).toArray)
    (fun _ => none) exRegion [] 9 1 (0, 0) {} (by simp [exRegion, regionChunks]) (by decide) rfl exRegion_ok

end Unc
