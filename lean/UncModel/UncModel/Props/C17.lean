import UncModel.EatSE
import UncModel.Props.Render
/-!
# C17 — whitespace hygiene

End-of-file policy (this file) and, from `Props/Render.lean`: `addtext_tidy`, `rendertext_tidy`,
`newline_run`, `newline_run_indented`, `nlcont_emits`, `to_column_*`, `first_on_line_prefix`
(audited by the C17 check as well).
-/
namespace Unc

/-- nl_end_of_file / nl_start_of_file = force: exactly `min` line breaks at that edge -/
theorem C17_eof_force (min : Nat) (edge : Option Nat) :
    edgeBreaks (eatEdge false .force min edge) = min := by
  cases edge <;> simp [eatEdge, IARF.hasRemove, IARF.hasAdd, edgeBreaks]
  all_goals (split <;> simp_all [edgeBreaks])

/-- = remove: no line break at that edge -/
theorem C17_eof_remove (min : Nat) (edge : Option Nat) :
    edgeBreaks (eatEdge false .remove min edge) = 0 := by
  cases edge <;> simp [eatEdge, IARF.hasRemove, IARF.hasAdd, edgeBreaks]

/-- = add: at least `min`, and what was there is kept when it already suffices -/
theorem C17_eof_add (min : Nat) (edge : Option Nat) :
    edgeBreaks (eatEdge false .add min edge) = max min (edgeBreaks edge) := by
  cases edge with
  | none =>
    simp only [eatEdge, IARF.hasRemove, IARF.hasAdd, edgeBreaks]
    by_cases h : min > 0 <;> simp [h, edgeBreaks] <;> omega
  | some n =>
    simp only [eatEdge, IARF.hasRemove, IARF.hasAdd, edgeBreaks]
    by_cases h : min > 0
    · by_cases h2 : n < min <;> simp [h, h2, edgeBreaks] <;> omega
    · simp [h, edgeBreaks]; omega

/-- = ignore: unchanged; and nothing happens at all in fragment mode -/
theorem C17_eof_ignore (min : Nat) (edge : Option Nat) (frag : Bool) (opt : IARF) :
    eatEdge frag .ignore min edge = edge ∧ eatEdge true opt min edge = edge := by
  constructor <;> simp [eatEdge, IARF.hasRemove, IARF.hasAdd]

/-- the two passes together (what a user observes): force → exactly `min`; remove → none;
    add → `min`, but at least the single break that was there; ignore → untouched -/
theorem C17_file_edge (min : Nat) (edge : Option Nat) :
    edgeBreaks (fileEdge false .force min edge) = min ∧
    edgeBreaks (fileEdge false .remove min edge) = 0 ∧
    edgeBreaks (fileEdge false .add min edge) = (match edge with | none => min | some _ => max min 1) ∧
    fileEdge false .ignore min edge = edge := by
  refine ⟨?_, ?_, ?_, ?_⟩
  · exact C17_eof_force min _
  · exact C17_eof_remove min _
  · rw [fileEdge, C17_eof_add]
    cases edge <;> simp [blankEdge, edgeBreaks]
  · simp [fileEdge, blankEdge, (C17_eof_ignore min edge false .ignore).1]

example : edgeBreaks (fileEdge false .add 0 (some 3)) = 1 := by decide
example : edgeBreaks (eatEdge false .force 1 (some 4)) = 1 := by decide
example : edgeBreaks (eatEdge false .add 2 none) = 2 := by decide
example : edgeBreaks (eatEdge false .add 1 (some 3)) = 3 := by decide
example : edgeBreaks (eatEdge false .remove 5 (some 3)) = 0 := by decide

end Unc
