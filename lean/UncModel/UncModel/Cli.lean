import UncModel.Basic
import UncModel.Gen.CliLang
/-!
# L10 `Cli` — command-line routing of `main()` (src/uncrustify.cpp) and `Args` (src/args.cpp)

Strings are C strings: `Str := List Char`, one `Char` per *byte* (the driver maps byte `b` to
`Char.ofNat b`); every option token is ASCII.

`plan argv env = route (parseArgs argv) argv.length env`

* `parseArgs` performs every `Args::Present/Param/Params` call of `main()` in source order,
  threading the `m_used` bit array.  The calls are pure apart from setting bits of `m_used`, and
  `m_used` is only read by `Args::Unused` after the last call (and in the `--decode` branch, whose
  status is 0 whatever the bits are), so evaluating all of them *before* the early exits that
  `main()` interleaves with them cannot be observed.  Short-circuit `||` / `&&` between two lookups
  *is* observable through `m_used` (the second lookup is skipped, so its words stay unused and become
  positional file names) and is modelled (`param2`, `present2`).
* `route` follows `main()` from `if (argc == 1)` to the final `return`, statement by statement,
  including every early `return`/`exit` and its status: `earlyExit` is the chain of early exits in
  source order (one small function each), `dispatch` the final three-way branch
  (`dispatchStdin` / `dispatchSingle` / `dispatchMulti`).

The model follows the sources *with* three repairs applied (see `fixes/`): `args-long-option-exact.patch`
(`preMatch`), `list-skip-blank-lines.patch` (`listEntry`), `stdin-if-changed.patch` (`stdinExit`, and
`execJob` in CheckMode.lean treating the stdin job like any other under `--if-changed`).

The formatter itself (`uncrustify_file`) is not modelled: the plan names, for every call of it, the
input source, `cpd.filename`, `cpd.lang_flags`, the sink and the side files.
-/
namespace Unc.Cli

abbrev Str := List Char

-- string literal as a list of characters, built at elaboration time
open Lean in
macro:max "c!" s:str : term => do
  let cs := s.getString.toList
  let elems ← cs.toArray.mapM (fun c => `($(Syntax.mkCharLit c)))
  `(([$elems,*] : List Char))

/-! ## `Args` (src/args.cpp) -/

/-- `class Args`: `m_values` (index 0 is the program name) and one `m_used` bit per index -/
structure Args where
  vals : List Str
  used : List Bool
deriving Repr, DecidableEq

/-- `Args::Args`: all bits clear -/
def Args.init (argv : List Str) : Args := ⟨argv, argv.map (fun _ => false)⟩

/-- `Args::SetUsed`: only `0 < idx < m_count` is ever marked -/
def Args.setUsed (a : Args) (idx : Nat) : Args :=
  if 0 < idx ∧ idx < a.vals.length then { a with used := a.used.set idx true } else a

/-- `Args::GetUsed` -/
def Args.getUsed (a : Args) (idx : Nat) : Bool :=
  decide (0 < idx) && decide (idx < a.vals.length) && a.used.getD idx false

/-- first index `≥ i` (counting from `i` at the head) whose word equals `tok` (`strcmp == 0`) -/
def findEq (tok : Str) : List Str → Nat → Option Nat
  | [], _ => none
  | v :: vs, i => if v = tok then some i else findEq tok vs (i + 1)

/-- `Args::Present(token)`: the scan starts at index 0 -/
def Args.present (a : Args) (tok : Str) : Bool × Args :=
  match findEq tok a.vals 0 with
  | some i => (true, a.setUsed i)
  | none => (false, a)

/-- the match test of `Args::Params`: `arg_len >= token_len && memcmp(token, arg, token_len) == 0`,
    and — fix `args-long-option-exact.patch` — a long option (`--x`) followed by further characters
    matches only if the next character is `=` (otherwise `--file` swallowed `--files`) -/
def preMatch (tok v : Str) : Bool :=
  tok.isPrefixOf v &&
    !(decide (v.length > tok.length) && decide (tok.length > 2) && tok[1]? == some '-'
      && (v.drop tok.length).head? != some '=')

/-- first index `≥ i` whose word is matched by `tok` -/
def findPre (tok : Str) : List Str → Nat → Option (Nat × Str)
  | [], _ => none
  | v :: vs, i => if preMatch tok v then some (i, v) else findPre tok vs (i + 1)

/-- `Args::Params(token, index)`: value, new `index`, new state.
    * word longer than the token: the rest of the word, one leading `=` dropped;
    * word equal to the token: the next word (marked used), or `nullptr` if there is none. -/
def Args.params (a : Args) (tok : Str) (index : Nat) : Option Str × Nat × Args :=
  match findPre tok (a.vals.drop index) index with
  | none => (none, index, a)
  | some (idx, v) =>
    let a1 := a.setUsed idx
    if v.length > tok.length then
      let rest := v.drop tok.length
      (some (if rest.head? = some '=' then rest.drop 1 else rest), idx + 1, a1)
    else
      match a.vals[idx + 1]? with
      | some nxt => (some nxt, idx + 2, a1.setUsed (idx + 1))
      | none => (none, idx + 2, a1)

/-- `Args::Param(token)` = `Params(token, 0)` -/
def Args.param (a : Args) (tok : Str) : Option Str × Args :=
  let r := a.params tok 0
  (r.1, r.2.2)

/-- `while ((p = arg.Params(tok, idx)) != nullptr) …` starting at `idx = 0`: the values in order.
    Each successful call advances `idx`, so `m_count + 1` rounds are enough. -/
def Args.paramLoop (tok : Str) : Nat → Args → Nat → List Str × Args
  | 0, a, _ => ([], a)
  | fuel + 1, a, idx =>
    match a.params tok idx with
    | (some v, idx', a') => let r := Args.paramLoop tok fuel a' idx'; (v :: r.1, r.2)
    | (none, _, a') => ([], a')

def Args.paramAll (a : Args) (tok : Str) : List Str × Args :=
  Args.paramLoop tok (a.vals.length + 1) a 0

/-- `Args::Unused(index)`: first index `≥ index` that is not marked; new `index` -/
def Args.unusedFrom (a : Args) : Nat → Nat → Option (Str × Nat)
  | 0, _ => none
  | fuel + 1, idx =>
    match a.vals[idx]? with
    | none => none
    | some v => if !a.getUsed idx then some (v, idx + 1) else a.unusedFrom fuel (idx + 1)

def Args.unused (a : Args) (index : Nat) : Option Str × Nat :=
  match a.unusedFrom (a.vals.length + 1) index with
  | some (v, i) => (some v, i)
  | none => (none, a.vals.length)

/-- `idx = 1; while ((p = arg.Unused(idx)) != nullptr) …`: all unmarked words from index 1 on -/
def Args.unusedLoop (a : Args) : Nat → Nat → List Str
  | 0, _ => []
  | fuel + 1, idx =>
    match a.unused idx with
    | (some v, idx') => v :: a.unusedLoop fuel idx'
    | (none, _) => []

def Args.unusedAll (a : Args) : List Str := a.unusedLoop (a.vals.length + 1) 1

/-- `(p = Param(t1)) != nullptr || (p = Param(t2)) != nullptr` — the second lookup only happens
    (and only then marks words) when the first returned `nullptr` -/
def Args.param2 (a : Args) (t1 t2 : Str) : Option Str × Args :=
  match a.param t1 with
  | (some v, a1) => (some v, a1)
  | (none, a1) => a1.param t2

/-- `Present(t1) || Present(t2)` -/
def Args.present2 (a : Args) (t1 t2 : Str) : Bool × Args :=
  match a.present t1 with
  | (true, a1) => (true, a1)
  | (false, a1) => a1.present t2

/-! ## every lookup of `main()`, in source order -/

structure Opts where
  version : Bool            -- `--version` || `-v`
  help : Bool               -- `--help` || `-h` || `--usage` || `-?`
  countOptions : Bool
  showConfig : Bool
  check : Bool              -- cpd.do_check
  ifChanged : Bool          -- cpd.if_changed
  quiet : Bool              -- `-q`
  findDeprecated : Bool
  log : Option Str          -- `-L` || `--log`
  frag : Bool
  decode : Bool
  cfg : Option Str          -- `--config` || `-c`
  parsed : Option Str       -- `--parsed` || `-p`
  dump : Option Str         -- `--dump-steps` || `-ds`
  showSev : Bool            -- `-s` || `--show`
  tfiles : List Str         -- every `-t`
  types : List Str          -- every `--type`
  lang : Option Str         -- `-l`
  sourceFile : Option Str   -- `--file`, else `-f`
  sourceList : Option Str   -- `--files`, else `-F`
  pfx : Option Str
  sfx : Option Str
  assume : Option Str
  noBackup : Bool
  replace : Bool
  keepMtime : Bool
  updateConfig : Bool
  updateConfigWd : Bool
  detect : Bool
  csv : Bool                -- `--debug-csv-format`
  output : Option Str       -- `-o`
  tracking : Option Str     -- `--tracking`
  sets : List Str           -- every `--set`
  universalindent : Bool
  unused : List Str         -- `Unused` loop from index 1 after all lookups
deriving Repr, DecidableEq

def parseArgs (argv : List Str) : Opts :=
  let a := Args.init argv
  let (version, a) := a.present2 c!"--version" c!"-v"
  let (help1, a) := a.present2 c!"--help" c!"-h"
  let (help2, a) := if help1 then (true, a) else a.present2 c!"--usage" c!"-?"
  let (countOptions, a) := a.present c!"--count-options"
  let (showConfig, a) := a.present c!"--show-config"
  let (check, a) := a.present c!"--check"
  let (ifChanged, a) := a.present c!"--if-changed"
  let (_, a) := a.present c!"-q"
  let (findDeprecated, a) := a.present c!"--find_deprecated"
  let (log, a) := a.param2 c!"-L" c!"--log"
  let (frag, a) := a.present c!"--frag"
  let (decode, a) := a.present c!"--decode"
  let (cfg, a) := a.param2 c!"--config" c!"-c"
  let (parsed, a) := a.param2 c!"--parsed" c!"-p"
  let (dump, a) := a.param2 c!"--dump-steps" c!"-ds"
  let (showSev, a) := a.present2 c!"-s" c!"--show"
  let (tfiles, a) := a.paramAll c!"-t"
  let (types, a) := a.paramAll c!"--type"
  let (lang, a) := a.param c!"-l"
  let (sourceFile, a) := a.param2 c!"--file" c!"-f"
  let (sourceList, a) := a.param2 c!"--files" c!"-F"
  let (pfx, a) := a.param c!"--prefix"
  let (sfx, a) := a.param c!"--suffix"
  let (assume, a) := a.param c!"--assume"
  let (noBackup, a) := a.present c!"--no-backup"
  let (replace, a) := a.present c!"--replace"
  let (keepMtime, a) := a.present c!"--mtime"
  let (updateConfig, a) := a.present c!"--update-config"
  let (updateConfigWd, a) := a.present c!"--update-config-with-doc"
  let (detect, a) := a.present c!"--detect"
  let (csv, a) := a.present c!"--debug-csv-format"
  let (quiet, a) := a.present c!"-q"
  let (output, a) := a.param c!"-o"
  let (tracking, a) := a.param c!"--tracking"
  let (sets, a) := a.paramAll c!"--set"
  let (universalindent, a) := a.present c!"--universalindent"
  { version, help := help2, countOptions, showConfig, check, ifChanged, quiet, findDeprecated, log, frag,
    decode, cfg, parsed, dump, showSev, tfiles, types, lang, sourceFile, sourceList, pfx, sfx, assume,
    noBackup, replace, keepMtime, updateConfig, updateConfigWd, detect, csv, output, tracking, sets,
    universalindent, unused := a.unusedAll }

/-! ## language tables (src/language_names.cpp; tables in `Gen/Lang.lean`) -/

/-- `tolower` in the C locale -/
def asciiLower (c : Char) : Char :=
  if 65 ≤ c.toNat ∧ c.toNat ≤ 90 then Char.ofNat (c.toNat + 32) else c

/-- `strcasecmp(a, b) == 0` -/
def eqNoCase (a b : Str) : Bool := a.map asciiLower == b.map asciiLower

/-- `language_flags_from_name` -/
def langFlagsFromName (name : Str) : Nat :=
  match langNames.find? (fun p => eqNoCase name p.1) with
  | some p => p.2
  | none => 0

/-- `ends_with(filename, tag, case_sensitive)` -/
def endsWith (f tag : Str) (caseSensitive : Bool) : Bool :=
  decide (tag.length ≤ f.length) &&
    (if caseSensitive then f.drop (f.length - tag.length) == tag
     else eqNoCase (f.drop (f.length - tag.length)) tag)

/-- `language_flags_from_filename`; `custom` is `g_ext_map` (config `file_ext` lines) in
    `std::map` iteration order (sorted by extension) as (extension, language name) -/
def langFlagsFromFilename (custom : List (Str × Str)) (f : Str) : Nat :=
  match custom.find? (fun p => endsWith f p.1 true) with
  | some p => langFlagsFromName p.2
  | none =>
  match langExts.find? (fun p => endsWith f p.1 true) with
  | some p => langFlagsFromName p.2
  | none =>
  match custom.find? (fun p => endsWith f p.1 false) with
  | some p => langFlagsFromName p.2
  | none =>
  match langExts.find? (fun p => endsWith f p.1 false) with
  | some p => langFlagsFromName p.2
  | none => langDefault

/-! ## the environment `main()` consults -/

structure Env where
  /-- `getenv("UNCRUSTIFY_CONFIG")` -/
  envCfg : Option Str
  /-- result of the `$HOME/.uncrustify.cfg`, `$HOME/uncrustify.cfg` search (`none`: HOME unset or neither exists) -/
  homeCfg : Option Str
  /-- `load_option_file(name)`: `none` = returns `true`; `some n` = the process ends with status `n`
      (`exit(EX_SOFTWARE)` inside it when the file cannot be opened or holds a bad character; 74 if it
      returned `false`, which the current body never does) -/
  cfgLoad : Str → Option Nat
  /-- `g_ext_map` after loading the configuration -/
  extMap : List (Str × Str)
  /-- `uncrustify::find_option(name) != nullptr` -/
  optKnown : Str → Bool
  /-- `opt->read(value)` succeeds -/
  optReads : Str → Str → Bool
  /-- `load_keyword_file(name)` (`-t`): `none` = returns, `some n` = calls `exit(n)` (74 not openable, 70 invalid line) -/
  typeFile : Str → Option Nat
  /-- `load_header_files()` returns (every `cmt_insert_*` file named by the configuration loads) -/
  headersOk : Bool
  /-- `load_mem_file(name)` succeeds (stat, fopen, fread, decode_unicode) -/
  loadable : Str → Bool
  /-- `fopen(name, "w")` / `freopen(name, "wb", stdout)` succeeds (used by `main()` itself only) -/
  writable : Str → Bool
  /-- `read_stdin` succeeds (decode_unicode) -/
  stdinOk : Bool
  /-- text of the `-F` list (`none`: `fopen(name, "r")` fails); for `-F -` the text of stdin -/
  listText : Str → Option Str

/-! ## plan -/

inductive Source where
  | stdin
  | file (name : Str)
deriving Repr, DecidableEq

/-- where `cpd.fout` points for one call of the formatter -/
inductive Sink where
  /-- `pfout == nullptr` (check mode, or first pass of `--if-changed`) -/
  | none
  /-- the process's stdout -/
  | stdout
  /-- stdout after `freopen(path, "wb", stdout)` (stdin mode with `-o`), or `fopen(path, "wb")` of a
      path different from the input (`-f … -o`, `--prefix` or `--suffix`) -/
  | path (p : Str)
  /-- output name equals input name: write `p ++ ".uncrustify"`, then compare/rename over `p`;
      `backup`: `backup_copy_file` + `backup_create_md5_file` -/
  | inplace (p : Str) (backup : Bool)
deriving Repr, DecidableEq

structure Job where
  src : Source
  /-- `cpd.filename` during formatting -/
  name : Str
  /-- `cpd.lang_flags` at entry of `uncrustify_file` -/
  lang : Nat
  sink : Sink
  /-- `cpd.html_file` (`--tracking kind:FILE`): `output_text` writes FILE instead of the sink (which, if it is
      a file, has been opened and stays empty) and `uncrustify_file` calls `exit(EX_OK)` right after -/
  track : Option Str
  /-- `parsed_file` handed to `uncrustify_file` (`-p`; `-` = stdout) -/
  parsed : Option Str
  /-- `dump_file` handed to `uncrustify_file` (empty string = none) -/
  dump : Option Str
  /-- `utime(filename_in)` after writing (`--mtime`) -/
  keepMtime : Bool
deriving Repr, DecidableEq

/-- process-wide flags that the formatter reads -/
structure Globals where
  doCheck : Bool
  ifChanged : Bool
  frag : Bool
  quiet : Bool
  log : Option Str
  showSev : Bool
  /-- `cpd.lang_forced` -/
  langForced : Bool
deriving Repr, DecidableEq

inductive Outcome where
  /-- the process ends with this status before any source is read -/
  | exit (status : Nat)
  /-- configuration text is written to `path` (`--universalindent`, `--detect`, `--update-config[-with-doc]`
      with `-o path`), then the process ends with status 0; no source is formatted -/
  | exitWriting (path : Str)
  /-- the jobs run in order; then, `stop = some n`: `exit(n)` is called (a file that does not load,
      a list that does not open, the tracking exit); `stop = none`: `main()` reaches its final `return`
      (status 1 iff `do_check` and some job failed the comparison, else 0) -/
  | run (g : Globals) (jobs : List Job) (stop : Option Nat)
deriving Repr, DecidableEq

/-- `strtok(buffer, ":")` followed by `strtok(nullptr, "\0")` -/
def splitTracking (s : Str) : Option Str × Option Str :=
  let s1 := s.dropWhile (· == ':')
  if s1.isEmpty then (none, none) else
  let tok := s1.takeWhile (· != ':')
  match s1.dropWhile (· != ':') with
  | [] => (some tok, none)
  | _ :: r => (some tok, if r.isEmpty then none else some r)

/-- the tokens `strtok(…, "=")` yields -/
def splitEq : Str → Str → List Str
  | [], cur => if cur.isEmpty then [] else [cur.reverse]
  | c :: cs, cur =>
    if c == '=' then (if cur.isEmpty then splitEq cs [] else cur.reverse :: splitEq cs [])
    else splitEq cs (c :: cur)

/-- one round of the `--set` loop: `none` = continue, `some n` = return n -/
def setStep (env : Env) (p : Str) : Option Nat :=
  if p.length > 256 then some 70 else
  match splitEq p [] with
  | [option, value] =>
    if env.optKnown option then (if env.optReads option value then none else some 1) else some 1
  | _ => some 64

def setLoop (env : Env) : List Str → Option Nat
  | [] => none
  | p :: ps => match setStep env p with
    | some n => some n
    | none => setLoop env ps

/-- `make_output_filename` (lengths below the 1024-byte buffer) -/
def makeOutputFilename (name : Str) (pfx sfx : Option Str) : Str :=
  (match pfx with | some p => p ++ ['/'] | none => []) ++ name ++ (sfx.getD [])

/-- `isspace` in the C locale on a `char` (bytes ≥ 128 are negative, `unc_fix_ctype` maps them to 0) -/
def isSpaceC (c : Char) : Bool := c.toNat == 32 || (decide (9 ≤ c.toNat) && decide (c.toNat ≤ 13))

/-- `fgets(linebuf, 256, f)`: at most `n` characters, stopping after a line feed -/
def fgetsChunk : Nat → Str → Str × Str
  | 0, s => ([], s)
  | _, [] => ([], [])
  | n + 1, c :: cs =>
    if c == '\n' then ([c], cs) else
    let r := fgetsChunk n cs
    (c :: r.1, r.2)

/-- body of the `process_source_list` loop for one `fgets` result: trim, `\` → `/`;
    `none` for lines that are skipped (`#…`, and — fix `list-skip-blank-lines.patch` — empty names) -/
def listEntry (line : Str) : Option Str :=
  let f := (line.dropWhile isSpaceC).reverse.dropWhile isSpaceC |>.reverse
  let f := f.map (fun c => if c == '\\' then '/' else c)
  if f.head? == some '#' || f.isEmpty then none else some f

def listNamesAux : Nat → Str → List Str
  | 0, _ => []
  | fuel + 1, s =>
    if s.isEmpty then [] else
    let r := fgetsChunk 255 s
    match listEntry r.1 with
    | some f => f :: listNamesAux fuel r.2
    | none => listNamesAux fuel r.2

/-- the file names `process_source_list` hands to `do_source_file`, in order -/
def listNames (text : Str) : List Str := listNamesAux (text.length + 1) text

/-- the routing part of `do_source_file(filename_in, filename_out, parsed_file, dump_file, no_backup, keep_mtime)` -/
def fileJob (g : Globals) (forcedFlags : Nat) (custom : List (Str × Str))
    (nameIn : Str) (nameOut : Option Str) (parsed dump : Option Str) (noBackup keepMtime : Bool)
    (trk : Option Str) : Job :=
  { src := .file nameIn
    name := nameIn
    -- `if (!cpd.lang_forced || cpd.lang_flags == 0) cpd.lang_flags = language_flags_from_filename(filename_in)`
    lang := if !g.langForced || forcedFlags == 0 then langFlagsFromFilename custom nameIn else forcedFlags
    sink :=
      if g.doCheck then .none else
      match nameOut with
      | none => .stdout
      | some o => if nameIn = o then .inplace o (!noBackup) else .path o
    track := trk
    parsed := parsed
    dump := dump
    keepMtime := keepMtime && !g.doCheck && nameOut.isSome }

/-- jobs for a list of names: the first name that does not load ends the process with 74;
    under `--tracking` the first job that runs ends the process with 0 -/
def fileJobs (env : Env) (trk : Bool) (mk : Str → Job) : List Str → List Job × Option Nat
  | [] => ([], none)
  | n :: ns =>
    if !env.loadable n then ([], some 74) else
    if trk then ([mk n], some 0) else
    let r := fileJobs env trk mk ns
    (mk n :: r.1, r.2)

/-! ### `main()` after the argument lookups

`main()` is a chain of early `return`/`exit` statements followed by a three-way branch.  Each early
exit is a function returning `none` (fall through) or `some outcome`; `earlyExit` tries them in
source order.  The values computed on the way (`Pre`) do not depend on which exits were passed. -/

/-- values `main()` derives from the lookups before any source is read -/
structure Pre where
  /-- `cfg_file`: `--config`/`-c`, else `$UNCRUSTIFY_CONFIG`, else the file found under `$HOME`, else "" -/
  cfgFile : Str
  /-- `parsed_file` after the `--debug-csv-format` adjustment (".csv" appended unless already there) -/
  parsed : Option Str
  /-- `cpd.html_file` (`--tracking kind:FILE` with a non-empty FILE) -/
  trk : Option Str
  /-- `suffix` after defaulting to ".uncrustify" -/
  sfx : Option Str
  /-- `cpd.lang_flags` after `-l` (0: no or unknown `-l`); `cpd.lang_forced` iff non-zero -/
  forcedFlags : Nat
  /-- `dump_file_name` (80-byte buffer), `none` when empty -/
  dump : Option Str
deriving Repr, DecidableEq

/-- `(tracking_art, html_file)` of the `--tracking` block -/
def trackingSplit (o : Opts) : Option Str × Option Str :=
  match o.tracking with
  | some t => splitTracking t
  | none => (none, none)

def Pre.of (o : Opts) (env : Env) : Pre :=
  { cfgFile := match o.cfg with
      | some c => c
      | none => match env.envCfg with
        | some c => c
        | none => env.homeCfg.getD []
    parsed := match o.parsed with
      | some p => if o.csv && !endsWith p c!".csv" false then some (p ++ c!".csv") else some p
      | none => none
    trk := match trackingSplit o with
      | (some _, some f) => some f
      | _ => none
    sfx := if !o.check && !o.replace && !o.noBackup && o.pfx.isNone && o.sfx.isNone then some c!".uncrustify" else o.sfx
    forcedFlags := match o.lang with
      | some l => langFlagsFromName l
      | none => 0
    dump := match o.dump with
      | some d => if (d.take 79).isEmpty then none else some (d.take 79)
      | none => none }

/-- `if (argc == 1) { usage(); return EXIT_SUCCESS; }` -/
def exitArgc (argc : Nat) : Option Outcome := if argc == 1 then some (.exit 0) else none

/-- `--version`/`-v`, `--help`/`-h`/`--usage`/`-?`, `--count-options`, `--show-config`, `--decode`: status 0 -/
def exitInfo (o : Opts) : Option Outcome :=
  if o.version || o.help || o.countOptions || o.showConfig || o.decode then some (.exit 0) else none

/-- `while ((p_arg = arg.Params("-t", idx)) != nullptr) load_keyword_file(p_arg);` -/
def exitTypes (o : Opts) (env : Env) : Option Outcome := (o.tfiles.findSome? env.typeFile).map .exit

/-- `--debug-csv-format` without `-p FILE` (or with `-p -`): `exit(EX_CONFIG)` -/
def exitCsv (o : Opts) : Option Outcome :=
  if o.csv && (o.parsed.isNone || o.parsed == some ['-']) then some (.exit 78) else none

/-- the `--tracking` block: argument longer than the buffer → 70; unknown kind → 1 -/
def exitTracking (o : Opts) : Option Outcome :=
  if (match o.tracking with | some t => decide (t.length > 256) | none => false) then some (.exit 70) else
  match trackingSplit o with
  | (some art, some _) =>
    if art == c!"space" || art == c!"nl" || art == c!"start" then none else some (.exit 1)
  | _ => none

/-- "Cannot use --check with output options." -/
def exitCheckTable (o : Opts) : Option Outcome :=
  if o.check && (o.output.isSome || o.replace || o.noBackup || o.keepMtime || o.updateConfig
                 || o.updateConfigWd || o.detect || o.pfx.isSome || o.sfx.isSome || o.ifChanged)
  then some (.exit 67) else none

/-- "Cannot use --replace with --prefix or --suffix" / "… with -f or -o" -/
def exitReplace (o : Opts) : Option Outcome :=
  if !o.check && o.replace && (o.pfx.isSome || o.sfx.isSome || o.sourceFile.isSome || o.output.isSome)
  then some (.exit 66) else none

/-- loading the configuration file (skipped for an empty name or one starting with `-`) -/
def exitConfig (o : Opts) (env : Env) (cfgFile : Str) : Option Outcome :=
  if !cfgFile.isEmpty && cfgFile.head? != some '-' then
    match env.cfgLoad cfgFile with
    | some n => some (.exit n)
    -- `if (cpd.find_deprecated) { …; exit(EX_OK); }` at the end of load_option_file / deprecated_stop_or_not
    | none => if o.findDeprecated then some (.exit 0) else none
  else none

/-- the `--set` loop -/
def exitSet (o : Opts) (env : Env) : Option Outcome := (setLoop env o.sets).map .exit

/-- `--universalindent` -/
def exitUniversal (o : Opts) (env : Env) : Option Outcome :=
  if o.universalindent then
    match o.output with
    | some f => if env.writable f then some (.exitWriting f) else some (.exit 1)
    | none => some (.exit 0)
  else none

/-- `--detect` -/
def exitDetect (o : Opts) (env : Env) : Option Outcome :=
  if o.detect then
    match o.sourceFile, o.sourceList with
    | some f, none =>
      if !env.loadable f then some (.exit 74) else
      match o.output with
      | some out => if env.writable out then some (.exitWriting out) else some (.exit 74)
      | none => some (.exit 0)
    | _, _ => some (.exit 1)
  else none

/-- `--update-config`, `--update-config-with-doc` -/
def exitUpdate (o : Opts) (env : Env) : Option Outcome :=
  if o.updateConfig || o.updateConfigWd then
    match o.output with
    | some out => if env.writable out then some (.exitWriting out) else some (.exit 74)
    | none => some (.exit 0)
  else none

/-- "Specify the config file with '-c file' or set UNCRUSTIFY_CONFIG" -/
def exitNoConfig (p : Pre) : Option Outcome :=
  if p.cfgFile.isEmpty && p.parsed.isNone then some (.exit 74) else none

/-- a multi-file option (`-F`, or positional names unless tracking) together with `-f` → 67, with `-o` → 68 -/
def exitMulti (o : Opts) (p : Pre) : Option Outcome :=
  if o.sourceList.isSome || (!o.unused.isEmpty && p.trk.isNone) then
    (if o.sourceFile.isSome then some (.exit 67) else
     if o.output.isSome then some (.exit 68) else none)
  else none

/-- `load_header_files()` -/
def exitHeaders (env : Env) : Option Outcome := if env.headersOk then none else some (.exit 74)

def firstSome {α : Type} : List (Option α) → Option α
  | [] => none
  | some a :: _ => some a
  | none :: l => firstSome l

/-- every early `return`/`exit` of `main()` before the three-way branch, in source order -/
def earlyExit (o : Opts) (argc : Nat) (env : Env) : Option Outcome :=
  firstSome [exitArgc argc, exitInfo o, exitTypes o env, exitCsv o, exitTracking o, exitCheckTable o,
             exitReplace o, exitConfig o env (Pre.of o env).cfgFile, exitSet o env, exitUniversal o env,
             exitDetect o env, exitUpdate o env, exitNoConfig (Pre.of o env), exitMulti o (Pre.of o env),
             exitHeaders env]

def globalsOf (o : Opts) (p : Pre) : Globals :=
  { doCheck := o.check, ifChanged := o.ifChanged, frag := o.frag, quiet := o.quiet,
    log := o.log, showSev := o.showSev, langForced := p.forcedFlags != 0 }

/-- the early `return`/`exit`s of the stdin branch -/
def stdinExit (o : Opts) (env : Env) : Option Nat :=
  -- "If reading from stdin, you should specify the language using -l or … --assume"
  if o.lang.isNone && o.assume.isNone then some 1 else
  -- `redir_stdout(output_file)`; with `--if-changed` (fix `stdin-if-changed.patch`) stdout is only
  -- redirected once a change is known
  if !o.check && !o.ifChanged && (match o.output with | some f => !env.writable f | none => false) then some 74 else
  -- `read_stdin`
  if !env.stdinOk then some 74 else none

/-- the one formatter call of the stdin branch -/
def stdinJob (o : Opts) (env : Env) (p : Pre) : Job :=
  { src := .stdin
    -- `cpd.filename = assume != nullptr ? assume : "stdin"`
    name := o.assume.getD c!"stdin"
    -- `if (cpd.lang_flags == 0) cpd.lang_flags = assume ? language_flags_from_filename(assume) : e_LANG_C`
    lang := if p.forcedFlags == 0 then
              (match o.assume with | some a => langFlagsFromFilename env.extMap a | none => 1)
            else p.forcedFlags
    -- `uncrustify_file(fm, stdout, …)`: stdout, redirected by `-o` unless checking
    sink := if o.check then .stdout else
      match o.output with
      | some f => .path f
      | none => .stdout
    track := p.trk, parsed := p.parsed, dump := p.dump, keepMtime := false }

/-- the stdin branch: `source_file == nullptr && source_list == nullptr && arg.Unused(idx) == nullptr` -/
def dispatchStdin (o : Opts) (env : Env) (p : Pre) : Outcome :=
  match stdinExit o env with
  | some n => .exit n
  | none => .run (globalsOf o p) [stdinJob o env p] (if p.trk.isSome then some 0 else none)

/-- `do_source_file(source_file, output_file, parsed_file, dump_file_name, …)` of the `-f` branch -/
def singleMk (o : Opts) (env : Env) (p : Pre) (n : Str) : Job :=
  fileJob (globalsOf o p) p.forcedFlags env.extMap n o.output p.parsed p.dump o.noBackup o.keepMtime p.trk

/-- the `-f` branch -/
def dispatchSingle (o : Opts) (env : Env) (p : Pre) (f : Str) : Outcome :=
  .run (globalsOf o p) (fileJobs env p.trk.isSome (singleMk o env p) [f]).1
                       (fileJobs env p.trk.isSome (singleMk o env p) [f]).2

/-- "-p option must be used with the -f option", "-ds | --dump-steps option must be used with the -f option" -/
def multiExit (p : Pre) : Option Nat :=
  if p.parsed.isSome then some 78 else
  if p.dump.isSome then some 78 else none

/-- `do_source_file(name, make_output_filename(name, prefix, suffix), nullptr, nullptr, …)` -/
def multiMk (o : Opts) (env : Env) (p : Pre) (n : Str) : Job :=
  fileJob (globalsOf o p) p.forcedFlags env.extMap n (some (makeOutputFilename n o.pfx p.sfx)) none none
    o.noBackup o.keepMtime p.trk

/-- positional names first, then the `-F` list: jobs and the status of an `exit` that ends the loop early -/
def multiJobs (o : Opts) (env : Env) (p : Pre) : List Job × Option Nat :=
  let r1 := fileJobs env p.trk.isSome (multiMk o env p) o.unused
  match r1.2 with
  | some n => (r1.1, some n)
  | none =>
    match o.sourceList with
    | none => (r1.1, none)
    | some l =>
      match env.listText l with
      | none => (r1.1, some 74)          -- `process_source_list`: fopen failed
      | some text =>
        let r2 := fileJobs env p.trk.isSome (multiMk o env p) (listNames text)
        (r1.1 ++ r2.1, r2.2)

/-- the multi-file branch -/
def dispatchMulti (o : Opts) (env : Env) (p : Pre) : Outcome :=
  match multiExit p with
  | some n => .exit n
  | none => .run (globalsOf o p) (multiJobs o env p).1 (multiJobs o env p).2

def dispatch (o : Opts) (env : Env) (p : Pre) : Outcome :=
  if o.sourceFile.isNone && o.sourceList.isNone && o.unused.isEmpty then dispatchStdin o env p
  else match o.sourceFile with
    | some f => dispatchSingle o env p f
    | none => dispatchMulti o env p

/-- `main()` after the argument lookups.  `argc` is `argv.length`. -/
def route (o : Opts) (argc : Nat) (env : Env) : Outcome :=
  match earlyExit o argc env with
  | some out => out
  | none => dispatch o env (Pre.of o env)

/-- the whole of `main()` up to (not including) the formatter calls -/
def plan (argv : List Str) (env : Env) : Outcome := route (parseArgs argv) argv.length env

end Unc.Cli
