import UncModel.Gen.Batch
/-!
# L10e: files of one invocation — process-global state and per-file reset

The formatter is abstract.  Global state is a valuation of named locations (members of `cpd`, other globals).
Each location has a committed class (regenerated table `Gen/Batch.lean`):
`K` constant after start-up, `R` reset to its initial value when a file is finished (`uncrustify_end()` and
friends), `W` written before it is read in every file, `D` diagnostics only.  The class assignment itself is tied to
the code by the digest monitor of the C11 check (values of K and R locations at the head of every file of a batch
equal those of a fresh process) — the theorem below says what that buys.
-/
namespace Unc

abbrev Loc := String
abbrev GState := Loc → Nat

/-- two states agree on the locations selected by `p` -/
def AgreeOn (p : Loc → Bool) (g g' : GState) : Prop := ∀ l, p l = true → g l = g' l

/-- a per-file transformer: output and next global state -/
structure FileRun (File Out : Type) where
  run : GState → File → Out × GState

/-- what the classification promises about the transformer, `rel` = the K ∪ R locations:
    (dep) the output depends on the incoming state only through `rel`;
    (restore) after a file the `rel` locations have their start-up values again (K untouched, R reset). -/
structure WellClassified {File Out : Type} (F : FileRun File Out) (rel : Loc → Bool) (init : GState) : Prop where
  dep : ∀ g g' x, AgreeOn rel g g' → (F.run g x).1 = (F.run g' x).1
  restore : ∀ g x, AgreeOn rel g init → AgreeOn rel (F.run g x).2 init

/-- outputs of a batch, file by file, threading the global state -/
def batch {File Out : Type} (F : FileRun File Out) : GState → List File → List Out
  | _, [] => []
  | g, x :: xs => (F.run g x).1 :: batch F (F.run g x).2 xs

/-- each file alone, in a fresh process -/
def singles {File Out : Type} (F : FileRun File Out) (init : GState) (xs : List File) : List Out :=
  xs.map (fun x => (F.run init x).1)

def stateClassOf (tbl : List (String × String)) (l : String) : Option String := (tbl.find? (·.1 = l)).map (·.2)

def allClassified (names : List String) (tbl : List (String × String)) : Bool :=
  names.all (fun n => (stateClassOf tbl n).isSome)

def noneX (tbl : List (String × String)) : Bool := tbl.all (fun p => p.2 ≠ "X")

/-- every member classified `R` is assigned in `uncrustify_end()` -/
def resetCovers (tbl : List (String × String)) (reset : List String) : Bool :=
  tbl.all (fun p => p.2 ≠ "R" || reset.contains p.1)

def validClass (tbl : List (String × String)) : Bool :=
  tbl.all (fun p => p.2 = "K" || p.2 = "R" || p.2 = "W" || p.2 = "D" || p.2 = "-")

end Unc
