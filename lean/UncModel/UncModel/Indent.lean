import UncModel.Basic
/-!
# L7: indentation as a stack machine (default brace style path of `indent_text()`, `src/indent.cpp`)

A transliteration of the frame handling for plain block structure, NOT of the 3 770-line function:
`{` (real or virtual) pushes a frame whose `indent` is the enclosing indent plus `indent_columns` and whose
`brace_indent` is the enclosing indent; `}` pops it; a chunk that is first on its line is placed at the
`indent` of the top frame (an opening brace at the indent it is pushed from, a closing brace at the
`brace_indent` of the frame it closes, a `case` label at the brace indent of the switch body plus
`indent_switch_case`).  The correspondence run compares these columns with the columns of the real chunk list.
-/
namespace Unc

inductive ITok
  | stmt      -- a statement (or control header) that is first on its line
  | openB     -- `{` first on its line
  | closeB    -- `}` first on its line
  | vopen     -- virtual brace open (brace-less body begins): no column of its own
  | vclose    -- virtual brace close
  | caseL     -- `case x:` / `default:` first on its line
deriving Repr, DecidableEq

structure Frame where
  indent : Nat
  braceIndent : Nat
deriving Repr, DecidableEq

structure IndentOpts where
  cols : Nat := 8          -- indent_columns
  switchCase : Nat := 0    -- indent_switch_case
deriving Repr

def topIndent : List Frame → Nat
  | [] => 1
  | f :: _ => f.indent

def topBrace : List Frame → Nat
  | [] => 1
  | f :: _ => f.braceIndent

/-- one token: new stack and the column given to the token (if it is a visible first-on-line chunk) -/
def indentStep (o : IndentOpts) (stk : List Frame) : ITok → List Frame × Option Nat
  | .stmt => (stk, some (topIndent stk))
  | .openB => ({ indent := topIndent stk + o.cols, braceIndent := topIndent stk } :: stk, some (topIndent stk))
  | .vopen => ({ indent := topIndent stk + o.cols, braceIndent := topIndent stk } :: stk, none)
  | .closeB => (stk.tail, some (topBrace stk))
  | .vclose => (stk.tail, none)
  | .caseL => (stk, some (topBrace stk + o.switchCase))

def indentRun (o : IndentOpts) : List Frame → List ITok → List (Option Nat)
  | _, [] => []
  | stk, t :: ts => (indentStep o stk t).2 :: indentRun o (indentStep o stk t).1 ts

/-- nesting depth after a token prefix (opens minus closes, never below 0) -/
def depthAfter : Nat → List ITok → Nat
  | d, [] => d
  | d, .openB :: ts => depthAfter (d + 1) ts
  | d, .vopen :: ts => depthAfter (d + 1) ts
  | d, .closeB :: ts => depthAfter (d - 1) ts
  | d, .vclose :: ts => depthAfter (d - 1) ts
  | d, _ :: ts => depthAfter d ts

/-- the closed form: column of each token from the nesting depth `d` at which it is met -/
def closedForm (o : IndentOpts) : Nat → List ITok → List (Option Nat)
  | _, [] => []
  | d, .stmt :: ts => some (1 + d * o.cols) :: closedForm o d ts
  | d, .openB :: ts => some (1 + d * o.cols) :: closedForm o (d + 1) ts
  | d, .vopen :: ts => none :: closedForm o (d + 1) ts
  | d, .closeB :: ts => some (1 + (d - 1) * o.cols) :: closedForm o (d - 1) ts
  | d, .vclose :: ts => none :: closedForm o (d - 1) ts
  | d, .caseL :: ts => some (1 + (d - 1) * o.cols + o.switchCase) :: closedForm o d ts

/-- the stack that corresponds to nesting depth `d` -/
def stackOf (o : IndentOpts) : Nat → List Frame
  | 0 => []
  | d+1 => { indent := 1 + (d + 1) * o.cols, braceIndent := 1 + d * o.cols } :: stackOf o d

end Unc
