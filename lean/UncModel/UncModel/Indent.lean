import UncModel.Basic
/-!
# L7: indentation as a stack machine (default brace style path of `indent_text()`, `src/indent.cpp`)

A transliteration of the frame handling for plain block structure, NOT of the 3 770-line function:
`{` (real or virtual) pushes a frame whose `indent` is the enclosing indent plus `indent_columns` and whose
`brace_indent` is the enclosing indent; `}` pops it; a chunk that is first on its line is placed at the
`indent` of the top frame (an opening brace at the indent it is pushed from, a closing brace at the
`brace_indent` of the frame it closes, a `case` label at the brace indent of the switch body plus
`indent_switch_case`).  The correspondence run compares these columns with the columns of the real chunk list.
-/
namespace Unc

inductive ITok
  | stmt      -- a statement (or control header) that is first on its line
  | openB     -- `{` first on its line
  | closeB    -- `}` first on its line
  | vopen     -- virtual brace open (brace-less body begins): no column of its own
  | vclose    -- virtual brace close
  | caseL     -- `case x:` / `default:` first on its line
deriving Repr, DecidableEq

structure Frame where
  indent : Nat
  braceIndent : Nat
deriving Repr, DecidableEq

structure IndentOpts where
  cols : Nat := 8          -- indent_columns
  switchCase : Nat := 0    -- indent_switch_case
deriving Repr

def topIndent : List Frame → Nat
  | [] => 1
  | f :: _ => f.indent

def topBrace : List Frame → Nat
  | [] => 1
  | f :: _ => f.braceIndent

/-- one token: new stack and the column given to the token (if it is a visible first-on-line chunk) -/
def indentStep (o : IndentOpts) (stk : List Frame) : ITok → List Frame × Option Nat
  | .stmt => (stk, some (topIndent stk))
  | .openB => ({ indent := topIndent stk + o.cols, braceIndent := topIndent stk } :: stk, some (topIndent stk))
  | .vopen => ({ indent := topIndent stk + o.cols, braceIndent := topIndent stk } :: stk, none)
  | .closeB => (stk.tail, some (topBrace stk))
  | .vclose => (stk.tail, none)
  | .caseL => (stk, some (topBrace stk + o.switchCase))

def indentRun (o : IndentOpts) : List Frame → List ITok → List (Option Nat)
  | _, [] => []
  | stk, t :: ts => (indentStep o stk t).2 :: indentRun o (indentStep o stk t).1 ts

/-- nesting depth after a token prefix (opens minus closes, never below 0) -/
def depthAfter : Nat → List ITok → Nat
  | d, [] => d
  | d, .openB :: ts => depthAfter (d + 1) ts
  | d, .vopen :: ts => depthAfter (d + 1) ts
  | d, .closeB :: ts => depthAfter (d - 1) ts
  | d, .vclose :: ts => depthAfter (d - 1) ts
  | d, _ :: ts => depthAfter d ts

/-- the closed form: column of each token from the nesting depth `d` at which it is met -/
def closedForm (o : IndentOpts) : Nat → List ITok → List (Option Nat)
  | _, [] => []
  | d, .stmt :: ts => some (1 + d * o.cols) :: closedForm o d ts
  | d, .openB :: ts => some (1 + d * o.cols) :: closedForm o (d + 1) ts
  | d, .vopen :: ts => none :: closedForm o (d + 1) ts
  | d, .closeB :: ts => some (1 + (d - 1) * o.cols) :: closedForm o (d - 1) ts
  | d, .vclose :: ts => none :: closedForm o (d - 1) ts
  | d, .caseL :: ts => some (1 + (d - 1) * o.cols + o.switchCase) :: closedForm o d ts

/-- the stack that corresponds to nesting depth `d` -/
def stackOf (o : IndentOpts) : Nat → List Frame
  | 0 => []
  | d+1 => { indent := 1 + (d + 1) * o.cols, braceIndent := 1 + d * o.cols } :: stackOf o d

/-! ## with brace-style offsets: `indent_brace` and `indent_switch_case`

Observed frame handling of `indent_text()` for the closed-form brace-style options: the braces of a *statement* body
(`if`/`else`/loops/`switch`) sit `indent_brace` right of the statement, its contents a further `indent_columns`; the
case labels of a `switch` sit `indent_switch_case` right of its braces and everything under them a further
`indent_columns`; function bodies and bare blocks are not moved. -/

inductive BKind
  | plain     -- function body, bare block
  | stmt      -- body of if / else / for / while / do
  | switch    -- body of switch
  | virt      -- brace-less body (virtual braces)
deriving Repr, DecidableEq

inductive ITok2
  | stmt | openK (k : BKind) | closeB | vopen | vclose | caseL
deriving Repr, DecidableEq

structure IndentOpts2 where
  cols : Nat := 8
  brace : Nat := 0         -- indent_brace
  switchCase : Nat := 0    -- indent_switch_case
deriving Repr

def offB (o : IndentOpts2) : BKind → Nat
  | .stmt => o.brace | .switch => o.brace | _ => 0

def offIn (o : IndentOpts2) : BKind → Nat
  | .switch => o.switchCase | _ => 0

def indentStep2 (o : IndentOpts2) (stk : List Frame) : ITok2 → List Frame × Option Nat
  | .stmt => (stk, some (topIndent stk))
  | .openK k => ({ indent := topIndent stk + offB o k + o.cols + offIn o k, braceIndent := topIndent stk + offB o k } :: stk,
                 some (topIndent stk + offB o k))
  | .vopen => ({ indent := topIndent stk + o.cols, braceIndent := topIndent stk } :: stk, none)
  | .closeB => (stk.tail, some (topBrace stk))
  | .vclose => (stk.tail, none)
  | .caseL => (stk, some (topBrace stk + o.switchCase))

def indentRun2 (o : IndentOpts2) : List Frame → List ITok2 → List (Option Nat)
  | _, [] => []
  | stk, t :: ts => (indentStep2 o stk t).2 :: indentRun2 o (indentStep2 o stk t).1 ts

/-- column of the statements directly inside the blocks `ks` (innermost first) -/
def colIn (o : IndentOpts2) : List BKind → Nat
  | [] => 1
  | k :: ks => colIn o ks + offB o k + o.cols + offIn o k

/-- column of the braces of the innermost block -/
def braceCol (o : IndentOpts2) : List BKind → Nat
  | [] => 1
  | k :: ks => colIn o ks + offB o k

def framesOf (o : IndentOpts2) : List BKind → List Frame
  | [] => []
  | k :: ks => { indent := colIn o (k :: ks), braceIndent := braceCol o (k :: ks) } :: framesOf o ks

/-- the specification: columns from the stack of block *kinds* alone -/
def absRun (o : IndentOpts2) : List BKind → List ITok2 → List (Option Nat)
  | _, [] => []
  | ks, .stmt :: ts => some (colIn o ks) :: absRun o ks ts
  | ks, .openK k :: ts => some (braceCol o (k :: ks)) :: absRun o (k :: ks) ts
  | ks, .vopen :: ts => none :: absRun o (.virt :: ks) ts
  | ks, .closeB :: ts => some (braceCol o ks) :: absRun o ks.tail ts
  | ks, .vclose :: ts => none :: absRun o ks.tail ts
  | ks, .caseL :: ts => some (braceCol o ks + o.switchCase) :: absRun o ks ts

/-- number of braced statement bodies (switch bodies included) among the enclosing blocks -/
def nStmt : List BKind → Nat
  | [] => 0
  | .stmt :: ks => nStmt ks + 1
  | .switch :: ks => nStmt ks + 1
  | _ :: ks => nStmt ks

/-- number of switch bodies among the enclosing blocks -/
def nSwitch : List BKind → Nat
  | [] => 0
  | .switch :: ks => nSwitch ks + 1
  | _ :: ks => nSwitch ks

end Unc
