import UncModel.Unicode
/-!
# L5 SpaceApply — what `do_space()` returns per logged rule, and how `space_text()` applies it

Part (a): the *rule table semantics*.  `translators/t_space.py` turns every `log_rule("…")` statement of
`do_space()` (src/space.cpp) into an `SpSite`: the logged string, its classification, the option guards of the
enclosing `if`s, and the value returned after it as a small AST (`SpExpr`).  Here: what such an AST evaluates to under a
valuation `σ` of the options (`eval`, and `evalSet` = every value it can take when the conditions that are not about
options are left open), and a finite decision procedure `forallVal` with its soundness proof, so that a statement
"for EVERY valuation σ" about the whole generated table is decided by the kernel.

Part (b): the *applier*: `space_text()`'s `switch (av)` column arithmetic (src/space.cpp lines ≈3693–3815) with
`ensure_force_space`, `min_sp = max(1, min_sp)`, the `CT_VBRACE_OPEN` cases, the `IARF_IGNORE` branch and the
trailing-comment adjustment, as a function from the decision and the geometry of the pair to the column of `next`.
-/
namespace Unc

/-! ## IARF as the two-bit set the C++ uses (`IARF_ADD = 1`, `IARF_REMOVE = 2`, `IARF_FORCE = 3`) -/

/-- `a | b` on `iarf_e` -/
def IARF.bor : IARF → IARF → IARF
  | .ignore, b => b
  | a, .ignore => a
  | .add, .add => .add
  | .remove, .remove => .remove
  | _, _ => .force

theorem IARF.bor_code (a b : IARF) : (IARF.bor a b).code = a.code ||| b.code := by
  cases a <;> cases b <;> decide

def IARF.all : List IARF := [.ignore, .add, .remove, .force]

theorem IARF.mem_all (v : IARF) : v ∈ IARF.all := by cases v <;> simp [IARF.all]

/-! ## (a) the rule table: syntax -/

inductive OptKind | iarf | num | bool | otherKind
deriving DecidableEq, Repr

/-- one conjunct of an `if` condition: `options::x() == IARF_V`, `options::x() != IARF_V`, or anything else (verbatim) -/
inductive SpAtom
  | optEq (id : Nat) (v : IARF)
  | optNe (id : Nat) (v : IARF)
  | opaque (txt : String)
deriving Repr

/-- a conjunction of atoms -/
abbrev SpCond := List SpAtom

/-- the value returned after a `log_rule`: `options::x()`, `IARF_V`, `a | b`, a conditional, or unparsed text -/
inductive SpExpr
  | opt (id : Nat)
  | const (v : IARF)
  | bor (a b : SpExpr)
  | ite (c : SpCond) (t e : SpExpr)
  | other (txt : String)
deriving Repr

/-- `(e | IARF_ADD)` -/
@[reducible] def SpExpr.orAdd (e : SpExpr) : SpExpr := .bor e (.const .add)

/-- classification of the logged string (made by the translator, re-checked by `lnameOk`) -/
inductive LName
  | opt (id : Nat)                                   -- exactly the name of option `id`
  | optOrAdd (id : Nat)                              -- "<name of option id> | ADD"
  | textConst (pre : String) (v : IARF) (post : String)  -- pre ++ "IGNORE|ADD|REMOVE|FORCE" ++ post
  | text                                             -- anything else
deriving Repr

inductive MinE
  | optNum (id : Nat)
  | optNumMinus (id : Nat) (k : Nat)   -- `options::x() - k`
  | lit (n : Nat)
  | other (txt : String)
deriving Repr, DecidableEq

structure SpSite where
  idx : Nat
  line : Nat
  logged : String
  dyn : Bool            -- the logged string is an snprintf format (`log_rule(text)`)
  ln : LName
  guards : SpCond       -- option atoms of the enclosing `if` conditions
  ret : SpExpr
  min : Option MinE
  shadowed : Bool       -- another log_rule() follows on every path before the return
deriving Repr

/-! ## (a) semantics -/

/-- a valuation of the options (by id) -/
abbrev SpVal := Nat → IARF

def IARF.constName : IARF → String
  | .ignore => "IGNORE" | .add => "ADD" | .remove => "REMOVE" | .force => "FORCE"

/-- truth of an atom; `ρ` decides the conditions that are not about IARF options -/
def SpAtom.holds (σ : SpVal) (ρ : String → Bool) : SpAtom → Bool
  | .optEq i v => decide (σ i = v)
  | .optNe i v => decide (σ i ≠ v)
  | .opaque t => ρ t

def SpCond.holds (σ : SpVal) (ρ : String → Bool) (c : SpCond) : Bool := c.all (SpAtom.holds σ ρ)

/-- the value of a return expression: `σ` gives the options, `ρ` the non-option conditions, `ω` the value of
    expressions the translator could not parse -/
def eval (σ : SpVal) (ρ : String → Bool) (ω : String → IARF) : SpExpr → IARF
  | .opt i => σ i
  | .const v => v
  | .bor a b => IARF.bor (eval σ ρ ω a) (eval σ ρ ω b)
  | .ite c t e => if SpCond.holds σ ρ c then eval σ ρ ω t else eval σ ρ ω e
  | .other t => ω t

/-- can the atom come out as `b` for some `ρ`? -/
def SpAtom.may (σ : SpVal) : SpAtom → Bool → Bool
  | .optEq i v, b => decide (σ i = v) == b
  | .optNe i v, b => decide (σ i ≠ v) == b
  | .opaque _, _ => true

def condMayT (σ : SpVal) (c : SpCond) : Bool := c.all (fun a => a.may σ true)
def condMayF (σ : SpVal) (c : SpCond) : Bool := c.any (fun a => a.may σ false)

/-- every value the expression can take under `σ`, whatever the non-option conditions are -/
def evalSet (σ : SpVal) : SpExpr → List IARF
  | .opt i => [σ i]
  | .const v => [v]
  | .bor a b => (evalSet σ a).flatMap fun x => (evalSet σ b).map (IARF.bor x)
  | .ite c t e => (if condMayT σ c then evalSet σ t else []) ++ (if condMayF σ c then evalSet σ e else [])
  | .other _ => IARF.all

theorem SpAtom.may_of_holds (σ : SpVal) (ρ : String → Bool) (a : SpAtom) : a.may σ (a.holds σ ρ) = true := by
  cases a <;> simp [SpAtom.may, SpAtom.holds]

theorem condMayT_of_holds {σ : SpVal} {ρ : String → Bool} {c : SpCond} (h : SpCond.holds σ ρ c = true) :
    condMayT σ c = true := by
  simp only [SpCond.holds, condMayT, List.all_eq_true] at *
  intro a ha
  have := SpAtom.may_of_holds σ ρ a
  rw [h a ha] at this
  exact this

theorem condMayF_of_not_holds {σ : SpVal} {ρ : String → Bool} {c : SpCond} (h : SpCond.holds σ ρ c = false) :
    condMayF σ c = true := by
  simp only [SpCond.holds, condMayF, List.any_eq_true, List.all_eq_false] at *
  obtain ⟨a, ha, hf⟩ := h
  refine ⟨a, ha, ?_⟩
  have := SpAtom.may_of_holds σ ρ a
  simp only [Bool.not_eq_true] at hf
  rw [hf] at this
  exact this

/-- the deterministic value is one of the possible values -/
theorem eval_mem_evalSet (σ : SpVal) (ρ : String → Bool) (ω : String → IARF) (e : SpExpr) :
    eval σ ρ ω e ∈ evalSet σ e := by
  induction e with
  | opt i => simp [eval, evalSet]
  | const v => simp [eval, evalSet]
  | bor a b iha ihb =>
    simp only [eval, evalSet, List.mem_flatMap, List.mem_map]
    exact ⟨_, iha, _, ihb, rfl⟩
  | ite c t e iht ihe =>
    simp only [eval, evalSet, List.mem_append]
    by_cases h : SpCond.holds σ ρ c = true
    · left; simp [h, condMayT_of_holds h, iht]
    · right
      have h' : SpCond.holds σ ρ c = false := by simpa using h
      simp [h', condMayF_of_not_holds h', ihe]
  | other t => exact IARF.mem_all _

/-! ## the options an expression reads, and congruence -/

def SpAtom.vars : SpAtom → List Nat
  | .optEq i _ => [i] | .optNe i _ => [i] | .opaque _ => []

def condVars (c : SpCond) : List Nat := c.flatMap SpAtom.vars

def SpExpr.vars : SpExpr → List Nat
  | .opt i => [i]
  | .const _ => []
  | .bor a b => a.vars ++ b.vars
  | .ite c t e => condVars c ++ (t.vars ++ e.vars)
  | .other _ => []

theorem SpAtom.may_congr {σ τ : SpVal} (a : SpAtom) (b : Bool) (h : ∀ i ∈ a.vars, σ i = τ i) : a.may σ b = a.may τ b := by
  cases a <;> simp [SpAtom.may, SpAtom.vars] at * <;> rw [h]

theorem condMayT_congr {σ τ : SpVal} (c : SpCond) (h : ∀ i ∈ condVars c, σ i = τ i) : condMayT σ c = condMayT τ c := by
  induction c with
  | nil => rfl
  | cons a c ih =>
    simp only [condMayT, List.all_cons, condVars, List.flatMap_cons, List.mem_append] at *
    rw [SpAtom.may_congr a true (fun i hi => h i (Or.inl hi)), ih (fun i hi => h i (Or.inr hi))]

theorem condMayF_congr {σ τ : SpVal} (c : SpCond) (h : ∀ i ∈ condVars c, σ i = τ i) : condMayF σ c = condMayF τ c := by
  induction c with
  | nil => rfl
  | cons a c ih =>
    simp only [condMayF, List.any_cons, condVars, List.flatMap_cons, List.mem_append] at *
    rw [SpAtom.may_congr a false (fun i hi => h i (Or.inl hi)), ih (fun i hi => h i (Or.inr hi))]

theorem evalSet_congr {σ τ : SpVal} (e : SpExpr) (h : ∀ i ∈ e.vars, σ i = τ i) : evalSet σ e = evalSet τ e := by
  induction e with
  | opt i => simp [evalSet, SpExpr.vars] at *; exact h
  | const v => rfl
  | bor a b iha ihb =>
    simp only [evalSet, SpExpr.vars, List.mem_append] at *
    rw [iha (fun i hi => h i (Or.inl hi)), ihb (fun i hi => h i (Or.inr hi))]
  | ite c t e iht ihe =>
    simp only [evalSet, SpExpr.vars, List.mem_append] at *
    rw [condMayT_congr c (fun i hi => h i (Or.inl hi)), condMayF_congr c (fun i hi => h i (Or.inl hi)),
        iht (fun i hi => h i (Or.inr (Or.inl hi))), ihe (fun i hi => h i (Or.inr (Or.inr hi)))]
  | other t => rfl

/-! ## deciding "for every valuation" -/

def SpVal.upd (σ : SpVal) (i : Nat) (v : IARF) : SpVal := fun j => if j = i then v else σ j

/-- `P` holds for every way of giving the options in `vs` one of the four values (the others as in `σ`) -/
def forallVal : List Nat → SpVal → (SpVal → Bool) → Bool
  | [], σ, P => P σ
  | i :: is, σ, P => IARF.all.all fun v => forallVal is (σ.upd i v) P

theorem forallVal_sound {vs : List Nat} {σ₀ : SpVal} {P : SpVal → Bool} (h : forallVal vs σ₀ P = true)
    (σ : SpVal) (hσ : ∀ j, j ∉ vs → σ j = σ₀ j) : P σ = true := by
  induction vs generalizing σ₀ with
  | nil =>
    have : σ = σ₀ := funext fun j => hσ j (by simp)
    simpa [forallVal, this] using h
  | cons i is ih =>
    simp only [forallVal, List.all_eq_true] at h
    refine ih (h (σ i) (IARF.mem_all _)) ?_
    intro j hj
    by_cases hji : j = i
    · simp [SpVal.upd, hji]
    · simp only [SpVal.upd, hji, if_false]
      exact hσ j (by simp [hji, hj])

/-- restriction of `σ` to the options in `vs`, default elsewhere -/
def SpVal.restrict (σ : SpVal) (vs : List Nat) (d : SpVal) : SpVal := fun j => if j ∈ vs then σ j else d j

/-! ## what a logged name permits -/

inductive AllowSpec
  | anyValue                       -- the logged name is not an IARF option (numeric companion): no constraint on the IARF value
  | oneOf (specs : List SpExpr)    -- the value is one of the values of these expressions
deriving Repr

def AllowSpec.vars : AllowSpec → List Nat
  | .anyValue => []
  | .oneOf l => l.flatMap SpExpr.vars

def allowedSet (σ : SpVal) : AllowSpec → List IARF
  | .anyValue => IARF.all
  | .oneOf l => l.flatMap (evalSet σ)

theorem allowedSet_congr {σ τ : SpVal} (a : AllowSpec) (h : ∀ i ∈ a.vars, σ i = τ i) : allowedSet σ a = allowedSet τ a := by
  cases a with
  | anyValue => rfl
  | oneOf l =>
    simp only [allowedSet, AllowSpec.vars] at *
    induction l with
    | nil => rfl
    | cons e l ih =>
      simp only [List.flatMap_cons, List.mem_append] at *
      rw [evalSet_congr e (fun i hi => h i (Or.inl hi)), ih (fun i hi => h i (Or.inr hi))]

/-- under `σ`: if the guards can hold, every possible returned value is allowed -/
def holdsAt (guards : SpCond) (ret : SpExpr) (a : AllowSpec) (σ : SpVal) : Bool :=
  !condMayT σ guards || (evalSet σ ret).all fun v => (allowedSet σ a).contains v

/-- duplicate-free copy of a list of option ids (keeps the number of valuations to enumerate small) -/
def dedupNat : List Nat → List Nat
  | [] => []
  | x :: xs => if (dedupNat xs).contains x then dedupNat xs else x :: dedupNat xs

theorem mem_dedupNat_all (l : List Nat) : ∀ i, i ∈ dedupNat l ↔ i ∈ l := by
  induction l with
  | nil => simp [dedupNat]
  | cons x xs ih =>
    intro i
    simp only [dedupNat]
    split
    · rename_i h
      have hx : x ∈ xs := (ih x).mp (by simpa using h)
      simp only [ih, List.mem_cons]
      constructor
      · exact Or.inr
      · rintro (rfl | h') <;> assumption
    · simp [ih]

theorem mem_dedupNat {i : Nat} {l : List Nat} : i ∈ dedupNat l ↔ i ∈ l := mem_dedupNat_all l i

def checkVars (guards : SpCond) (ret : SpExpr) (a : AllowSpec) : List Nat :=
  dedupNat (condVars guards ++ (ret.vars ++ a.vars))

/-- the decision procedure for one site -/
def holdsForAll (guards : SpCond) (ret : SpExpr) (a : AllowSpec) : Bool :=
  forallVal (checkVars guards ret a) (fun _ => .ignore) (holdsAt guards ret a)

theorem holdsAt_congr {σ τ : SpVal} (g : SpCond) (r : SpExpr) (a : AllowSpec)
    (h : ∀ i ∈ checkVars g r a, σ i = τ i) : holdsAt g r a σ = holdsAt g r a τ := by
  simp only [checkVars, mem_dedupNat, List.mem_append] at h
  simp only [holdsAt]
  rw [condMayT_congr g (fun i hi => h i (Or.inl hi)), evalSet_congr r (fun i hi => h i (Or.inr (Or.inl hi))),
      allowedSet_congr a (fun i hi => h i (Or.inr (Or.inr hi)))]

/-- soundness of the decision procedure: it speaks about EVERY valuation and every resolution of the open conditions -/
theorem holdsForAll_sound {g : SpCond} {r : SpExpr} {a : AllowSpec} (h : holdsForAll g r a = true)
    (σ : SpVal) (ρ : String → Bool) (ω : String → IARF) (hg : SpCond.holds σ ρ g = true) :
    eval σ ρ ω r ∈ allowedSet σ a := by
  let vs := checkVars g r a
  let τ : SpVal := σ.restrict vs (fun _ => .ignore)
  have h1 : holdsAt g r a τ = true :=
    forallVal_sound h τ (by intro j hj; simp [τ, SpVal.restrict, vs, hj])
  have h2 : holdsAt g r a σ = true := by
    rw [holdsAt_congr g r a (τ := τ)]
    · exact h1
    · intro i hi; simp [τ, SpVal.restrict, vs, hi]
  simp only [holdsAt, Bool.or_eq_true, Bool.not_eq_true', List.all_eq_true] at h2
  rcases h2 with h2 | h2
  · rw [condMayT_of_holds hg] at h2; cases h2
  · have := h2 _ (eval_mem_evalSet σ ρ ω r)
    simpa using this

/-! ## (b) the applier: `space_text()` after `do_space_ensured` -/

/-- `ensure_force_space`: `av | IARF_ADD` when PCF_FORCE_SPACE is set on the first chunk -/
def ensureForce (forced : Bool) (av : IARF) : IARF := if forced then IARF.bor av .add else av

/-- the geometry `space_text()` reads for the pair (pc, next) -/
structure SpGeom where
  column : Nat            -- `column` when the pair is reached = column of `pc`
  len : Nat               -- pc->Len()
  nlCount : Nat           -- pc->GetNlCount()
  origColEnd : Nat        -- pc->GetOrigColEnd()
  nextOrigCol : Nat       -- next->GetOrigCol()
  isVbraceOpen : Bool     -- pc->Is(CT_VBRACE_OPEN)
  prevOrigCol : Nat       -- pc->GetPrev()->GetOrigCol()  (read only for CT_VBRACE_OPEN)
deriving Repr

/-- "Set to the minimum allowed column" (lines 3595–3604): the column right after `pc` -/
def SpGeom.colAfter (g : SpGeom) : Nat :=
  if g.nlCount = 0 then g.column + g.len else g.origColEnd

/-- the `switch (av)` of space_text(); `minSp` is the value do_space() left in `min_sp` (before `max(1, ·)`);
    `av` is the value AFTER ensure_force_space -/
def applySwitch (av : IARF) (minSp : Nat) (g : SpGeom) : Nat :=
  let m := max 1 minSp
  let col := g.colAfter
  match av with
  | .force => col + m
  | .add =>
    if g.isVbraceOpen && decide (g.nextOrigCol ≥ g.prevOrigCol) then
      let delta := g.nextOrigCol - g.prevOrigCol
      -- C++: `(delta - 1) < min_sp` on ints, i.e. delta ≤ min_sp
      if delta ≤ m then col + m else col + (delta - 1)
    else if decide (g.nextOrigCol ≥ g.origColEnd) && decide (g.origColEnd ≠ 0) then
      col + max m (g.nextOrigCol - g.origColEnd)
    else col + m
  | .remove => col
  | .ignore =>
    if decide (g.nextOrigCol ≥ g.origColEnd) && decide (g.origColEnd ≠ 0) then
      col + (g.nextOrigCol - g.origColEnd)
    -- Issue #1854 "preserve the position if virtual brace" -- since fix f9c391f only when that position lies to the right
    else if g.isVbraceOpen && decide (g.nextOrigCol > col) then g.nextOrigCol
    else col

/-- `applySwitch` as it was before fix f9c391f (kept for the witness that the old code could move `next` to the left of `pc`) -/
def applySwitchOld (av : IARF) (minSp : Nat) (g : SpGeom) : Nat :=
  match av with
  | .ignore =>
    if decide (g.nextOrigCol ≥ g.origColEnd) && decide (g.origColEnd ≠ 0) then
      g.colAfter + (g.nextOrigCol - g.origColEnd)
    else if g.isVbraceOpen then g.nextOrigCol
    else g.colAfter
  | av => applySwitch av minSp g

/-- what the trailing-comment adjustment (lines 3771–3815) reads -/
structure TrCmt where
  applies : Bool          -- next->IsComment() && next->GetNext()->IsNewline()
  optsAllow : Bool        -- (sp_before_tr_cmt == IGNORE || next.parent != COMMENT_END) && (sp_endif_cmt == IGNORE || pc not #else/#endif)
  relative : Bool         -- indent_relative_single_line_comments
  nextOrigPrevSp : Nat
deriving Repr

def W64 : Nat := 2 ^ 64

/-- the adjustment; `size_t` arithmetic wraps -/
def trCmtAdjust (t : TrCmt) (g : SpGeom) (column : Nat) : Nat :=
  if t.applies && decide (column < g.nextOrigCol) && t.optsAllow then
    if t.relative then
      (g.column + ((g.nextOrigCol + W64 - g.origColEnd) % W64)) % W64
    else
      let colMin := g.column + g.len + (if t.nextOrigPrevSp > 0 then 1 else 0)
      if g.nextOrigCol < colMin then colMin else g.nextOrigCol
  else column

/-- the column `space_text()` gives to `next`: decision `av0` of do_space(), forced flag, `min_sp`, geometry -/
def spaceApply (av0 : IARF) (forced : Bool) (minSp : Nat) (g : SpGeom) (t : TrCmt) : Nat :=
  trCmtAdjust t g (applySwitch (ensureForce forced av0) minSp g)

/-- no trailing-comment adjustment -/
def TrCmt.none : TrCmt := { applies := false, optsAllow := false, relative := false, nextOrigPrevSp := 0 }

/-- the gap (number of columns between the end of `pc` and the start of `next`) for a pair on one line -/
def gapOf (av0 : IARF) (forced : Bool) (minSp : Nat) (g : SpGeom) : Nat :=
  applySwitch (ensureForce forced av0) minSp g - g.colAfter

/-- the gap in the input: `next.orig_col - pc.orig_col_end` (0 when `pc.orig_col_end` is 0 or next starts left of it) -/
def origGap (g : SpGeom) : Nat :=
  if g.origColEnd ≠ 0 ∧ g.nextOrigCol ≥ g.origColEnd then g.nextOrigCol - g.origColEnd else 0

/-! ## (c) a whole line: `space_text()` walks the chunks of a line with a running `column`, then `reindent_line()` shifts the line -/

/-- what `space_text()` reads for one pair, apart from the running column -/
structure PairIn where
  av0 : IARF
  forced : Bool
  minSp : Nat
  len : Nat               -- pc->Len()
  origColEnd : Nat
  nextOrigCol : Nat
  isVbraceOpen : Bool
  prevOrigCol : Nat
  t : TrCmt
deriving Repr

def PairIn.geom (p : PairIn) (column : Nat) : SpGeom :=
  { column := column, len := p.len, nlCount := 0, origColEnd := p.origColEnd, nextOrigCol := p.nextOrigCol,
    isVbraceOpen := p.isVbraceOpen, prevOrigCol := p.prevOrigCol }

/-- the columns `space_text()` gives to the 2nd, 3rd, ... chunk of a line whose first chunk stands at `c0`
    (`next->SetColumn(column)` and `column` carried on to the next pair) -/
def lineCols (c0 : Nat) : List PairIn → List Nat
  | [] => []
  | p :: ps =>
    let c := spaceApply p.av0 p.forced p.minSp (p.geom c0) p.t
    c :: lineCols c ps

/-- every column of the list is at least `lo` -/
def allGe (lo : Nat) : List Nat → Bool
  | [] => true
  | c :: cs => decide (c ≥ lo) && allGe lo cs

/-- non-decreasing -/
def mono : List Nat → Bool
  | [] => true
  | [_] => true
  | a :: b :: cs => decide (a ≤ b) && mono (b :: cs)

/-- the SHIFT arm of `reindent_line()` for one following chunk, as written: `max(pc->GetColumn() + col_delta, min_col)` with
    `col_delta` an `int` added to a `size_t` (wraps modulo 2^64 when the sum is negative) -/
def shiftWrap (col : Nat) (delta : Int) (minCol : Nat) : Nat :=
  max (((col : Int) + delta) % (W64 : Int)).toNat minCol

/-- the same arm with the guard of `align_to_column()` ("keep above negative values") -/
def shiftGuarded (col : Nat) (delta : Int) (minCol : Nat) : Nat :=
  max (if delta ≥ 0 ∨ (-delta).toNat < col then ((col : Int) + delta).toNat else 0) minCol

end Unc
