import UncModel.Gen.SpaceRules
/-!
# What each logged rule name permits (`Allowed`) and the checker over the generated table

`Allowed s σ` for a site `s` of `do_space()`:
* logged name = an IARF option `x`                → `{σ x}`
* logged name = `"x | ADD"`                       → `{σ x | ADD}`
* logged text containing one of IGNORE/ADD/REMOVE/FORCE as a word (`"REMOVE"`, `"orig prev sp - FORCE"`,
  `"ADD as default value"`, `"REMOVE from no_space_table @ %zu."` …) → that constant
* logged name = a numeric option (`sp_num_…`, always logged right after its IARF companion): no constraint on the IARF
  value, but `min_sp` must be assigned from that very option (`minOk`)
* the SHORT list `spExceptions` below for the irregular names; anything else permits nothing (the table theorem fails).
-/
namespace Unc

open SpExpr in
/-- the irregular logged names: (id of the logged option, what the sites logging it may return, reason read from the code).
    Option ids come from the generated `SpId` namespace, so a renamed/removed option breaks the build here. -/
def spExceptions : List (Nat × List SpExpr × String) := [
  (SpId.sp_case_label, [orAdd (opt SpId.sp_case_label)],
    "space.cpp `return(options::sp_case_label() | IARF_ADD)`: 'case' and a word/number label would fuse; options.h: only ignore and force make sense"),
  (SpId.sp_macro, [ite [.optNe SpId.sp_macro .ignore] (orAdd (opt SpId.sp_macro)) (const .ignore)],
    "`arg | ((arg != IGNORE) ? ADD : IGNORE)`: macro name and body must stay apart ('Macro stuff can only return IGNORE, ADD, or FORCE')"),
  (SpId.sp_macro_func, [ite [.optNe SpId.sp_macro_func .ignore] (orAdd (opt SpId.sp_macro_func)) (const .ignore)],
    "same formula as sp_macro for the ')' of a function-like macro and its body"),
  (SpId.pp_space_after, [ite [.optEq SpId.pp_space_after .ignore] (const .ignore) (const .remove)],
    "do_space only removes (or ignores) after '#'; the option's value is applied later by indent_preproc(); a log_rule(\"IGNORE\"/\"REMOVE\") follows"),
  (SpId.pp_indent, [ite [.optEq SpId.pp_indent .ignore] (const .ignore) (const .remove)],
    "as pp_space_after, for the space before '#': applied by indent_preproc()"),
  (SpId.sp_return, [ite [.optEq SpId.sp_return .remove] (const .force) (opt SpId.sp_return)],
    "'return' and an operand would fuse: 'The value REMOVE will be overridden with FORCE'"),
  (SpId.sp_inside_angle, [opt SpId.sp_inside_angle, ite [.optEq SpId.sp_inside_angle .remove] (const .ignore) (opt SpId.sp_inside_angle)],
    "REMOVE is weakened to IGNORE between '<' and '::' when digraphs are disabled ('we shouldn't create them')"),
  (SpId.sp_bool, [opt SpId.sp_bool, orAdd (opt SpId.sp_bool)],
    "`arg | ADD` when pos_bool is set and the two tokens were on different input lines (the operator is being moved)"),
  (SpId.sp_before_ellipsis, [opt SpId.sp_before_ellipsis, ite [.optEq SpId.sp_before_ellipsis .remove] (const .force) (opt SpId.sp_before_ellipsis)],
    "between a number and the case-range '...': options.h 'The value REMOVE will be overridden with FORCE' (1...3 would lex as one pp-number); the other sites logging this name return it unchanged")
]

def optName (i : Nat) : String := (spOpts.getD i ("", OptKind.otherKind)).1
def optKind (i : Nat) : OptKind := (spOpts.getD i ("", OptKind.otherKind)).2

def exceptionOf (ln : LName) : Option (List SpExpr) :=
  match ln with
  | .opt i => (spExceptions.find? (fun e => e.1 == i)).map (·.2.1)
  | _ => none

/-- what the logged name of the site permits -/
def specOf (s : SpSite) : AllowSpec :=
  match exceptionOf s.ln with
  | some l => .oneOf l
  | none =>
    match s.ln with
    | .opt i =>
      match optKind i with
      | .iarf => .oneOf [.opt i]
      | .num => .anyValue
      | _ => .oneOf []
    | .optOrAdd i => if optKind i = .iarf then .oneOf [.orAdd (.opt i)] else .oneOf []
    | .textConst _ v _ => .oneOf [.const v]
    | .text => .oneOf []

/-- the values the logged name of site `s` permits under the valuation `σ` -/
def Allowed (s : SpSite) (σ : SpVal) : List IARF := allowedSet σ (specOf s)

/-- the translator's classification of the logged string is what the string says -/
def lnameOk (s : SpSite) : Bool :=
  match s.ln with
  | .opt i => s.logged == optName i && i < spOpts.length
  | .optOrAdd i => s.logged == optName i ++ " | ADD" && i < spOpts.length
  | .textConst pre v post => s.logged == pre ++ v.constName ++ post
  | .text => true

/-- `min_sp` is either left at 1 or taken from a numeric option; a site that LOGS a numeric option takes it from that one -/
def minOk (s : SpSite) : Bool :=
  (match s.min with
   | none => true
   | some (.optNum j) => optKind j == .num
   | some (.optNumMinus j _) => optKind j == .num
   | some _ => false) &&
  (match s.ln with
   | .opt i => if optKind i == .num then s.min == some (.optNum i) else true
   | _ => true)

/-- the decision procedure of SpaceApply on the site (the `match` makes the kernel evaluate `specOf s` once) -/
def retOk (s : SpSite) : Bool :=
  match specOf s with
  | .anyValue => true
  | .oneOf l => holdsForAll s.guards s.ret (.oneOf l)

def siteOk (s : SpSite) : Bool := lnameOk s && minOk s && retOk s

def tableOk : Bool := spaceRules.all siteOk

/-- the sites that fail (for the driver: names the site of a copy-paste slip) -/
def badSites : List SpSite := spaceRules.filter (fun s => !siteOk s)

/-- every exception is still needed: some site logs that name -/
def exceptionsUsed : Bool := spExceptions.all fun e => spaceRules.any fun s =>
  match s.ln with | .opt i => i == e.1 | _ => false

inductive SiteClass | regular | orAdd | constant | numeric | exception | unknown
deriving DecidableEq, Repr

def classOf (s : SpSite) : SiteClass :=
  match exceptionOf s.ln with
  | some _ => .exception
  | none =>
    match s.ln with
    | .opt i => match optKind i with | .iarf => .regular | .num => .numeric | _ => .unknown
    | .optOrAdd _ => .orAdd
    | .textConst _ _ _ => .constant
    | .text => .unknown

end Unc
