/-!
# `remove_duplicate_include()` (`src/remove_duplicate_include.cpp`, option `mod_remove_duplicate_include`)

The pass walks the chunk list once.  It remembers the FIRST `#include` of the file (`includes` is only ever pushed to while it is
empty) together with the `#if`/`#else` branch path it was seen in (`includes_branches`); every later `#include` with the same text is
deleted if that path is a prefix of the current path (`branches`), i.e. if the remembered directive lies in the same or in an
enclosing branch.  Each `#if` and each `#else`/`#elif` opens a branch with a fresh id; `#else` and `#endif` without an open `#if`
are ignored.

The model works on the sequence of directive events; everything else in the file is not looked at by the pass.
`stepOld` is the pass before the repair 49f53e4 (no branch test).
-/
namespace Unc.DupInc

inductive Ev where
  | ifE
  | elseE
  | endifE
  | inc (name : Nat)
  deriving DecidableEq, Repr

structure St where
  /-- text and branch path (outermost first) of the remembered `#include` -/
  first : Option (Nat × List Nat) := none
  branches : List Nat := []
  id : Nat := 0
  deriving Repr

/-- an `#include` of the input: its text, the branch path it sits in, and whether the pass keeps it -/
structure Entry where
  name : Nat
  path : List Nat
  kept : Bool
  deriving DecidableEq, Repr

def step (s : St) : Ev → St × Option Entry
  | .ifE => ({ s with branches := s.branches ++ [s.id + 1], id := s.id + 1 }, none)
  | .elseE =>
    if s.branches.isEmpty then (s, none)
    else ({ s with branches := s.branches.dropLast ++ [s.id + 1], id := s.id + 1 }, none)
  | .endifE => ({ s with branches := s.branches.dropLast }, none)
  | .inc n =>
    match s.first with
    | none => ({ s with first := some (n, s.branches) }, some ⟨n, s.branches, true⟩)
    | some (m, p) => (s, some ⟨n, s.branches, !(n == m && p.isPrefixOf s.branches)⟩)

/-- the `#include`s of the input in order, each with its branch path and the pass's verdict -/
def trace (s : St) : List Ev → List Entry
  | [] => []
  | e :: es =>
    match (step s e).2 with
    | some x => x :: trace (step s e).1 es
    | none => trace (step s e).1 es

/-- the pass before the repair: the branch path was not looked at -/
def stepOld (s : St) : Ev → St × Option Entry
  | .inc n =>
    match s.first with
    | none => ({ s with first := some (n, s.branches) }, some ⟨n, s.branches, true⟩)
    | some (m, _) => (s, some ⟨n, s.branches, !(n == m)⟩)
  | e => ((step s e).1, none)

def traceOld (s : St) : List Ev → List Entry
  | [] => []
  | e :: es =>
    match (stepOld s e).2 with
    | some x => x :: traceOld (stepOld s e).1 es
    | none => traceOld (stepOld s e).1 es

/-- a directive in branch path `p` is seen by the compiler iff every branch of the path is taken -/
def active (taken : Nat → Bool) (p : List Nat) : Bool := p.all taken

/-- the header `n` is included (at least once) under the branch choice `taken` -/
def includes (taken : Nat → Bool) (n : Nat) (l : List Entry) : Prop :=
  ∃ e ∈ l, e.name = n ∧ active taken e.path = true

end Unc.DupInc
