import UncModel.Basic
/-!
# Types shared by the generated option tables (`Gen/Options.lean` …) and the `Config` model

Configuration text, option names and values are byte strings (`List Nat`, each `< 256`): the C++
works on `char`/`std::string`, never on decoded code points, in this layer.
-/
namespace Unc

abbrev Bytes := List Nat

/-- byte string of an ASCII literal (used by hand-written and generated tables) -/
def B (s : String) : Bytes := s.toList.map Char.toNat

/-- `option_type_e` -/
inductive OKind
  | bool | iarf | lineend | tokenpos | num | unum | string
  deriving DecidableEq, Repr, Inhabited

/-- a typed option value: `b` for bool, `e` for the three enum kinds (numeric enumerator value),
    `n` for `signed`/`unsigned`, `s` for `std::string` -/
inductive Val
  | b (v : Bool)
  | e (v : Nat)
  | n (v : Int)
  | s (v : Bytes)
  deriving DecidableEq, Repr, Inhabited

/-- one `extern TYPE\nNAME; // = DEFAULT` declaration of options.h -/
structure OptDecl where
  name : Bytes
  kind : OKind
  bounded : Bool
  lo : Int
  hi : Int
  dflt : Val
  group : Nat
  deriving DecidableEq, Repr, Inhabited

end Unc
