import UncModel.ConfigTypes
import UncModel.Gen.Options
import UncModel.Gen.OptEnums
import UncModel.Gen.NlMaxGuard
import UncModel.Gen.Lang
import UncModel.Gen.Compat
/-!
# L9 `Config` — the configuration loader and writer

Executable model of (all in `/repo/src`, tree with the C15/C16 fix patches applied):

* `option.cpp`: `is_arg_sep`, `is_varg_sep`, `split_args`, `to_lower`, `find_option`,
  `convert_string` (generated `option_enum.cpp`), `read_enum`, `read_number`,
  `Option<bool>::read`, `Option<string>::read`, `BoundedOption::validate` (option.h),
  `process_option_line` (type / set / macro-* / file_ext / include / using / compat renames / regular),
  `load_option_file`, `quote_config_arg`, `save_option_file` (without the doc comments),
* `keywords.cpp`: `add_keyword`, `print_custom_keywords`; `uncrustify.cpp`: `find_token_name`,
* `language_names.cpp`: `language_flags_from_name`, `language_name_from_flags`, `extension_add`,
  `print_extensions`,
* `too_big_for_nl_max.cpp` and the part of `main()` from loading the config file to
  `--update-config`: config file, `--set` loop, nl_max guard, dump.

The option registry, enum spellings, guarded options, language and token names and the
deprecated-name table are *generated* from the sources (`Gen/*.lean`).

Conventions: text is `Bytes` (`List Nat`); a C string is the prefix before the first 0 (`cstr`);
`char` is signed (x86-64), so bytes ≥ 128 are "not printable" in `load_option_file`.
-/
namespace Unc
open Gen

/-! ## C library pieces -/

/-- `isspace` in the "C" locale -/
def isSpaceB (c : Nat) : Bool := c == 32 || (9 ≤ c && c ≤ 13)
def isDigitB (c : Nat) : Bool := 48 ≤ c && c ≤ 57
/-- `tolower` in the "C" locale -/
def lowerB (c : Nat) : Nat := if 65 ≤ c ∧ c ≤ 90 then c + 32 else c
/-- what a `const char *` sees of a `std::string` -/
def cstr (s : Bytes) : Bytes := s.takeWhile (· != 0)
/-- option.cpp `to_lower(const char *)` -/
def toLowerS (s : Bytes) : Bytes := (cstr s).map lowerB
/-- `strcasecmp(a, b) == 0` -/
def strcaseEq (a b : Bytes) : Bool := toLowerS a == toLowerS b

def LONG_MAX : Int := 9223372036854775807
def LONG_MIN : Int := -9223372036854775808

/-- consume decimal digits -/
def digitsVal (acc : Nat) : Bytes → Nat × Bytes
  | [] => (acc, [])
  | c :: cs => if isDigitB c then digitsVal (acc * 10 + (c - 48)) cs else (acc, c :: cs)

def clampLong (v : Int) : Int := if v > LONG_MAX then LONG_MAX else if v < LONG_MIN then LONG_MIN else v

/-- optional sign in front of the digits: (negative?, rest) -/
def takeSign : Bytes → Bool × Bytes
  | 45 :: r => (true, r)
  | 43 :: r => (false, r)
  | s => (false, s)

/-- `strtol(s, &c, 10)`: value and the rest `c` points to.  No digits: value 0 and `c = s`. -/
def strtol (s : Bytes) : Int × Bytes :=
  let p := takeSign (s.dropWhile isSpaceB)
  match p.2 with
  | [] => (0, s)
  | c :: _ =>
    if isDigitB c then
      let q := digitsVal 0 p.2
      (clampLong (if p.1 then -(q.1 : Int) else (q.1 : Int)), q.2)
    else (0, s)

/-- `std::stoi(s)`: `none` models the exceptions invalid_argument / out_of_range -/
def stoi (s : Bytes) : Option Int :=
  let p := takeSign ((cstr s).dropWhile isSpaceB)
  match p.2 with
  | [] => none
  | c :: _ =>
    if isDigitB c then
      let v : Int := if p.1 then -((digitsVal 0 p.2).1 : Int) else ((digitsVal 0 p.2).1 : Int)
      if v < -2147483648 ∨ v > 2147483647 then none else some v
    else none

/-- `static_cast<int>(long)` -/
def wrap32 (v : Int) : Int :=
  let m := v % 4294967296
  if m ≥ 2147483648 then m - 4294967296 else m

/-- `std::to_string(unsigned)` -/
def natDecAux : Nat → Nat → Bytes → Bytes
  | 0, _, acc => acc
  | f + 1, n, acc => if n < 10 then (48 + n) :: acc else natDecAux f (n / 10) ((48 + n % 10) :: acc)
def natDec (n : Nat) : Bytes := natDecAux (n + 1) n []
/-- `std::to_string(int)` / `%ld` -/
def intDec (v : Int) : Bytes := if v < 0 then 45 :: natDec v.natAbs else natDec v.natAbs

/-! ## `split_args` -/

def isArgSep (c : Nat) : Bool := isSpaceB c || c == 44 || c == 61
def isVargSep (c : Nat) : Bool := c == 46
/-- `strchr("\'\"`", c)` is non-null: also for the terminating NUL -/
def isQuoteCh (c : Nat) : Bool := c == 39 || c == 34 || c == 96 || c == 0

inductive SplitErr
  | unterminated      -- "found unterminated quoted-string"
  | unexpectedText    -- "unexpected text following quoted-string"
  deriving DecidableEq, Repr

deriving instance DecidableEq for Except

/-- position of the scanner inside `split_args` (accumulators are reversed) -/
inductive SMode
  | skip                          -- between arguments ("Skip leading space")
  | quoted (q : Nat) (acc : Bytes)   -- inside a quoted string opened by `q`
  | escQ (q : Nat) (acc : Bytes)     -- a backslash was just erased inside a quoted string
  | afterQ                        -- just behind the closing quote
  | unq (acc : Bytes)             -- inside an unquoted argument
  | escU (acc : Bytes)            -- a backslash was just erased inside an unquoted argument

/-- one pass over the line; `out` is the reversed list of arguments found so far.
    C++ `split_args`: the outer `while (n < k)` with its three inner loops; `in.erase(n, 1)` of a
    backslash followed by `++n` keeps the next character unconditionally. -/
def splitRun (isSep : Nat → Bool) : SMode → List Bytes → Bytes → Except SplitErr (List Bytes)
  | .skip, out, [] => .ok out.reverse
  | .skip, out, c :: cs =>
    if isSep c then splitRun isSep .skip out cs
    else if c == 35 then .ok out.reverse                      -- '#': comment
    else if isQuoteCh c then splitRun isSep (.quoted c []) out cs
    else if c == 92 then splitRun isSep (.escU []) out cs
    else splitRun isSep (.unq [c]) out cs
  | .quoted q acc, out, [] =>
    -- in[k] is the terminating NUL: closes a "quote" opened by a NUL byte, otherwise unterminated
    if q == 0 then .ok (acc.reverse :: out).reverse else .error .unterminated
  | .quoted q acc, out, c :: cs =>
    if c == q then splitRun isSep .afterQ (acc.reverse :: out) cs
    else if c == 92 then splitRun isSep (.escQ q acc) out cs
    else splitRun isSep (.quoted q (c :: acc)) out cs
  | .escQ _ _, _, [] => .error .unterminated
  | .escQ q acc, out, c :: cs => splitRun isSep (.quoted q (c :: acc)) out cs
  | .afterQ, out, [] => .ok out.reverse
  | .afterQ, out, c :: cs =>
    if isSep c then splitRun isSep .skip out cs else .error .unexpectedText
  | .unq acc, out, [] => .ok (acc.reverse :: out).reverse
  | .unq acc, out, c :: cs =>
    if isSep c then splitRun isSep .skip (acc.reverse :: out) cs
    else if c == 92 then splitRun isSep (.escU acc) out cs
    else splitRun isSep (.unq (c :: acc)) out cs
  | .escU _, _, [] => .error .unterminated
  | .escU acc, out, c :: cs => splitRun isSep (.unq (c :: acc)) out cs

def splitArgs (isSep : Nat → Bool) (line : Bytes) : Except SplitErr (List Bytes) :=
  splitRun isSep .skip [] line

/-! ## the registry -/

abbrev Valuation := List (Nat × Val)

def dfltOf (i : Nat) : Val := match optionTable[i]? with | some d => d.dflt | none => .b false
def kindOf (i : Nat) : OKind := match optionTable[i]? with | some d => d.kind | none => .bool
def nameOf (i : Nat) : Bytes := match optionTable[i]? with | some d => d.name | none => []
def getV (σ : Valuation) (i : Nat) : Val := (σ.lookup i).getD (dfltOf i)
def setV (σ : Valuation) (i : Nat) (v : Val) : Valuation := (i, v) :: σ

/-- `Option<bool>::operator()` of an option known to be OT_BOOL -/
def boolOfVal : Val → Bool | .b v => v | _ => false
/-- `Option<signed/unsigned>::operator()` as `long` -/
def numOfVal : Val → Int | .n v => v | _ => 0

/-- `option_map.find(name)` for an already lower-cased name -/
def findExact (name : Bytes) : Option Nat := optionTable.findIdx? (fun d => d.name == name)
/-- option.cpp `find_option(const char *)` -/
def findOption (name : Bytes) : Option Nat := findExact (toLowerS name)

/-! ## diagnostics and state -/

inductive DiagKind
  | unterminated | unexpectedText | tooFewArgs | unknownOption | setUnknownType | fileExtUnknownLang
  | includeEmpty | includeTooDeep | cannotOpen | usingBadVersion | deprecated | notPrintable
  | unexpectedValue | incompatibleRef | lessThanMin | greaterThanMax
  | setTooLong | setParse | setUnknown
  deriving DecidableEq, Repr

/-- one message on stderr: which file and line it names, the option (or command / offending word)
    it names, and the quoted text it echoes -/
structure Diag where
  kind : DiagKind
  file : Bytes
  line : Nat
  name : Bytes
  arg : Bytes
  deriving DecidableEq, Repr

structure St where
  vals : Valuation := []
  /-- keywords.cpp `dkwm`: std::map, kept sorted by key -/
  kws : List (Bytes × Nat) := []
  /-- language_names.cpp `g_ext_map`: extension -> index into `languageNames` -/
  exts : List (Bytes × Nat) := []
  /-- newest first -/
  diags : List Diag := []
  /-- `exit(n)` / `return n` from main was reached -/
  exit : Option Nat := none
  /-- `cpd.filename` -/
  cfgName : Bytes := []
  /-- `cpd.line_number` -/
  lineNo : Nat := 0
  /-- names printed by too_big_for_nl_max (stdout) -/
  tooBig : List Bytes := []
  deriving DecidableEq, Repr

/-- `OptionWarning w{ filename }` -/
def St.warnF (st : St) (fname : Bytes) (k : DiagKind) (name arg : Bytes) : St :=
  { st with diags := ⟨k, fname, st.lineNo, name, arg⟩ :: st.diags }
/-- `OptionWarning w{ option }` : names `cpd.filename` -/
def St.warnO (st : St) (k : DiagKind) (i : Nat) (arg : Bytes) : St :=
  { st with diags := ⟨k, st.cfgName, st.lineNo, nameOf i, arg⟩ :: st.diags }
def St.setOpt (st : St) (i : Nat) (v : Val) : St := { st with vals := setV st.vals i v }

/-! ## reading values -/

/-- generated `convert_string`: first `strcasecmp` match of the chain -/
def convertString (tbl : List (Bytes × Nat)) (s : Bytes) : Option Nat :=
  (tbl.find? (fun p => strcaseEq s p.1)).map (·.2)

def spellingsOf : OKind → List (Bytes × Nat)
  | .bool => boolSpellings | .iarf => iarfSpellings | .lineend => lineendSpellings
  | .tokenpos => tokenposSpellings | _ => []

/-- `Option<bool>::read` (with the fix: an empty value is not an inversion prefix) -/
def readBool (st : St) (i : Nat) (inp : Bytes) : St × Bool :=
  match convertString boolSpellings inp with
  | some v => (st.setOpt i (.b (v != 0)), true)
  | none =>
    let (invert, inp') := match inp with
      | c :: r => if c == 126 || c == 33 || c == 45 then (true, r) else (false, inp)
      | [] => (false, inp)
    match findOption inp' with
    | some j =>
      if kindOf j != .bool then (st.warnO .incompatibleRef i (nameOf j), false)
      else
        let bv := boolOfVal (getV st.vals j)
        (st.setOpt i (.b (if invert then !bv else bv)), true)
    | none => (st.warnO .unexpectedValue i inp', false)

/-- `read_enum<T>` -/
def readEnum (st : St) (i : Nat) (inp : Bytes) : St × Bool :=
  match convertString (spellingsOf (kindOf i)) inp with
  | some v => (st.setOpt i (.e v), true)
  | none =>
    match findOption inp with
    | some j =>
      if kindOf j != kindOf i then (st.warnO .incompatibleRef i (nameOf j), false)
      else (st.setOpt i (getV st.vals j), true)
    | none => (st.warnO .unexpectedValue i inp, false)

/-- `BoundedOption::validate` / `Option::validate`; the warning echoes the value as `%ld` -/
def validate (st : St) (i : Nat) (v : Int) : St × Bool :=
  match optionTable[i]? with
  | some d =>
    if d.bounded then
      if v < d.lo then (st.warnO .lessThanMin i (intDec v), false)
      else if v > d.hi then (st.warnO .greaterThanMax i (intDec v), false)
      else (st, true)
    else (st, true)
  | none => (st, true)

/-- `static_cast<T>(long)` for `signed` / `unsigned` -/
def castNum (k : OKind) (v : Int) : Int := if k == .num then wrap32 v else v % 4294967296

/-- `if (out.validate(val)) { out.m_val = static_cast<T>(val); return(true); }` -/
def storeNumber (st : St) (i : Nat) (v : Int) : St × Bool :=
  let r := validate st i v
  if r.2 then (r.1.setOpt i (.n (castNum (kindOf i) v)), true) else (r.1, false)

/-- `if (in[0] == '-') { invert = true; ++in; }` -/
def stripMinus : Bytes → Bool × Bytes
  | 45 :: r => (true, r)
  | s => (false, s)

/-- second half of `read_number<T>`: the value is a reference to another numeric option, maybe negated -/
def readNumberRef (st : St) (i : Nat) (inp : Bytes) : St × Bool :=
  let p := stripMinus inp
  match findOption p.2 with
  | some j =>
    if kindOf j == .num || kindOf j == .unum then
      let tval := numOfVal (getV st.vals j)
      storeNumber st i (if p.1 then -tval else tval)
    else (st.warnO .incompatibleRef i (nameOf j), false)
  | none => (st.warnO .unexpectedValue i p.2, false)

/-- `read_number<T>` (with the fix: `in[0] == '-'` instead of `strchr("-", in[0])`): a complete number that
    validates is stored; otherwise (after validate's warning, if any) the text is tried as a reference -/
def readNumber (st : St) (i : Nat) (inp : Bytes) : St × Bool :=
  let p := strtol inp
  if p.2.isEmpty then
    let r := storeNumber st i p.1
    if r.2 then r else readNumberRef r.1 i inp
  else readNumberRef st i inp

/-- `GenericOption::read(const char *)` by option type -/
def readOption (st : St) (i : Nat) (inp : Bytes) : St × Bool :=
  match kindOf i with
  | .bool => readBool st i inp
  | .iarf | .lineend | .tokenpos => readEnum st i inp
  | .num | .unum => readNumber st i inp
  | .string => (st.setOpt i (.s inp), true)

/-! ## keywords, languages -/

/-- `std::string` ordering (bytes as unsigned char) -/
def bytesLt : Bytes → Bytes → Bool
  | [], [] => false
  | [], _ :: _ => true
  | _ :: _, [] => false
  | a :: as, b :: bs => if a < b then true else if b < a then false else bytesLt as bs

/-- insert-or-assign into a map kept sorted by key (`std::map::operator[]` / `add_keyword`) -/
def mapInsert (k : Bytes) (v : Nat) : List (Bytes × Nat) → List (Bytes × Nat)
  | [] => [(k, v)]
  | (k', v') :: rest =>
    if k == k' then (k, v) :: rest
    else if bytesLt k k' then (k, v) :: (k', v') :: rest
    else (k', v') :: mapInsert k v rest

def St.addKeyword (st : St) (w : Bytes) (tok : Nat) : St := { st with kws := mapInsert w tok st.kws }

/-- uncrustify.cpp `find_token_name`: index ≥ 1 of the first `strcasecmp` match; 0 = CT_NONE -/
def findTokenName (text : Bytes) : Nat :=
  if text.isEmpty then 0 else
  match (tokenNames.drop 1).findIdx? (fun n => strcaseEq text n) with
  | some k => k + 1
  | none => 0

/-- `language_flags_from_name` then `language_name_from_flags`: index of the canonical entry -/
def findLanguage (name : Bytes) : Option Nat :=
  match languageNames.find? (fun p => strcaseEq name p.1) with
  | some (_, flags) => if flags == 0 then none else languageNames.findIdx? (fun p => p.2 == flags)
  | none => none

/-! ## `process_option_line` -/

def sType : Bytes := [116,121,112,101]
def sSet : Bytes := [115,101,116]
def sFileExt : Bytes := [102,105,108,101,95,101,120,116]
def sMacroOpen : Bytes := [109,97,99,114,111,45,111,112,101,110]
def sMacroClose : Bytes := [109,97,99,114,111,45,99,108,111,115,101]
def sMacroElse : Bytes := [109,97,99,114,111,45,101,108,115,101]
def sInclude : Bytes := [105,110,99,108,117,100,101]
def sUsing : Bytes := [117,115,105,110,103]

/-- `option_level(major, minor, patch)`; faithful for 0 ≤ minor, patch < 1024 ≤ … (no int overflow) -/
def optionLevel (maj mnr pat : Int) : Int := maj * 1048576 + mnr * 1024 + pat

/-- the `using` branch (with the fix: std::stoi failures are diagnosed instead of aborting) -/
def processUsing (fname : Bytes) (compat : Int) (st : St) (arg : Bytes) : St × Int :=
  match splitArgs isVargSep arg with
  | .error e =>
    -- split_args warned and returned {}: size 0
    let st := st.warnF fname (if e == .unterminated then .unterminated else .unexpectedText) [] []
    (st.warnF fname .usingBadVersion sUsing arg, compat)
  | .ok [a, b] =>
    match stoi a, stoi b with
    | some x, some y => (st, optionLevel x y 0)
    | _, _ => (st.warnF fname .usingBadVersion sUsing arg, compat)
  | .ok [a, b, c] =>
    match stoi a, stoi b, stoi c with
    | some x, some y, some z => (st, optionLevel x y z)
    | _, _, _ => (st.warnF fname .usingBadVersion sUsing arg, compat)
  | .ok _ => (st.warnF fname .usingBadVersion sUsing arg, compat)

/-- `path_dirname_len`: up to and including the last '/' -/
def dirnameOf (p : Bytes) : Bytes :=
  let r := p.reverse.dropWhile (· != 47)
  r.reverse

/-- the first matching entry of the compat functions that are active at `compat` -/
def findCompat (compat : Int) (cmd : Bytes) : Option (Option Bytes) :=
  (compatTable.find? (fun e => decide (compat < e.1) && e.2.1 == cmd)).map (·.2.2)

/-- the regular `option = value` branch -/
def processRegular (fname : Bytes) (compat : Int) (st : St) (a0 cmd a1 : Bytes) : St :=
  match findCompat compat cmd with
  | some redirect =>
    let st := st.warnF fname .deprecated cmd []
    match redirect with
    | some newName =>
      match findExact newName with
      | some j => (readOption st j (cstr a1)).1
      | none => st
    | none => st
  | none =>
    match findExact cmd with
    | none => st.warnF fname .unknownOption (cstr a0) []
    | some i => (readOption st i (cstr a1)).1

/-- `process_option_line(config_line, filename, compat_level)`.
    `incl` loads an included file (`none`: MAX_INCLUDE_DEPTH reached). -/
def processLine (incl : Option (Bytes → Int → St → St)) (fname : Bytes) (compat : Int) (st : St)
    (line : Bytes) : St × Int :=
  match splitArgs isArgSep line with
  | .error e => (st.warnF fname (if e == .unterminated then .unterminated else .unexpectedText) [] [], compat)
  | .ok [] => (st, compat)
  | .ok (a0 :: rest) =>
    let cmd := toLowerS a0
    let need := if cmd == sSet || cmd == sFileExt then 2 else 1
    if rest.length < need then (st.warnF fname .tooFewArgs cmd [], compat) else
    match rest with
    | [] => (st, compat)   -- unreachable: need ≥ 1
    | a1 :: more =>
      if cmd == sType then (rest.foldl (fun s w => s.addKeyword w CT_TYPE) st, compat)
      else if cmd == sMacroOpen then (st.addKeyword a1 CT_MACRO_OPEN, compat)
      else if cmd == sMacroClose then (st.addKeyword a1 CT_MACRO_CLOSE, compat)
      else if cmd == sMacroElse then (st.addKeyword a1 CT_MACRO_ELSE, compat)
      else if cmd == sSet then
        let tok := findTokenName (cstr a1)
        if tok != 0 then (more.foldl (fun s w => s.addKeyword w tok) st, compat)
        else (st.warnF fname .setUnknownType cmd (cstr a1), compat)
      else if cmd == sInclude then
        if a1.isEmpty then (st.warnF fname .includeEmpty cmd [], compat)
        else match incl with
          | none => ({ st.warnF fname .includeTooDeep cmd [] with exit := some 70 }, compat)
          | some load =>
            let path := if a1.head? == some 47 then cstr a1 else cstr (dirnameOf fname ++ a1)
            let st' := load path compat { st with cfgName := path }
            ({ st' with lineNo := st.lineNo, cfgName := st.cfgName }, compat)
      else if cmd == sFileExt then
        match findLanguage (cstr a1) with
        | some l => ({ st with exts := more.foldl (fun m e => mapInsert (cstr e) l m) st.exts }, compat)
        | none => (st.warnF fname .fileExtUnknownLang cmd (cstr a1), compat)
      else if cmd == sUsing then processUsing fname compat st a1
      else (processRegular fname compat st a0 cmd a1, compat)

/-! ## `load_option_file` -/

/-- `std::getline` until EOF: lines without their '\n'; no empty line after a final '\n' -/
def splitLinesAux : Bytes → Bytes → List Bytes
  | acc, [] => if acc.isEmpty then [] else [acc.reverse]
  | acc, c :: cs => if c == 10 then acc.reverse :: splitLinesAux [] cs else splitLinesAux (c :: acc) cs
def splitLines (bs : Bytes) : List Bytes := splitLinesAux [] bs

/-- 1-based position of the first byte ≥ 128 (negative `char`) before the first '#' -/
def nonPrintablePos : Nat → Bytes → Option Nat
  | _, [] => none
  | n, c :: cs => if c == 35 then none else if c ≥ 128 then some (n + 1) else nonPrintablePos (n + 1) cs

/-- the `while (std::getline(in, line))` loop -/
def loadLines (incl : Option (Bytes → Int → St → St)) (fname : Bytes) : Int → St → List Bytes → St
  | _, st, [] => st
  | compat, st, l :: ls =>
    if st.exit.isSome then st else
    match nonPrintablePos 0 l with
    | some p =>
      { st with diags := ⟨.notPrintable, fname, st.lineNo + 1, [], natDec p⟩ :: st.diags, exit := some 70 }
    | none =>
      let (st', compat') := processLine incl fname compat { st with lineNo := st.lineNo + 1 } l
      loadLines incl fname compat' st' ls

/-- `load_option_file(filename, compat_level)`; `fuel` = MAX_INCLUDE_DEPTH − include_depth -/
def loadFile (fs : Bytes → Option Bytes) : Nat → Bytes → Int → St → St
  | fuel, fname, compat, st =>
    let st := { st with lineNo := 0 }
    match fs fname with
    | none => { st with diags := ⟨.cannotOpen, fname, 0, [], []⟩ :: st.diags, exit := some 70 }
    | some content =>
      let incl : Option (Bytes → Int → St → St) := match fuel with
        | 0 => none
        | f + 1 => some (loadFile fs f)
      loadLines incl fname compat st (splitLines content)

/-! ## writer -/

def needsQuote (w : Bytes) : Bool :=
  w.isEmpty || w.any (fun c => isArgSep c || c == 35 || c == 92 || c == 39 || c == 34 || c == 96)

def escapeArg : Bytes → Bytes
  | [] => []
  | c :: cs => if c == 92 || c == 34 then 92 :: c :: escapeArg cs else c :: escapeArg cs

/-- option.cpp `quote_config_arg` -/
def quoteArg (always : Bool) (w : Bytes) : Bytes :=
  if !always && !needsQuote w then w else 34 :: (escapeArg w ++ [34])

def namesOf : OKind → List (Nat × Bytes)
  | .bool => boolNames | .iarf => iarfNames | .lineend => lineendNames | .tokenpos => tokenposNames
  | _ => []

/-- the values an option of declaration `d` can hold after reading any text: of the right type,
    an enumerator of the right enum, a number within the declared bounds (within `int` if unbounded),
    a C string -/
def admissible (d : OptDecl) (v : Val) : Bool :=
  match d.kind, v with
  | .bool, .b _ => true
  | .iarf, .e x => ((namesOf .iarf).lookup x).isSome
  | .lineend, .e x => ((namesOf .lineend).lookup x).isSome
  | .tokenpos, .e x => ((namesOf .tokenpos).lookup x).isSome
  | .num, .n x => if d.bounded then decide (d.lo ≤ x) && decide (x ≤ d.hi)
                  else decide (-2147483648 ≤ x) && decide (x ≤ 2147483647)
  | .unum, .n x => d.bounded && decide (d.lo ≤ x) && decide (x ≤ d.hi)
  | .string, .s s => s.all (· != 0)
  | _, _ => false

/-- `Option<T>::str()` -/
def valStr (k : OKind) : Val → Bytes
  | .b v => ((namesOf .bool).lookup (if v then 1 else 0)).getD []
  | .e v => ((namesOf k).lookup v).getD []
  | .n v => intDec v
  | .s v => v

def spaces (n : Nat) : Bytes := List.replicate n 32

/-- one `name = value` line of save_option_file (without the end-of-line marker) -/
def saveLine (d : OptDecl) (v : Val) : Bytes :=
  let pad := if d.name.length < maxOptionNameLen then maxOptionNameLen - d.name.length else 1
  d.name ++ spaces pad ++ [61, 32] ++
    (if d.kind == .string then cstr (quoteArg true (valStr d.kind v)) else valStr d.kind v)

def optionLinesAux (σ : Valuation) (minimal : Bool) : Nat → List OptDecl → List Bytes
  | _, [] => []
  | i, d :: ds =>
    let v := getV σ i
    if minimal && v == d.dflt then optionLinesAux σ minimal (i + 1) ds
    else saveLine d v :: optionLinesAux σ minimal (i + 1) ds

def nonDefaultCountAux (σ : Valuation) : Nat → List OptDecl → Nat
  | _, [] => 0
  | i, d :: ds => (if getV σ i == d.dflt then 0 else 1) + nonDefaultCountAux σ (i + 1) ds

/-- keywords.cpp `print_custom_keywords`, one entry -/
def keywordLine (w : Bytes) (tok : Nat) : Bytes :=
  let word := cstr (quoteArg false w)
  let m := maxOptionNameLen
  if tok == CT_TYPE then sType ++ [32] ++ spaces (m - 5) ++ word
  else if tok == CT_MACRO_OPEN then sMacroOpen ++ [32] ++ spaces (m - 11) ++ word
  else if tok == CT_MACRO_CLOSE then sMacroClose ++ [32] ++ spaces (m - 12) ++ word
  else if tok == CT_MACRO_ELSE then sMacroElse ++ [32] ++ spaces (m - 11) ++ word
  else
    let tn := tokenNames.getD tok []
    -- "%*.s" with a negative width pads to the absolute value
    sSet ++ [32] ++ tn ++ [32] ++ spaces ((m : Int) - (4 + tn.length : Nat)).natAbs ++ word

/-- language_names.cpp `print_extensions` -/
def extensionLines (exts : List (Bytes × Nat)) : List Bytes :=
  (List.range languageNames.length).filterMap fun l =>
    let mine := exts.filter (fun p => p.2 == l)
    if mine.isEmpty then none
    else some (sFileExt ++ [32] ++ (languageNames.getD l ([], 0)).1 ++
               (mine.map fun p => 32 :: cstr (quoteArg false p.1)).flatten)

def trailer (n : Nat) : List Bytes :=
  [B "# option(s) with 'not default' value: " ++ natDec n, [35]]

/-- `save_option_file(pfile, false, minimal)` as lines (the first line with the version is omitted) -/
def saveLines (st : St) (minimal : Bool) : List Bytes :=
  optionLinesAux st.vals minimal 0 optionTable
    ++ st.kws.map (fun p => keywordLine p.1 p.2)
    ++ extensionLines st.exts
    ++ trailer (nonDefaultCountAux st.vals 0 optionTable)

def joinLines (ls : List Bytes) : Bytes := (ls.map (· ++ [10])).flatten

def saveText (st : St) (minimal : Bool) : Bytes := joinLines (saveLines st minimal)

/-! ## `main()`: config file, `--set`, nl_max guard -/

/-- split at every '=' -/
def splitEqAux : Bytes → Bytes → List Bytes
  | acc, [] => [acc.reverse]
  | acc, c :: cs => if c == 61 then acc.reverse :: splitEqAux [] cs else splitEqAux (c :: acc) cs

/-- `strtok(buffer, "=")` applied until exhaustion: the non-empty pieces -/
def strtokEq (s : Bytes) : List Bytes :=
  (splitEqAux [] (cstr s)).filter (fun t => !t.isEmpty)

/-- one `--set` argument in `main()` -/
def applySet (st : St) (arg : Bytes) : St :=
  if st.exit.isSome then st else
  if (cstr arg).length > 256 then { st with diags := ⟨.setTooLong, [], 0, [], []⟩ :: st.diags, exit := some 70 } else
  match strtokEq arg with
  | [opt, value] =>
    match findOption opt with
    | some i =>
      let (st', ok) := readOption st i value
      if ok then st' else { st' with exit := some 1 }
    | none => { st with diags := ⟨.setUnknown, [], 0, opt, []⟩ :: st.diags, exit := some 1 }
  | _ => { st with diags := ⟨.setParse, [], 0, [], []⟩ :: st.diags, exit := some 64 }

def numOf (σ : Valuation) (name : Bytes) : Int :=
  match findExact name with
  | some i => numOfVal (getV σ i)
  | none => 0

def sNlMax : Bytes := [110,108,95,109,97,120]

/-- too_big_for_nl_max(): names of the guarded options that exceed nl_max -/
def tooBigFor (σ : Valuation) : List Bytes :=
  nlMaxGuarded.filter (fun n => numOf σ n > numOf σ sNlMax)

/-- the call site in `main()` -/
def nlMaxGuard (st : St) : St :=
  if st.exit.isSome then st else
  if numOf st.vals sNlMax > 0 then
    let big := tooBigFor st.vals
    if big.isEmpty then st else { st with tooBig := big, exit := some 78 }
  else st

/-- `uncrustify -c cfg [--set a=b]… --update-config`: final state; `exit = none` means the dump
    `saveText` was written and the status is 0.  No source file has been read at this point. -/
def runConfig (fs : Bytes → Option Bytes) (cfg : Bytes) (sets : List Bytes) : St :=
  let st0 : St := { cfgName := cfg }
  let st1 := loadFile fs maxIncludeDepth cfg compatLevel0 st0
  nlMaxGuard (sets.foldl applySet st1)

end Unc
