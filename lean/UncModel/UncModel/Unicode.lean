import UncModel.Basic
/-!
# L1: `src/unicode.cpp` and the encoding/BOM policy at the head of `uncrustify_file()`

Statement-by-statement model.  Bit operations of the C++ are written
arithmetically: `x >> k` as `x / 2^k`, `x & (2^k-1)` as `x % 2^k`,
`hi | lo` (disjoint bits) as `hi + lo`, `(b & 0xE0) == 0xC0` as `b / 32 = 6`
for a byte `b`.  `UncModel/Bits.lean` proves these identities; the
function-level correspondence run compares the model with the compiled C++
on every Unicode scalar value.
-/

namespace Unc

inductive Enc | ascii | byte | utf8 | utf16le | utf16be
deriving DecidableEq, Repr

def Enc.code : Enc → Nat
  | .ascii => 0 | .byte => 1 | .utf8 => 2 | .utf16le => 3 | .utf16be => 4

def Enc.ofCode : Nat → Option Enc
  | 0 => some .ascii | 1 => some .byte | 2 => some .utf8 | 3 => some .utf16le | 4 => some .utf16be
  | _ => none

/-! ## encode_utf8 -/

def encodeUtf8 (ch : CP) : List Byte :=
  if ch < 0x80 then [ch]
  else if ch < 0x800 then [0xC0 + ch / 64, 0x80 + ch % 64]
  else if ch < 0x10000 then [0xE0 + ch / 4096, 0x80 + ch / 64 % 64, 0x80 + ch % 64]
  else if ch < 0x200000 then
    [0xF0 + ch / 262144, 0x80 + ch / 4096 % 64, 0x80 + ch / 64 % 64, 0x80 + ch % 64]
  else if ch < 0x4000000 then
    [0xF8 + ch / 16777216, 0x80 + ch / 262144 % 64, 0x80 + ch / 4096 % 64,
     0x80 + ch / 64 % 64, 0x80 + ch % 64]
  else
    [0xFC + ch / 1073741824, 0x80 + ch / 16777216 % 64, 0x80 + ch / 262144 % 64,
     0x80 + ch / 4096 % 64, 0x80 + ch / 64 % 64, 0x80 + ch % 64]

/-! ## decode_utf8 -/

/-- lead byte classification: payload bits and number of continuation bytes -/
def utf8Lead (b : Byte) : Option (Nat × Nat) :=
  if b / 32 = 6 then some (b % 32, 1)          -- (b & 0xE0) == 0xC0
  else if b / 16 = 14 then some (b % 16, 2)    -- (b & 0xF0) == 0xE0
  else if b / 8 = 30 then some (b % 8, 3)      -- (b & 0xF8) == 0xF0
  else if b / 4 = 62 then some (b % 4, 4)      -- (b & 0xFC) == 0xF8
  else if b / 2 = 126 then some (b % 2, 5)     -- (b & 0xFE) == 0xFC
  else none

def isCont (b : Byte) : Bool := b / 64 = 2      -- (b & 0xC0) == 0x80

/-- the smallest code point that needs `cnt` continuation bytes; a decoded
    value below it is an overlong form, which `decode_utf8` rejects -/
def utf8MinFor : Nat → Nat
  | 1 => 0x80 | 2 => 0x800 | 3 => 0x10000 | 4 => 0x200000 | 5 => 0x4000000 | _ => 0

/-- the main loop of `decode_utf8` (after the optional BOM skip) -/
def decodeUtf8Body (checkOverlong : Bool) : List Byte → Option (List CP)
  | [] => some []
  | b :: rest =>
    if b < 0x80 then (decodeUtf8Body checkOverlong rest).map (b :: ·)
    else match utf8Lead b with
      | none => none
      | some (hi, cnt) =>
        let cs := rest.take cnt
        if cs.length = cnt ∧ cs.all isCont then
          let ch := cs.foldl (fun acc t => acc * 64 + t % 64) hi
          if checkOverlong ∧ ch < utf8MinFor cnt then none
          else (decodeUtf8Body checkOverlong (rest.drop cnt)).map (ch :: ·)
        else none
termination_by l => l.length
decreasing_by all_goals (simp only [List.length_cons, List.length_drop]; omega)

def hasUtf8Bom : List Byte → Bool
  | 0xef :: 0xbb :: 0xbf :: _ => true
  | _ => false

def decodeUtf8 (ov : Bool) (bs : List Byte) : Option (List CP) :=
  if hasUtf8Bom bs then decodeUtf8Body ov (bs.drop 3) else decodeUtf8Body ov bs

/-! ## decode_utf16 -/

def word (be : Bool) (b0 b1 : Byte) : Nat := if be then b0 * 256 + b1 else b0 + b1 * 256

/-- the `while (idx < size)` loop of `decode_utf16` (size is even) -/
def decodeUtf16Body (be : Bool) : List Byte → Option (List CP)
  | [] => some []
  | [_] => none                                          -- cannot happen for even sizes
  | b0 :: b1 :: rest =>
    let ch := word be b0 b1
    if ch / 1024 = 54 then                               -- (ch & 0xfc00) == 0xd800
      match rest with
      | c0 :: c1 :: rest' =>
        let tmp := word be c0 c1
        if tmp / 1024 = 55 then                          -- (tmp & 0xfc00) == 0xdc00
          (decodeUtf16Body be rest').map (((ch % 1024) * 1024 + tmp % 1024 + 0x10000) :: ·)
        else none
      | _ => none                                        -- get_word returned -1
    else if ch < 0xD800 ∨ ch ≥ 0xE000 then
      (decodeUtf16Body be rest).map (ch :: ·)
    else none

/-- `decode_utf16`: returns the detected encoding too -/
def decodeUtf16 (bs : List Byte) : Option (Enc × List CP) :=
  if bs.length % 2 = 1 then none
  else if bs.length < 2 then none
  else match bs with
    | 0xfe :: 0xff :: rest => (decodeUtf16Body true rest).map (Enc.utf16be, ·)
    | 0xff :: 0xfe :: rest => (decodeUtf16Body false rest).map (Enc.utf16le, ·)
    | b0 :: b1 :: b2 :: b3 :: b4 :: b5 :: _ =>
      if b0 = 0 ∧ b2 = 0 ∧ b4 = 0 then (decodeUtf16Body true bs).map (Enc.utf16be, ·)
      else if b1 = 0 ∧ b3 = 0 ∧ b5 = 0 then (decodeUtf16Body false bs).map (Enc.utf16le, ·)
      else none
    | _ => none

/-! ## decode_bom / decode_unicode -/

def decodeBom : List Byte → Option Enc
  | 0xfe :: 0xff :: _ => some .utf16be
  | 0xff :: 0xfe :: _ => some .utf16le
  | 0xef :: 0xbb :: 0xbf :: _ => some .utf8
  | _ => none

def nonAsciiCnt (bs : List Byte) : Nat := (bs.filter (fun b => b ≥ 128)).length
def zeroCnt (bs : List Byte) : Nat := (bs.filter (fun b => b = 0)).length

/-- `decode_unicode`: `none` = failure (`load_mem_file` exits with EX_IOERR) -/
def decodeUnicode (ov : Bool) (bs : List Byte) : Option (Enc × Bool × List CP) :=
  match decodeBom bs with
  | some .utf8 => (decodeUtf8 ov bs).map (fun cps => (Enc.utf8, true, cps))
  | some _ => (decodeUtf16 bs).map (fun r => (r.1, true, r.2))
  | none =>
    if nonAsciiCnt bs + zeroCnt bs = 0 then some (.ascii, false, bs)
    else
      let z := zeroCnt bs
      let tryUtf8 : Option (Enc × Bool × List CP) :=
        match decodeUtf8 ov bs with
        | some cps => some (.utf8, false, cps)
        | none => some (.byte, false, bs)
      if z > bs.length / 4 ∧ z ≤ bs.length / 2 then
        match decodeUtf16 bs with
        | some r => some (r.1, false, r.2)
        | none => tryUtf8
      else tryUtf8

/-! ## writers -/

/-- `write_byte`: values outside 0..255 are not stored -/
def writeByte (v : Nat) : List Byte := if v < 256 then [v] else []

def writeUtf8 (ch : CP) : List Byte := (encodeUtf8 ch).flatMap writeByte

def writeUtf16 (be : Bool) (ch : CP) : List Byte :=
  if ch < 0xD800 ∨ (0xE000 ≤ ch ∧ ch < 0x10000) then
    if be then writeByte (ch / 256) ++ writeByte (ch % 256)
    else writeByte (ch % 256) ++ writeByte (ch / 256)
  else if 0x10000 ≤ ch ∧ ch < 0x110000 then
    let v1 := ch - 0x10000
    let w1 := 0xD800 + v1 / 1024
    let w2 := 0xDC00 + v1 % 1024
    if be then writeByte (w1 / 256) ++ writeByte (w1 % 256) ++ writeByte (w2 / 256) ++ writeByte (w2 % 256)
    else writeByte (w1 % 256) ++ writeByte (w1 / 256) ++ writeByte (w2 % 256) ++ writeByte (w2 / 256)
  else []

def writeChar (e : Enc) (ch : CP) : List Byte :=
  match e with
  | .byte => writeByte (ch % 256)
  | .ascii => writeByte ch
  | .utf8 => writeUtf8 ch
  | .utf16le => writeUtf16 false ch
  | .utf16be => writeUtf16 true ch

def writeBom (e : Enc) : List Byte :=
  match e with
  | .utf8 => [0xef, 0xbb, 0xbf]
  | .utf16le => writeUtf16 false 0xfeff
  | .utf16be => writeUtf16 true 0xfeff
  | _ => []

/-- everything `output_text` sends to `write_char`, preceded by the BOM -/
def emit (e : Enc) (bom : Bool) (cps : List CP) : List Byte :=
  (if bom then writeBom e else []) ++ cps.flatMap (writeChar e)

/-! ## the policy block at the head of `uncrustify_file()` -/

inductive IARF | ignore | add | remove | force
deriving DecidableEq, Repr

def IARF.code : IARF → Nat | .ignore => 0 | .add => 1 | .remove => 2 | .force => 3
def IARF.ofCode : Nat → Option IARF
  | 0 => some .ignore | 1 => some .add | 2 => some .remove | 3 => some .force | _ => none

structure EncOpts where
  utf8Bom : IARF := .ignore
  utf8Byte : Bool := false
  utf8Force : Bool := false

def encPolicy (o : EncOpts) (e : Enc) (bom : Bool) : Enc × Bool :=
  let e' := if o.utf8Force ∨ (e = .byte ∧ o.utf8Byte) then Enc.utf8 else e
  let av : IARF := match e' with
    | .utf8 => o.utf8Bom
    | .utf16le => .force
    | .utf16be => .force
    | _ => .ignore
  let bom' := if av = .remove then false else if av ≠ .ignore then true else bom
  (e', bom')

/-- the embedded-NUL scan: every code point but the last must be non-zero -/
def noEmbeddedZero (cps : List CP) : Bool := cps.dropLast.all (· ≠ 0)

/-- the byte-level behaviour of a whole run, for any code-point formatter `F` -/
def runBytes (ov : Bool) (o : EncOpts) (F : List CP → List CP) (bs : List Byte) : Option (List Byte) :=
  match decodeUnicode ov bs with
  | none => none
  | some (e, bom, cps) =>
    if noEmbeddedZero cps then
      let p := encPolicy o e bom
      some (emit p.1 p.2 (F cps))
    else none

end Unc
