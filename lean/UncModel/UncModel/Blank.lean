import UncModel.Gen.BlankRules
import UncModel.EatSE
/-!
# L6: blank-line counts — `do_blank_lines()` (`src/newlines/blank_line.cpp`), `can_increase_nl()`
(`src/newlines/can_increase_nl.cpp`), `newlines_cleanup_dup()` (merge of adjacent newline chunks)

`do_blank_lines()` is a loop over the chunk list.  For a visited `CT_NEWLINE` chunk `pc` it executes, in this order:
a "+1" (first/last chunk of the file: `line_added`), the `nl_max` cap, the `can_increase_nl` test (count forced to 1 and
`continue`), about forty guarded writes of option values — to `pc` or to an earlier chunk `tmp` — and the "−1" that
undoes the "+1".  The *write inventory* (`Gen.blankWrites`) is regenerated from the source on every run; the model
below interprets it: the guards of the middle writes are heuristic conditions on token types and are **not** modelled —
the model takes, for every middle write, whether it fired (`fires`), and the theorems quantify over all such choices.
-/
namespace Unc
open Gen

/-- option valuation (all options read by the pass are `unsigned`) -/
abbrev Sigma := String → Nat

/-- `pc->GetNlCount() CMP optval` as written in blank_line_set()/blank_line_max() (an unknown comparison is treated as
    "may hold") -/
def cmpHolds (c : String) (n opt : Nat) : Bool :=
  if c = ">" then decide (n > opt) else if c = "!=" then decide (n ≠ opt) else if c = "<" then decide (n < opt)
  else if c = ">=" then decide (n ≥ opt) else if c = "<=" then decide (n ≤ opt) else if c = "==" then decide (n = opt)
  else true

/-- blank_line_set / blank_line_max: `if ((optval > 0) && (count CMP optval)) SetNlCount(optval)` -/
def blankHelper (cmp : String) (opt n : Nat) : Nat := if opt > 0 ∧ cmpHolds cmp n opt = true then opt else n
def blankSet (opt n : Nat) : Nat := blankHelper Gen.blankSetCmp opt n
def blankMax (opt n : Nat) : Nat := blankHelper Gen.blankMaxCmp opt n

/-! ## shape of the inventory the model relies on -/

def prologueExpected : List BW := [
  { target := "-", kind := "continue", opts := [], guards := ["pc->IsNot(CT_NEWLINE)"] },
  { target := "-", kind := "continue", opts := [], guards := ["prev->IsNotNullChunk()", "prev->Is(CT_IGNORED)"] },
  { target := "-", kind := "continue", opts := [], guards := ["next->Is(CT_IGNORED)"] },
  { target := "pc", kind := "plus1", opts := [], guards := ["pc == Chunk::GetHead() || next->IsNullChunk()"] },
  { target := "pc", kind := "max", opts := ["nl_max"],
    guards := ["(options::nl_max() > 0) && (pc->GetNlCount() > options::nl_max())"] },
  { target := "pc", kind := "one", opts := [], guards := ["!can_increase_nl(pc)", "pc->GetNlCount() != 1"] },
  { target := "-", kind := "continue", opts := [], guards := ["!can_increase_nl(pc)"] } ]

def epilogueExpected : BW :=
  { target := "pc", kind := "minus1", opts := [], guards := ["line_added && pc->GetNlCount() > 1"] }

/-- the guarded writes between the `can_increase_nl` test and the final "−1" -/
def midOf (ws : List BW) : List BW := (ws.drop 7).dropLast

/-- a middle entry is a write of an option value to `pc` or to `tmp` (or a `continue` of an inner search loop) -/
def midEntryOk (w : BW) : Bool :=
  (w.kind = "continue-inner" && w.opts.isEmpty) ||
  ((w.kind = "set" || w.kind = "raw" || w.kind = "max") && (w.target = "pc" || w.target = "tmp") && !w.opts.isEmpty)

def shapeOk (ws : List BW) : Bool :=
  decide (ws.take 7 = prologueExpected) && decide (ws.getLast? = some epilogueExpected) && (midOf ws).all midEntryOk

/-- functions the loop may call: accessors, predicates, logging, the two helpers -/
def knownCallees : List String :=
  ["ElidedText", "GetHead", "GetLevel", "GetNext", "GetNlCount", "GetOrigCol", "GetOrigLine", "GetParentType", "GetPpStart",
   "GetPrev", "GetPrevNc", "GetPrevType", "GetType", "Is", "IsBraceClose", "IsComment", "IsNot", "IsNotNullChunk",
   "IsNullChunk", "LOG_FMT", "MARK_CHANGE", "SetNlCount", "TestFlags", "Text", "blank_line_max", "blank_line_set",
   "can_increase_nl", "get_token_name", "ifdef_over_whole_file", "is_func_proto_group", "log_rule_B", "opt",
   "GetNextNc", "GetNextNcNnl", "GetPrevNcNnl", "GetPrevNnl", "GetFlags", "IsBraceOpen", "IsNewline", "IsPreproc",
   "IsString", "IsSemicolon", "GetBraceLevel", "GetPpLevel", "language_is_set", "LOG_FUNC_ENTRY"]

/-! ## one visited newline chunk -/

/-- a fired middle write applied to the count of its target; `k` selects the option when the statement reads one of
    several through a reference (`nl_after_class` / `nl_after_struct`) -/
def midStep (σ : Sigma) (w : BW) (k : Nat) (n : Nat) : Nat :=
  match w.opts[k]? with
  | none => n
  | some o =>
    let v := σ o
    if w.kind = "set" then blankSet v n
    else if w.kind = "max" then blankMax v n
    else if w.kind = "raw" then v
    else n

/-- the writes to `pc` itself: `fires` says for every middle entry whether (and with which option) it fired -/
def midFold (σ : Sigma) : List BW → List (Option Nat) → Nat → Nat
  | w :: ws, f :: fs, n =>
    midFold σ ws fs (match f with
      | some k => if w.target = "pc" then midStep σ w k n else n
      | none => n)
  | _, _, n => n

def visitSelf (σ : Sigma) (mid : List BW) (edge canInc : Bool) (fires : List (Option Nat)) (n : Nat) : Nat :=
  let n1 := if edge then n + 1 else n
  let N := σ "nl_max"
  let n2 := if N > 0 ∧ n1 > N then blankMax N n1 else n1
  if !canInc then 1                                        -- `if (count != 1) SetNlCount(1); continue;`
  else
    let n3 := midFold σ mid fires n2
    if edge ∧ n3 > 1 then n3 - 1 else n3

/-! ## the whole pass over the newline chunks of the list -/

/-- a newline chunk: its count, and whether the loop skips it (its previous non-comment chunk or its next chunk is `CT_IGNORED`) -/
structure NlCell where
  n : Nat
  skip : Bool
deriving Repr

/-- what the unmodelled guards decided while `pc` was visited -/
structure VisitIn where
  edge : Bool
  canInc : Bool
  fires : List (Option Nat)
  /-- fired writes to an earlier chunk: (how many newline chunks back, option read) -/
  tmps : List (Nat × String)
deriving Repr

def modAt {α : Type} (f : α → α) : Nat → List α → List α
  | _, [] => []
  | 0, x :: xs => f x :: xs
  | k + 1, x :: xs => x :: modAt f k xs

/-- `done` = the newline chunks before `pc`, nearest first -/
def passStep (σ : Sigma) (mid : List BW) (done : List NlCell) (cv : NlCell × VisitIn) : List NlCell :=
  let c := cv.1
  let v := cv.2
  if c.skip then c :: done
  else
    let done' := v.tmps.foldl (fun d t => modAt (fun x => { x with n := blankSet (σ t.2) x.n }) t.1 d) done
    { c with n := visitSelf σ mid v.edge v.canInc v.fires c.n } :: done'

def blankPass (σ : Sigma) (mid : List BW) (cells : List (NlCell × VisitIn)) : List NlCell :=
  cells.foldl (passStep σ mid) []

/-! ## `can_increase_nl()` without the `nl_squeeze_ifdef` block -/

structure IncIn where
  prevIsBraceOpen : Bool
  prevIsBraceClose : Bool
  nextIsBraceClose : Bool
  prevParentNamespace : Bool
  nextParentNamespace : Bool
  prevParentFunc : Bool          -- CT_FUNC_DEF or CT_FUNC_CLASS_DEF
  nextParentFunc : Bool
  isHead : Bool                  -- no previous chunk at all
  isTail : Bool                  -- no next chunk
deriving Repr

structure IncOpts where
  nlInsideNamespace : Nat
  nlInsideEmptyFunc : Nat
  nlBeforeNamespace : Nat
  eatAfterOpen : Bool
  eatBeforeClose : Bool
  sof : IARF
  eof : IARF
deriving Repr

def canIncrease (o : IncOpts) (i : IncIn) : Bool :=
  if i.nextIsBraceClose ∧ o.nlInsideNamespace > 0 ∧ i.nextParentNamespace then true
  else if i.nextIsBraceClose ∧ o.nlInsideEmptyFunc > 0 ∧ i.prevIsBraceOpen ∧ i.nextParentFunc then true
  else if i.nextIsBraceClose ∧ o.eatBeforeClose then false
  else if i.prevIsBraceClose ∧ o.nlBeforeNamespace ≠ 0 ∧ i.prevParentNamespace then true
  else if i.prevIsBraceOpen ∧ o.nlInsideNamespace > 0 ∧ i.prevParentNamespace then true
  else if i.prevIsBraceOpen ∧ o.nlInsideEmptyFunc > 0 ∧ i.nextIsBraceClose ∧ i.prevParentFunc then true
  else if i.prevIsBraceOpen ∧ o.eatAfterOpen then false
  else if i.isHead ∧ o.sof ≠ .ignore then false
  else if i.isTail ∧ o.eof ≠ .ignore then false
  else true

/-- the order of the tests in `can_increase_nl()` that `canIncrease` transliterates (entries 3–12; the first two are the
    `nl_squeeze_ifdef` block, which the model leaves out) -/
def expectedCanIncReturns : List (String × List String) := [
  ("rv", ["options::nl_squeeze_ifdef()", "pp_start->IsNotNullChunk() && (pp_start->GetParentType() == CT_PP_IF || pp_start->GetParentType() == CT_PP_ELSE) && (pp_start->GetLevel() > 0 || options::nl_squeeze_ifdef_top_level())"]),
  ("rv", ["options::nl_squeeze_ifdef()", "next->Is(CT_PREPROC) && (next->GetParentType() == CT_PP_ELSE || next->GetParentType() == CT_PP_ENDIF) && (next->GetLevel() > 0 || options::nl_squeeze_ifdef_top_level())"]),
  ("true", ["next->Is(CT_BRACE_CLOSE)", "options::nl_inside_namespace() > 0 && next->GetParentType() == CT_NAMESPACE"]),
  ("true", ["next->Is(CT_BRACE_CLOSE)", "options::nl_inside_empty_func() > 0 && prev->Is(CT_BRACE_OPEN) && (next->GetParentType() == CT_FUNC_DEF || next->GetParentType() == CT_FUNC_CLASS_DEF)"]),
  ("false", ["next->Is(CT_BRACE_CLOSE)", "options::eat_blanks_before_close_brace()"]),
  ("true", ["prev->Is(CT_BRACE_CLOSE)", "options::nl_before_namespace() && prev->GetParentType() == CT_NAMESPACE"]),
  ("true", ["prev->Is(CT_BRACE_OPEN)", "options::nl_inside_namespace() > 0 && prev->GetParentType() == CT_NAMESPACE"]),
  ("true", ["prev->Is(CT_BRACE_OPEN)", "options::nl_inside_empty_func() > 0 && next->Is(CT_BRACE_CLOSE) && (prev->GetParentType() == CT_FUNC_DEF || prev->GetParentType() == CT_FUNC_CLASS_DEF)"]),
  ("false", ["prev->Is(CT_BRACE_OPEN)", "options::eat_blanks_after_open_brace()"]),
  ("false", ["pcmt->IsNullChunk() && (options::nl_start_of_file() != IARF_IGNORE)"]),
  ("false", ["next->IsNullChunk() && (options::nl_end_of_file() != IARF_IGNORE)"]),
  ("true", []) ]

/-! ## `newlines_cleanup_dup()`: two adjacent newline chunks are merged into one holding the larger count -/

def cleanupDup : List Nat → List Nat
  | a :: b :: rest => cleanupDup (max a b :: rest)
  | l => l
termination_by l => l.length

/-! ## replay of a run-time trace (hook H6) against the inventory -/

/-- can the inventory entry `w` explain a recorded write `old → new` of its target? returns the option index used -/
def explains (σ : Sigma) (w : BW) (old new : Nat) : Option Nat :=
  let try1 (k : Nat) : Bool := midStep σ w k old = new ∧ (w.kind = "raw" ∨ new ≠ old)
  if w.kind = "set" ∨ w.kind = "raw" ∨ w.kind = "max" then
    (List.range w.opts.length).find? try1
  else none

/-- greedy in-order matching of the recorded writes (`self?`, old, new) of one visit against the middle entries;
    returns the `fires` list (aligned with `mid`) or none if some write has no explanation -/
def matchWrites (σ : Sigma) : List BW → List (Bool × Nat × Nat) → Option (List (Option Nat))
  | _, [] => some []
  | [], _ :: _ => none
  | w :: ws, (self, old, new) :: rest =>
    let tgtOk := (self ∧ w.target = "pc") ∨ (!self ∧ w.target = "tmp")
    match (if tgtOk then explains σ w old new else none) with
    | some k => (matchWrites σ ws rest).map (fun fs => some k :: fs)
    | none => (matchWrites σ ws ((self, old, new) :: rest)).map (fun fs => none :: fs)

end Unc
