import UncModel.Unicode
/-!
# L6a: `newlines_eat_start_end()` (`src/newlines/eat_start_end.cpp`)

The function looks only at the first chunk (start of file) and the last chunk (end of file):
is it a `CT_NEWLINE`, and with what `nl_count`.  `edge = some n` means "the edge chunk is a
newline chunk with count n", `none` means "the edge chunk is something else".
The result is the newline chunk at that edge after the call (`none` = there is none).
The whole block is skipped in fragment mode (`cpd.frag_cols ≠ 0`) and for an empty chunk list.
-/
namespace Unc

def IARF.hasRemove : IARF → Bool | .remove => true | .force => true | _ => false   -- (v & IARF_REMOVE)
def IARF.hasAdd : IARF → Bool | .add => true | .force => true | _ => false         -- (v & IARF_ADD)

/-- one edge (start or end) of `newlines_eat_start_end`; the two blocks of the C++ are the same
    except that at the end of file `SetNlCount` is skipped when the count already equals `min`
    (no observable difference). -/
def eatEdge (frag : Bool) (opt : IARF) (min : Nat) (edge : Option Nat) : Option Nat :=
  if !frag ∧ (opt.hasRemove ∨ (opt.hasAdd ∧ min > 0)) then
    match edge with
    | some n =>
      if opt = .remove then none                          -- Chunk::Delete
      else if opt = .force ∨ n < min then some min        -- SetNlCount(min)
      else some n
    | none =>
      if opt.hasAdd ∧ min > 0 then some min               -- a new newline chunk is inserted
      else none
  else edge

/-- `do_blank_lines()` runs just before `newlines_eat_start_end()` in the same loop: for the newline chunk at a file
    edge `can_increase_nl()` is false whenever the edge option is not `ignore`, and the count is then forced to 1
    (`src/newlines/blank_line.cpp` "force to 1", `src/newlines/can_increase_nl.cpp` SOF/EOF tests). -/
def blankEdge (opt : IARF) (edge : Option Nat) : Option Nat :=
  if opt ≠ .ignore then edge.map (fun _ => 1) else edge

/-- both passes, as the newline loop of `uncrustify_file()` runs them -/
def fileEdge (frag : Bool) (opt : IARF) (min : Nat) (edge : Option Nat) : Option Nat :=
  eatEdge frag opt min (blankEdge opt edge)

/-- number of line breaks the edge chunk contributes to the output (`output_text` writes `nl_count` terminators) -/
def edgeBreaks : Option Nat → Nat
  | some n => n
  | none => 0

end Unc
