/-
The second do/while of `uncrustify_file()` ("align everything else, reindent and break at code_width"):

    do { align_all(); indent_text(); old_changes = cpd.changes;
         if (code_width > 0) { do_code_width(); ... }
    } while (old_changes != cpd.changes);

Abstract state: a list of *slots*, one per thing `do_code_width()` can use up: for every gap between two chunks whether a line break
stands there, and for every chunk whether its PCF_ONE_LINER flag has been cleared (`true` = used up).  A pass issues requests
(whatever `split_line()` decides: the requests are arbitrary here); a request names the slots it uses up (one gap for
`split_before_chunk()`, the flags of a whole one-liner for `undo_one_liner()`, possibly gaps as well for the
`newlines_cleanup_braces()` that follows it) and is counted as one change.
Since fix b70bece a request is counted only when it really uses something up (`newline_add_before()` and `split_before_chunk()` now
agree on `GetPrevNvb()`); before, a request for a gap that already had its break in front of a virtual brace was counted although
nothing was added.
-/
namespace Unc.Width

/-- use up slot `i` (out of range: nothing) -/
def setSlot : List Bool → Nat → List Bool
  | [], _ => []
  | _ :: bs, 0 => true :: bs
  | b :: bs, i + 1 => b :: setSlot bs i

/-- slot `i` is used up (out of range: nothing can be used there) -/
def used : List Bool → Nat → Bool
  | [], _ => true
  | b :: _, 0 => b
  | _ :: bs, i + 1 => used bs i

/-- number of slots not used up -/
def free : List Bool → Nat
  | [] => 0
  | b :: bs => (if b then 0 else 1) + free bs

def setSlots (g : List Bool) (r : List Nat) : List Bool := r.foldl setSlot g

/-- does the request find something to use up -/
def effective (g : List Bool) (r : List Nat) : Bool := r.any fun i => !used g i

/-- one `do_code_width()` pass as fixed: (state after, number of counted changes) -/
def passFixed : List Bool → List (List Nat) → List Bool × Nat
  | g, [] => (g, 0)
  | g, r :: rs =>
    if effective g r then ((passFixed (setSlots g r) rs).1, (passFixed (setSlots g r) rs).2 + 1)
    else passFixed g rs

/-- the pass before the fix: a request that finds nothing to use up is counted all the same when it concerns a token behind a
    virtual brace (`vb r`) -/
def passOld (vb : List Nat → Bool) : List Bool → List (List Nat) → List Bool × Nat
  | g, [] => (g, 0)
  | g, r :: rs =>
    if effective g r then ((passOld vb (setSlots g r) rs).1, (passOld vb (setSlots g r) rs).2 + 1)
    else ((passOld vb g rs).1, (passOld vb g rs).2 + (if vb r then 1 else 0))

/-- the loop: `req k g` = the requests of iteration `k` in state `g`; result = (number of iterations run, final state) -/
def loop (pass : List Bool → List (List Nat) → List Bool × Nat) (req : Nat → List Bool → List (List Nat)) :
    Nat → Nat → List Bool → Option (Nat × List Bool)
  | 0, _, _ => none
  | f + 1, k, g =>
    if (pass g (req k g)).2 = 0 then some (k + 1, (pass g (req k g)).1)
    else loop pass req f (k + 1) (pass g (req k g)).1

end Unc.Width
