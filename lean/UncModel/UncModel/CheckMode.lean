import UncModel.Cli
/-!
# L10 `CheckMode` — what one run does with the formatter's result

* `writeByte`               src/unicode.cpp `write_byte()`: `cpd.fout` and `cpd.bout` receive the same byte
* `boutCompare/boutMatches` src/uncrustify.cpp `bout_content_matches()`: sizes first, then bytes
* `execJob`                 the tail of `uncrustify_file()` (`do_check` → `check_fail_cnt++`), the
                            `if_changed` / `do_check` guards of `do_source_file()`, and the stdin branch of `main()`
* `runJobs`, `finalStatus`  the file loop and the last lines of `main()`

The formatter is the abstract parameter `F : Bytes → Lang → Name → Bytes` (configuration fixed):
`F raw lang name` is the byte sequence `output_text` hands to `write_byte`, one byte at a time.
-/
namespace Unc.Cli

abbrev Bytes := List Byte

/-- the formatter: raw input bytes, `cpd.lang_flags`, `cpd.filename` ↦ bytes handed to `write_byte` -/
abbrev Formatter := Bytes → Nat → Str → Bytes

/-! ## `write_byte` -/

/-- `cpd.fout` (a FILE, `none` = nullptr) and `cpd.bout` (`none` = not allocated) as the byte
    sequences they have received -/
structure Outs where
  fout : Option Bytes
  bout : Option Bytes
deriving Repr, DecidableEq

/-- `write_byte(ch)`: `if (cpd.fout) fputc(ch, cpd.fout); if (cpd.bout) cpd.bout->push_back(ch);` -/
def writeByte (o : Outs) (b : Byte) : Outs :=
  { fout := o.fout.map (· ++ [b]), bout := o.bout.map (· ++ [b]) }

def writeAll (o : Outs) (bs : Bytes) : Outs := bs.foldl writeByte o

/-! ## `bout_content_matches` -/

inductive Cmp where
  | same
  /-- `cpd.bout->size() != fm.raw.size()`: (raw size, bout size) -/
  | sizeChanged (rawSize boutSize : Nat)
  /-- first index with `fm.raw[idx] != (*cpd.bout)[idx]` -/
  | diffAt (idx : Nat)
deriving Repr, DecidableEq

/-- the `for (idx = 0; idx < raw.size(); idx++) if (raw[idx] != bout[idx]) … break;` loop -/
def firstDiff : Bytes → Bytes → Nat → Option Nat
  | a :: as, b :: bs, i => if a ≠ b then some i else firstDiff as bs (i + 1)
  | _, _, _ => none

def boutCompare (raw bout : Bytes) : Cmp :=
  if bout.length ≠ raw.length then .sizeChanged raw.length bout.length
  else match firstDiff raw bout 0 with
    | some i => .diffAt i
    | none => .same

/-- return value of `bout_content_matches` -/
def boutMatches (raw bout : Bytes) : Bool := boutCompare raw bout == .same

/-- the lines `bout_content_matches(fm, report_status = true, is_quiet)` prints -/
inductive Line where
  /-- `PASS: name (n bytes)` on stdout -/
  | pass (name : Str) (size : Nat)
  /-- `FAIL: name (File size changed from a to b)` on stderr -/
  | failSize (name : Str) (rawSize boutSize : Nat)
  /-- `FAIL: name (Difference at byte i)` on stderr -/
  | failByte (name : Str) (idx : Nat)
deriving Repr, DecidableEq

def Line.isFail : Line → Bool
  | .pass .. => false
  | _ => true

def Line.name : Line → Str
  | .pass n _ => n
  | .failSize n _ _ => n
  | .failByte n _ => n

def reportLines (name : Str) (quiet : Bool) (raw : Bytes) : Cmp → List Line
  | .same => if quiet then [] else [.pass name raw.length]
  | .sizeChanged a b => [.failSize name a b]
  | .diffAt i => [.failByte name i]

/-! ## effects of one job -/

inductive Eff where
  /-- bytes written to the process's stdout by `write_byte` -/
  | stdout (bs : Bytes)
  /-- `fopen(path, "wb")` (or `freopen` of stdout), these bytes, `fclose` -/
  | write (path : Str) (bs : Bytes)
  /-- in-place protocol on `path`: [backup,] write `path.uncrustify`, compare, rename or unlink;
      `path` ends up holding `bs` (details: C13/C14 `FsProto`) -/
  | replace (path : Str) (bs : Bytes) (backup : Bool)
  /-- `backup_copy_file(path)` alone (tracking exit before the rename) -/
  | backup (path : Str)
  /-- a debug side file is written: the `-p` file, `PREFIX_nnn.log` dump files, the tracking file -/
  | side (kind : Str) (path : Str)
  /-- `utime(path)` (`--mtime`) -/
  | utime (path : Str)
  /-- a PASS / FAIL line -/
  | line (l : Line)
deriving Repr, DecidableEq

/-- an effect that creates, modifies or touches a file system object -/
def Eff.touchesFs : Eff → Bool
  | .stdout _ => false
  | .line _ => false
  | .side _ p => p != ['-']
  | _ => true

/-- an effect on the job's *output target* (not a debug side file) -/
def Eff.isOutput : Eff → Bool
  | .stdout _ => true
  | .write .. => true
  | .replace .. => true
  | .backup _ => true
  | .utime _ => true
  | _ => false

/-- the sink receives these bytes -/
def sinkEffs (s : Sink) (bs : Bytes) : List Eff :=
  match s with
  | .none => []
  | .stdout => [.stdout bs]
  | .path p => [.write p bs]
  | .inplace p b => [.replace p bs b]

/-- the sink is opened but the process exits before anything is written to it (tracking) -/
def sinkOpenOnly (s : Sink) : List Eff :=
  match s with
  | .none => []
  | .stdout => []
  | .path p => [.write p []]
  | .inplace p b => (if b then [.backup p] else []) ++ [.write (p ++ c!".uncrustify") []]

def sideEffs (j : Job) : List Eff :=
  (match j.dump with | some d => [Eff.side c!"dump" d] | none => []) ++
  (match j.parsed with | some p => [Eff.side c!"parsed" p] | none => [])

structure JobResult where
  effs : List Eff
  /-- increment of `cpd.check_fail_cnt` -/
  failInc : Nat
  /-- `exit(EX_OK)` was called inside `uncrustify_file` (tracking) -/
  exited : Bool
deriving Repr, DecidableEq

/-- one call of `do_source_file` / the stdin branch, given the raw bytes that were loaded -/
def execJob (F : Formatter) (g : Globals) (raw : Bytes) (j : Job) : JobResult :=
  let out := F raw j.lang j.name
  match j.track with
  | some t =>
    -- `cpd.html_file != nullptr`: output_text(t_file); exit(EX_OK) — before `-p`, before the comparison
    let dumps := match j.dump with | some d => [Eff.side c!"dump" d] | none => []
    { effs := (if g.ifChanged then [] else sinkOpenOnly j.sink) ++ dumps ++ [.side c!"tracking" t]
      failInc := 0, exited := true }
  | none =>
  if g.doCheck then
    -- fout = nullptr (files) or stdout (stdin); bout = out; bout_content_matches(fm, true, is_quiet)
    let c := boutCompare raw ((writeAll ⟨none, some []⟩ out).bout.getD [])
    { effs := sinkEffs j.sink out ++ sideEffs j ++ (reportLines j.name g.quiet raw c).map Eff.line
      failInc := if c == .same then 0 else 1, exited := false }
  else if g.ifChanged then
    -- first pass with pfout = nullptr fills bout; the sink is opened only if bout differs
    let bout := (writeAll ⟨none, some []⟩ out).bout.getD []
    if boutMatches raw bout then { effs := sideEffs j, failInc := 0, exited := false }
    else { effs := sideEffs j ++ sinkEffs j.sink bout ++ (if j.keepMtime then [.utime j.name] else [])
           failInc := 0, exited := false }
  else
    { effs := sinkEffs j.sink ((writeAll ⟨some [], none⟩ out).fout.getD []) ++ sideEffs j
              ++ (if j.keepMtime then [.utime j.name] else [])
      failInc := 0, exited := false }

/-- what the jobs read -/
structure World where
  file : Str → Bytes
  stdin : Bytes

def World.raw (w : World) : Source → Bytes
  | .stdin => w.stdin
  | .file n => w.file n

structure RunResult where
  effs : List Eff
  failCnt : Nat
  exited : Bool
deriving Repr, DecidableEq

/-- the jobs in order; `cpd.check_fail_cnt` accumulates; an `exit` inside a job ends the run -/
def runJobs (F : Formatter) (g : Globals) (w : World) : List Job → Nat → RunResult
  | [], cnt => ⟨[], cnt, false⟩
  | j :: js, cnt =>
    let r := execJob F g (w.raw j.src) j
    if r.exited then ⟨r.effs, cnt + r.failInc, true⟩ else
    let rest := runJobs F g w js (cnt + r.failInc)
    ⟨r.effs ++ rest.effs, rest.failCnt, rest.exited⟩

/-- status of the process: an `exit(n)` named by the plan, the tracking `exit(EX_OK)`, or the last
    lines of `main()`: `if (cpd.do_check && cpd.check_fail_cnt != 0) return EXIT_FAILURE; return EXIT_SUCCESS;` -/
def finalStatus (g : Globals) (stop : Option Nat) (r : RunResult) : Nat :=
  if r.exited then 0 else
  match stop with
  | some n => n
  | none => if g.doCheck && r.failCnt != 0 then 1 else 0

/-- the whole process: status and effects -/
def runOutcome (F : Formatter) (w : World) : Outcome → Nat × List Eff
  | .exit n => (n, [])
  | .exitWriting p => (0, [.side c!"config" p])
  | .run g jobs stop =>
    let r := runJobs F g w jobs 0
    (finalStatus g stop r, r.effs)

def runCli (F : Formatter) (w : World) (argv : List Str) (env : Env) : Nat × List Eff :=
  runOutcome F w (plan argv env)

end Unc.Cli
