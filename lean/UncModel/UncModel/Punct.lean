import UncModel.Basic
import UncModel.Gen.Punct
import UncModel.Gen.CharTable
/-!
# Punctuator lookup and character classes (layer L4, part 1)

`findPunct` models `find_punctuator()` (src/punctuators.cpp): a walk over the trie
`punc_table` that scripts/make_punctuator_table.py builds from src/symbols_table.h.
The trie is not materialised here.  A trie node exists for a string `p` exactly when `p` is a
prefix of some table tag (`punctIsNode`), and the node carries a tag exactly when `p` *is* a
table tag (`punctHasTag`; the table `Gen.punctTable` already has one entry per distinct tag,
see translators/t_punct.py for the overwrite rule).  The loop below is the C++ loop:

    while (ch_idx < 6 && str[ch_idx] != '\0') {
       parent = binary_find(children, str[ch_idx]);   if (parent == nullptr) break;
       if (parent->tag != nullptr && (tag->lang_flags & lang_flags) != 0
           && ((tag->lang_flags & e_FLAG_DIG) == 0 || options::enable_digraphs()))  match = parent->tag;
       if (parent->next_idx == 0) break;      // no children: the next binary_find would fail anyway
       ch_idx++;
    }

Code points: the C++ works on the bytes of a C string.  No tag contains NUL or a byte >= 128, so a
NUL/non-ASCII code point stops the walk in the model (no node) exactly where the C string ends
or the byte fails to match.
-/
namespace Unc

/-- (tag, lang_flags incl. FLAG_DIG, is di/trigraph) -/
abbrev PEnt := List Nat × Nat × Bool

/-- the test on `parent->tag->lang_flags` in `find_punctuator` -/
def punctEnabled (lang : Nat) (dig : Bool) (e : PEnt) : Bool :=
  (e.2.1 &&& lang != 0) && (e.2.1 &&& Gen.flagDig == 0 || dig)

/-- a trie node exists for `p` -/
def punctIsNode (T : List PEnt) (p : List CP) : Bool := T.any (fun e => p.isPrefixOf e.1)

/-- the node for `p` carries a tag that passes the language test -/
def punctHasTag (T : List PEnt) (lang : Nat) (dig : Bool) (p : List CP) : Bool :=
  T.any (fun e => e.1 == p && punctEnabled lang dig e)

/-- the `while` loop of `find_punctuator`; `k` = `ch_idx`, `best` = length of `match->tag` -/
def findPunctGo (T : List PEnt) (lang : Nat) (dig : Bool) (s : List CP) : Nat → Nat → Option Nat → Option Nat
  | 0, _, best => best
  | f+1, k, best =>
    -- `str[ch_idx] != '\0'`  (written with `drop` so that the cost does not depend on the length of `s`)
    if !(s.drop k).isEmpty && punctIsNode T (s.take (k+1)) then
      findPunctGo T lang dig s f (k+1) (if punctHasTag T lang dig (s.take (k+1)) then some (k+1) else best)
    else best

def findPunctT (T : List PEnt) (lang : Nat) (dig : Bool) (s : List CP) : Option Nat :=
  findPunctGo T lang dig s 6 0 none

/-- model of `find_punctuator(str, lang_flags)` with `enable_digraphs = dig`:
    `strlen(result->tag)`, or `none` for `nullptr` -/
def findPunct (lang : Nat) (dig : Bool) (s : List CP) : Option Nat :=
  findPunctT Gen.punctTable lang dig s

/-- `CharTable::IsKw1` -/
def isKw1 (c : CP) : Bool := (Gen.charBits.getD c Gen.charBitsHigh).1
/-- `CharTable::IsKw2` -/
def isKw2 (c : CP) : Bool := (Gen.charBits.getD c Gen.charBitsHigh).2

end Unc
