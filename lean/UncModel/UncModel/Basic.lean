/-!
# Basic definitions shared by all model files

Code points and bytes are natural numbers.  The C++ uses `int` for code
points (so values are `< 2^31`) and `UINT8` for bytes; where a bound matters
it is an explicit hypothesis of the theorem that needs it.
-/

namespace Unc

/-- a Unicode code point (C++ `int`, never negative once decoded) -/
abbrev CP := Nat

/-- a byte (C++ `UINT8`) -/
abbrev Byte := Nat

def LF : CP := 10
def CR : CP := 13
def SP : CP := 32
def TAB : CP := 9
def BSL : CP := 92

/-- lower-case hex rendering used by the line protocol -/
def hexDigit (n : Nat) : Char :=
  if n < 10 then Char.ofNat (48 + n) else Char.ofNat (87 + n)

partial def toHexAux (n : Nat) (acc : List Char) : List Char :=
  if n < 16 then hexDigit n :: acc else toHexAux (n / 16) (hexDigit (n % 16) :: acc)

def toHex (n : Nat) : String := String.ofList (toHexAux n [])

def hexVal (c : Char) : Option Nat :=
  if '0' ≤ c ∧ c ≤ '9' then some (c.toNat - 48)
  else if 'a' ≤ c ∧ c ≤ 'f' then some (c.toNat - 87)
  else if 'A' ≤ c ∧ c ≤ 'F' then some (c.toNat - 55)
  else none

def parseHex (s : String) : Option Nat :=
  if s.isEmpty then none else
  s.toList.foldl (fun acc c => match acc, hexVal c with
    | some a, some v => some (a * 16 + v)
    | _, _ => none) (some 0)

/-- `a.b.c` (hex, dot separated; `-` is the empty list) -/
def parseHexList (s : String) : Option (List Nat) :=
  if s = "-" ∨ s = "" then some [] else
  (s.splitOn ".").foldr (fun w acc => match parseHex w, acc with
    | some v, some l => some (v :: l)
    | _, _ => none) (some [])

def hexList (l : List Nat) : String :=
  if l.isEmpty then "-" else ".".intercalate (l.map toHex)

end Unc
