/-
Newline removal and disabled regions (C07).

Between the tokenizer and `output_text()` the newline passes may delete newline chunks.  Every such deletion in src/newlines/ goes
through `Chunk::SafeToDeleteNl()` (table Gen/NlDel.lean, regenerated on every run), which since fix 9ccb421 refuses a newline chunk
whose previous or next chunk is CT_IGNORED.  This file models the walk of `newline_del_between()` over a stretch of the chunk list
with that guard and arbitrary other conditions, and states what it preserves.
-/
namespace Unc.RegionNl

/-- the chunk kinds the guard distinguishes; a newline chunk carries its line-break count -/
inductive K
  | nl (count : Nat)
  | ign              -- CT_IGNORED: one line of a disabled region
  | cmtCpp           -- CT_COMMENT_CPP
  | cmt              -- any other comment
  | tok              -- anything else
deriving DecidableEq, Repr

def K.isNl : K → Bool
  | .nl _ => true
  | _ => false

def K.isCmt : K → Bool
  | .cmtCpp => true
  | .cmt => true
  | _ => false

/-- `Chunk::SafeToDeleteNl()`: `samePP` stands for `tmp->IsSamePreproc(GetNext())` -/
def safeToDelete (prev next : Option K) (samePP : Bool) : Bool :=
  if prev = some .cmtCpp then false
  else if prev = some .ign ∨ next = some .ign then false
  else samePP

def isNlOpt : Option K → Bool
  | some k => k.isNl
  | none => false

def isCmtOpt : Option K → Bool
  | some k => k.isCmt
  | none => false

/-- is the chunk a line of a region, or a newline chunk that touches one (in the list as it stood before the pass) -/
def protectedAt (prev : Option K) (c : K) (next : Option K) : Bool :=
  c = .ign || (c.isNl && (prev = some .ign || next = some .ign))

/-- mark every chunk of the list with `protectedAt` (w.r.t. the ORIGINAL neighbours) -/
def markFrom : Option K → List K → List (K × Bool)
  | _, [] => []
  | prev, c :: rest => (c, protectedAt prev c rest.head?) :: markFrom (some c) rest

/-- the loop of `newline_del_between()` from `start` to `end`: `samePP i` is the answer of IsSamePreproc for the i-th visited
    chunk (arbitrary); `prev` is the previous chunk STILL in the list -/
def delWalk (samePP : Nat → Bool) : Nat → Option K → List (K × Bool) → List (K × Bool)
  | _, _, [] => []
  | i, prev, (c, p) :: rest =>
    let next := (rest.head?).map Prod.fst
    match c with
    | .nl n =>
      if (!isCmtOpt prev && !isCmtOpt next) || isNlOpt prev || isNlOpt next then
        if safeToDelete prev next (samePP i) then delWalk samePP (i + 1) prev rest          -- Chunk::Delete(pc)
        else (c, p) :: delWalk samePP (i + 1) (some c) rest
      else
        -- next to a comment: only the count is reduced to 1 -- unless the newline chunk touches a line of a region
        let c' := if n > 1 ∧ prev ≠ some K.ign ∧ next ≠ some K.ign then K.nl 1 else c
        (c', p) :: delWalk samePP (i + 1) (some c') rest
    | _ => (c, p) :: delWalk samePP (i + 1) (some c) rest

/-- the loop before the repair of the comment branch (the count was reduced whatever the neighbours were) -/
def delWalkOld (samePP : Nat → Bool) : Nat → Option K → List (K × Bool) → List (K × Bool)
  | _, _, [] => []
  | i, prev, (c, p) :: rest =>
    let next := (rest.head?).map Prod.fst
    match c with
    | .nl n =>
      if (!isCmtOpt prev && !isCmtOpt next) || isNlOpt prev || isNlOpt next then
        if safeToDelete prev next (samePP i) then delWalkOld samePP (i + 1) prev rest
        else (c, p) :: delWalkOld samePP (i + 1) (some c) rest
      else
        ((if n > 1 then K.nl 1 else c), p) :: delWalkOld samePP (i + 1) (some (if n > 1 then K.nl 1 else c)) rest
    | _ => (c, p) :: delWalkOld samePP (i + 1) (some c) rest

def keepProtected (l : List (K × Bool)) : List K := (l.filter (·.2)).map (·.1)


/-- forget the line-break count -/
def shape : K → K
  | .nl _ => .nl 0
  | k => k

theorem head_markFrom (p : Option K) (l : List K) : ((markFrom p l).head?).map Prod.fst = l.head? := by
  cases l <;> simp [markFrom]


end Unc.RegionNl
