import UncModel.AddChar
import UncModel.Punct
/-!
# L3b: `output_text()` of `src/output.cpp` — the main loop over the chunk list

The comment writers (`output_comment_c/cpp/multi/multi_simple`, ≈2000 lines) are an
oracle: for a comment chunk the model is given the op sequence recorded by hook H3,
the number of chunks the writer consumed (it may combine following comments) and the
value of `cpd.did_newline` it left behind.  `reindent_line()` (which calls `do_space`)
is an oracle too: the model is given, for every chunk, the column it had when
`output_text()` reached it (hook H3 `pcol`), and models only the effect on the chunk
itself (`column := cpd.column`).

Not modelled: `--tracking` HTML output, `debug_print_version`, `cpd.frag_cols` shifting
(the recorded columns are the shifted ones).
-/

namespace Unc

structure Chunk where
  ty : String := ""
  pty : String := ""
  txt : List CP := []
  origLine : Nat := 0
  origCol : Nat := 0
  origColEnd : Nat := 0
  prevSp : Nat := 0
  col : Nat := 0
  colIndent : Nat := 0
  nl : Nat := 0
  nlCol : Nat := 0
  level : Nat := 0
  braceLevel : Nat := 0
  ppLevel : Nat := 0
  flags : Nat := 0
  afterTab : Bool := false
deriving Repr, Inhabited

def Chunk.len (c : Chunk) : Nat := c.txt.length
def Chunk.testBit (c : Chunk) (b : Nat) : Bool := (c.flags / 2 ^ b) % 2 = 1
def Chunk.isPP (c : Chunk) : Bool := c.testBit 0          -- PCF_IN_PREPROC
def Chunk.wasAligned (c : Chunk) : Bool := c.testBit 22   -- PCF_WAS_ALIGNED
def Chunk.isNewline (c : Chunk) : Bool := c.ty = "NEWLINE" ∨ c.ty = "NL_CONT"
def Chunk.isCommentTy (c : Chunk) : Bool :=
  c.ty = "COMMENT" ∨ c.ty = "COMMENT_MULTI" ∨ c.ty = "COMMENT_CPP" ∨ c.ty = "COMMENT_ENDIF" ∨ c.ty = "COMMENT_CPP_ENDIF"

structure RenderOpts where
  alignWithTabs : Bool := false
  alignKeepTabs : Bool := false
  spBeforeNlCont : IARF := .add
  forceTabAfterDefine : Bool := false
  cmtTabToSpaces : Bool := false
deriving Repr

/-- what hook H3 recorded for one comment chunk -/
structure CmtInfo where
  ops : List Op
  consumed : Nat      -- chunks consumed by the writer, ≥ 1
  dnAfter : Bool      -- cpd.did_newline when the writer returned
deriving Repr

/-- render state: the machine plus the op log (newest first) kept for the correspondence check -/
structure RSt where
  o : OutSt := {}
  log : List Op := []
deriving Repr

def rAdd (c : OutCfg) (s : RSt) (ch : CP) (lit : Bool) : RSt :=
  { o := addChar c s.o ch lit, log := .add ch lit :: s.log }

def rText (c : OutCfg) (s : RSt) (txt : List CP) (lit : Bool) : RSt :=
  txt.foldl (fun s ch => rAdd c s ch lit) s

def rRaw (s : RSt) (txt : List CP) : RSt :=
  txt.foldl (fun s ch => { o := { s.o with rout := ch :: s.o.rout }, log := .raw ch :: s.log }) s

def rTabsTo (c : OutCfg) (target : Nat) : Nat → RSt → RSt
  | 0, s => s
  | f+1, s => if nextTab c.tab s.o.col ≤ target then rTabsTo c target f (rAdd c s 9 false) else s

def rSpacesTo (c : OutCfg) (target : Nat) : Nat → RSt → RSt
  | 0, s => s
  | f+1, s => if s.o.col < target then rSpacesTo c target f (rAdd c s 32 false) else s

/-- `output_to_column` on the logged state -/
def rToCol (c : OutCfg) (s : RSt) (column : Nat) (allowTabs : Bool) : RSt :=
  let s := { s with o := { s.o with didNl := false } }
  let s := if allowTabs then rTabsTo c column (column + 1) s else s
  rSpacesTo c column (column + 1) s

def ppIwtEff (c : OutCfg) : Int := if c.ppIwt = -1 then (c.iwt : Int) else c.ppIwt

/-- the `CT_NEWLINE` branch -/
def renderNewline (c : OutCfg) (s : RSt) (pc : Chunk) : RSt :=
  let body (s : RSt) (cnt : Nat) : RSt :=
    let s := if cnt > 0 ∧ pc.nlCol > 1 then
        rToCol c s pc.nlCol (if pc.isPP then ppIwtEff c ≥ 1 else c.iwt ≥ 1)
      else s
    rAdd c s 10 false
  let s := (List.range pc.nl).foldl body s
  { s with o := { s.o with didNl := true, col := 1 } }

/-- walk back over chunks with `orig_col == 0 && nl_count == 0` (inserted, non-newline chunks) -/
def nlContPrev (cs : Array Chunk) : Nat → Nat → Option Chunk
  | 0, _ => none
  | _, 0 => none
  | f+1, i+1 =>
    match cs[i]? with
    | none => none
    | some p => if p.origCol = 0 ∧ p.nl = 0 then nlContPrev cs f i else some p

/-- the `CT_NL_CONT` branch; returns the state and the column given to the chunk.
    The `FATAL: negative value` exit concerns `int` wrap-around and is unreachable over `Nat`. -/
def renderNlCont (c : OutCfg) (o : RenderOpts) (cs : Array Chunk) (i : Nat) (s : RSt) (pc : Chunk) : RSt :=
  let s :=
    if !pc.wasAligned then
      let column :=
        if o.spBeforeNlCont = .remove ∨ o.spBeforeNlCont = .force then
          s.o.col + (if o.spBeforeNlCont = .force then 1 else 0)
        else
          match (if i = 0 then none else cs[i-1]?) with
          | none => pc.col
          | some prev =>
            if prev.ty = "PP_IGNORE" then pc.origCol
            else match nlContPrev cs (i + 1) i with
              | none => pc.col
              | some p =>
                if p.nl = 0 then
                  let col0 := s.o.col + pc.prevSp
                  if o.spBeforeNlCont ≠ .ignore ∧ col0 < s.o.col + 1 then s.o.col + 1 else col0
                else pc.col
      rToCol c s column false
    else
      rToCol c s pc.col (if pc.isPP then ppIwtEff c = 2 else c.iwt = 2)
  let s := rAdd c s 92 false
  let s := rAdd c s 10 false
  { s with o := { s.o with didNl := true, col := 1 } }

/-- the column of a chunk that is not the first on its line: `reindent_line(pc, cpd.column)` when it would overlap what was written, and
    (since fix "two words are never written back to back") one column further when the last character written and the first
    character of the chunk are both word characters -/
def sameLineCol (s : OutSt) (pc : Chunk) : Nat :=
  let col := if pc.col < s.col then s.col else pc.col
  if col = s.col ∧ pc.txt.length > 0 ∧ s.last > 0 ∧ isKw2 s.last = true ∧ isKw1 (pc.txt.head?.getD 0) = true then s.col + 1 else col

/-- the general branch (visible non-comment chunk); `prevCol`/`prevLen` = column and length of the
    previous chunk in the list as emitted -/
def renderText (c : OutCfg) (o : RenderOpts) (s : RSt) (pc : Chunk) (prevCol prevLen : Nat) : RSt × Nat :=
  let s := { s with o := { s.o with trail := pc.ty = "STRING_MULTI" } }
  if s.o.didNl then
    let s :=
      if (pc.isPP ∧ ppIwtEff c = 1) ∨ (!pc.isPP ∧ c.iwt = 1) then
        let lvlcol :=
          if pc.ty = "BRACE_CLOSE" ∨ pc.ty = "CASE_COLON" ∨ pc.isPP then pc.col
          else if pc.colIndent > pc.col then pc.col else pc.colIndent
        if lvlcol > 1 then rToCol c s lvlcol true else s
      else s
    let allowTabs := (pc.isPP ∧ ppIwtEff c = 2) ∨ (!pc.isPP ∧ c.iwt = 2)
    let s := rToCol c s pc.col allowTabs
    let s := rText c s pc.txt (pc.ty = "STRING" ∨ pc.ty = "STRING_MULTI")
    let s := if pc.ty = "PP_DEFINE" ∧ o.forceTabAfterDefine then rAdd c s 9 false else s
    ({ s with o := { s.o with didNl := pc.isNewline, trail := false } }, pc.col)
  else
    -- reindent_line(pc, cpd.column): the chunk itself is moved to cpd.column (+1 between two words)
    let col := sameLineCol s.o pc
    let allowTabs := (o.alignWithTabs ∧ pc.wasAligned ∧ prevCol + prevLen + 1 ≠ col)
                     ∨ (o.alignKeepTabs ∧ pc.afterTab)
    let s := rToCol c s col allowTabs
    let s := rText c s pc.txt (pc.ty = "STRING" ∨ pc.ty = "STRING_MULTI")
    let s := if pc.ty = "PP_DEFINE" ∧ o.forceTabAfterDefine then rAdd c s 9 false else s
    ({ s with o := { s.o with didNl := pc.isNewline, trail := false } }, col)

def rExecOps (c : OutCfg) (s : RSt) (ops : List Op) : RSt :=
  { o := execOps c s.o ops, log := ops.reverse ++ s.log }

/-- the loop of `output_text()`; `cmt i` is the recorded behaviour of the comment writer at chunk `i`.
    `prev` carries (column, length) of the previous list element as emitted. -/
def renderLoop (c : OutCfg) (o : RenderOpts) (cs : Array Chunk) (cmt : Nat → Option CmtInfo) :
    Nat → Nat → (Nat × Nat) → RSt → RSt
  | 0, _, _, s => s
  | f+1, i, prev, s =>
    match cs[i]? with
    | none => s
    | some pc =>
      let s := { s with o := { s.o with tabSp := false } }
      if pc.ty = "NEWLINE" then
        renderLoop c o cs cmt f (i+1) (pc.col, pc.len) (renderNewline c s pc)
      else if pc.ty = "NL_CONT" then
        renderLoop c o cs cmt f (i+1) (pc.col, pc.len) (renderNlCont c o cs i s pc)
      else if pc.isCommentTy then
        match cmt i with
        | none => s       -- no record: the trace is incomplete; the checker reports it
        | some ci =>
          let s := { s with o := { s.o with tabSp := o.cmtTabToSpaces } }
          let cpp := pc.ty = "COMMENT_CPP" ∨ pc.ty = "COMMENT_CPP_ENDIF"
          let saved := s.o.trail
          let s := if cpp then { s with o := { s.o with trail := true } } else s
          let s := rExecOps c s ci.ops
          let s := { s with o := { s.o with didNl := ci.dnAfter } }
          let s := if cpp then { s with o := { s.o with trail := saved } } else s
          let j := i + (if ci.consumed = 0 then 1 else ci.consumed)
          let last := cs[j-1]?.getD pc
          renderLoop c o cs cmt f j (last.col, last.len) s
      else if pc.ty = "JUNK" ∨ pc.ty = "IGNORED" then
        renderLoop c o cs cmt f (i+1) (pc.col, pc.len) (rRaw s pc.txt)
      else if pc.len = 0 then
        renderLoop c o cs cmt f (i+1) (pc.col, pc.len) s
      else
        let r := renderText c o s pc prev.1 prev.2
        renderLoop c o cs cmt f (i+1) (r.2, pc.len) r.1

/-- `output_text()` after the BOM: initial state `did_newline = true`, `column = 1`;
    `init` carries the fields that survive from a previous file (`last_char`, `spaces`). -/
def render (c : OutCfg) (o : RenderOpts) (cs : Array Chunk) (cmt : Nat → Option CmtInfo)
    (init : OutSt := {}) : RSt :=
  renderLoop c o cs cmt (cs.size + 1) 0 (0, 0) { o := { init with didNl := true, col := 1 } }

/-- only the machine-relevant ops (flag changes are recorded lazily by the hook, so compare these) -/
def Op.isIo : Op → Bool
  | .add _ _ => true | .raw _ => true | _ => false

end Unc
