import UncModel.Punct
/-!
# L4 `Lex` -- a specification lexer for the C family (C, C++, Objective-C, Java)

Independent of uncrustify's tokenizer (src/tokenizer/*.cpp is *not* modelled here): a maximal-munch
lexer in the sense of ISO C 5.1.1.2 phase 3 / 6.4 over code points, parametrised by the language
mask (`lang_flag_e` bits; bit `FLAG_DIG` = 0x4000 switches di/trigraph punctuators on).  The only
pieces shared with the program are the two translated tables: punctuators (`findPunct`, proved to be
"longest enabled table entry that is a prefix") and the identifier character classes.

Token classes, tried in this order at a non-blank position:
  1. backslash, optional blanks, line break          (kind `bsnl`; filtered from the results; the blanks are
                                                      the gcc/clang reading of a line splice)
  2. `//` comment (continues over backslash-newline except in Java), `/* */` comment
  3. in a directive: the line break                  (kind `eod`, text [])
  4. identifier  KW1 (KW2 \ {'@'})*, or a literal with encoding prefix L u U u8 (R LR uR UR u8R in C++)
  5. pp-number   (digit | '.' digit) (e± E± p± P± | identifier char | '.' | C/C++: ' before alnum)*
  6. "string" / 'char' literal with escapes, closed on the same line (a backslash-newline inside is an
     escape); in C++ an identifier glued to the closing quote is part of the literal (ud-suffix) when it
     starts with `_` or is `s`/`sv` (other identifiers are separate tokens, as gcc does for `"%"PRIu64`).
     A quote that is not closed on its line is a one-character token of kind `other` (ISO C 6.4: "each
     non-white-space character that cannot be one of the above").
  7. punctuator = `findPunct`, except that `[]` (CT_TSQUARE, an uncrustify chunk, not a token) is `[`, and
     with the C++11 rule that `<::` not followed by `:` or `>` is `<` `::`
  8. any other character: one token of kind `other`
Directives: a punctuator starting with `#` that is first on its line (only blanks, comments and
backslash-newlines before it) opens a directive in the languages that have `#` (all but Java/ECMA);
it extends to the first line break outside a comment that is not preceded by a backslash; that line
break (or the end of the text) is the token `eod`.  After `# include|import|include_next`, `<...>` is
one header-name token.
-/
namespace Unc

inductive Kind
  | ident | number | str | chr | punct | other | eod | hdr | cmtLine | cmtBlock | bsnl
  deriving DecidableEq, Repr, Inhabited

structure Tok where
  kind : Kind
  text : List CP
  deriving DecidableEq, Repr, Inhabited

/-! ## language predicates -/
def langC (l : Nat) : Bool := l &&& Gen.langC != 0
def langCpp (l : Nat) : Bool := l &&& Gen.langCPP != 0
def langJava (l : Nat) : Bool := l &&& Gen.langJAVA != 0
/-- languages whose punctuator table has `#` (symbols1: `e_LANG_ALL & ~(e_LANG_JAVA | e_LANG_ECMA)`) -/
def langHasPP (l : Nat) : Bool := l &&& (Gen.langJAVA ||| Gen.langECMA) == 0
def langDig (l : Nat) : Bool := l &&& Gen.flagDig != 0
/-- the mask handed to `findPunct` (language bits only) -/
def langMask (l : Nat) : Nat := l &&& 0x0fff

/-! ## character classes -/
def isDigit (c : CP) : Bool := 48 ≤ c && c ≤ 57
def isIdStart (c : CP) : Bool := isKw1 c
def isIdCont (c : CP) : Bool := isKw2 c && c != 64
def isNl (c : CP) : Bool := c == 10 || c == 13
def isBlankWs (c : CP) : Bool := c == 32 || c == 9 || c == 11 || c == 12

/-- length of the longest prefix whose elements satisfy `p` -/
def spanLen (p : CP → Bool) : List CP → Nat
  | [] => 0
  | c :: r => if p c then spanLen p r + 1 else 0

/-! ## scanners (each returns the length of the token at the head of the text) -/

def identLen : List CP → Nat
  | [] => 0
  | c :: r => if isIdStart c then spanLen isIdCont r + 1 else 0

/-- the part of a pp-number after its first character; `sep` = digit separators allowed -/
def ppNumRest (sep : Bool) : List CP → Nat
  | [] => 0
  | [c] => if isIdCont c || c == 46 then 1 else 0
  | c :: d :: r =>
    if (c == 101 || c == 69 || c == 112 || c == 80) && (d == 43 || d == 45) then ppNumRest sep r + 2
    else if isIdCont c || c == 46 then ppNumRest sep (d :: r) + 1
    else if sep && c == 39 && isIdCont d then ppNumRest sep (d :: r) + 1
    else 0

def ppNumLen (sep : Bool) : List CP → Nat
  | c :: r =>
    if isDigit c then ppNumRest sep r + 1
    else if c == 46 then
      match r with
      | d :: r' => if isDigit d then ppNumRest sep r' + 2 else 0
      | [] => 0
    else 0
  | [] => 0

/-- escape state inside a literal / a `//` comment: nothing pending, after `\`, after `\` CR -/
inductive Esc
  | no | bs | bscr
  deriving DecidableEq, Repr

/-- body of a string / character literal after the opening quote `q`; `n` = characters consumed so far.
    Result: total length up to and including the closing quote; `none` = not closed on this line.
    A backslash escapes the next character; backslash CR LF is one escape. -/
def strBody (q : CP) : Esc → Nat → List CP → Option Nat
  | _, _, [] => none
  | .no, n, c :: r =>
    if c == q then some (n + 1)
    else if c == 92 then strBody q .bs (n + 1) r
    else if isNl c then none
    else strBody q .no (n + 1) r
  | .bs, n, c :: r => if c == 13 then strBody q .bscr (n + 1) r else strBody q .no (n + 1) r
  | .bscr, n, c :: r =>
    if c == 10 then strBody q .no (n + 1) r
    else if c == q then some (n + 1)
    else if c == 92 then strBody q .bs (n + 1) r
    else if isNl c then none
    else strBody q .no (n + 1) r

/-- C++ raw string: `s` follows `R"`; delimiter, `(`, body, `)`, delimiter, `"` -/
def rawBody (close : List CP) (n : Nat) : List CP → Option Nat
  | [] => none
  | c :: r => if c == 41 && close.isPrefixOf r then some (n + 1 + close.length) else rawBody close (n + 1) r

def isRawDelimChar (c : CP) : Bool := !(c == 32 || c == 40 || c == 41 || c == 92 || c == 9 || c == 11 || c == 12 || isNl c || c == 34)

/-- `s` follows `R"`; length of the rest of the raw string literal -/
def rawLen (s : List CP) : Option Nat :=
  let d := s.takeWhile isRawDelimChar
  if d.length ≤ 16 then
    match s.drop d.length with
    | 40 :: r => rawBody (d ++ [34]) (d.length + 1) r
    | _ => none
  else none

/-- C++ user-defined-literal suffix glued to a closing quote: an identifier that starts with `_`, or the
    standard `s` / `sv`.  (Any other identifier is lexed as a separate token, the documented gcc behaviour
    that keeps `"%"PRIu64` working.) -/
def udSuffixLen (s : List CP) : Nat :=
  let n := identLen s
  let t := s.take n
  if t.head? == some 95 || t == [115] || t == [115, 118] then n else 0

/-- literal starting at the quote `q` (`s` follows the quote): length including both quotes and,
    in C++, a user-defined-literal suffix -/
def quotedLen (cpp : Bool) (q : CP) (s : List CP) : Option Nat :=
  match strBody q .no 1 s with
  | none => none
  | some n => some (if cpp then n + udSuffixLen (s.drop (n - 1)) else n)

def isEncPrefix (p : List CP) : Bool := p == [76] || p == [117] || p == [85] || p == [117, 56]
def isRawPrefix (p : List CP) : Bool :=
  p == [82] || p == [76, 82] || p == [117, 82] || p == [85, 82] || p == [117, 56, 82]

/-- identifier, or prefixed string/char/raw-string literal, at an identifier-start character -/
def wordLen (l : Nat) (s : List CP) : Nat × Kind :=
  let n := identLen s
  let pre := s.take n
  match s.drop n with
  | 34 :: r =>
    if langCpp l && isRawPrefix pre then
      match rawLen r with
      | some m => (n + 1 + m + (udSuffixLen (r.drop m)), .str)
      | none => (n, .ident)
    else if isEncPrefix pre then
      match quotedLen (langCpp l) 34 r with
      | some m => (n + m, .str)
      | none => (n, .ident)
    else (n, .ident)
  | 39 :: r =>
    if isEncPrefix pre then
      match quotedLen (langCpp l) 39 r with
      | some m => (n + m, .chr)
      | none => (n, .ident)
    else (n, .ident)
  | _ => (n, .ident)

/-- `//` comment; `s` follows the `//`; `cont` = backslash-newline continues the comment.
    Result: length of the comment, excluding the line break that ends it. -/
def lineCmtBody (cont : Bool) : Esc → Nat → List CP → Nat
  | _, n, [] => n
  | .no, n, c :: r =>
    if isNl c then n
    else if cont && c == 92 then lineCmtBody cont .bs (n + 1) r
    else lineCmtBody cont .no (n + 1) r
  | .bs, n, c :: r =>
    if c == 10 then lineCmtBody cont .no (n + 1) r
    else if c == 13 then lineCmtBody cont .bscr (n + 1) r
    else if c == 92 then lineCmtBody cont .bs (n + 1) r
    else lineCmtBody cont .no (n + 1) r            -- ISO C: only backslash IMMEDIATELY before the line break splices; a blank after
                                                   -- the backslash ends the escape (uncrustify keeps one such blank for that reason)
  | .bscr, n, c :: r =>
    if c == 10 then lineCmtBody cont .no (n + 1) r
    else if isNl c then n
    else if cont && c == 92 then lineCmtBody cont .bs (n + 1) r
    else lineCmtBody cont .no (n + 1) r

/-- `/* */` comment; `s` follows the `/*` -/
def blockCmtBody (n : Nat) : List CP → Option Nat
  | [] => none
  | [_] => none
  | c :: d :: r => if c == 42 && d == 47 then some (n + 2) else blockCmtBody (n + 1) (d :: r)

/-- punctuator at the head of `s`.  Three corrections to the table lookup:
    * `[]` (and its spellings `<::>`, `??(??)`) is CT_TSQUARE, a chunk-level convenience of uncrustify and
      not a token of any C-family language: the token is `[` (`<:`, `??(`);
    * C++11 [lex.pptoken]/3: `<::` not followed by `:` or `>` is `<` followed by `::`. -/
def punctLen (l : Nat) (s : List CP) : Option Nat :=
  match findPunct (langMask l) (langDig l) s with
  | none => none
  | some n =>
    match s with
    | 91 :: _ => some 1
    | 60 :: 58 :: 58 :: c :: _ =>
      if !langDig l then some n
      else if n == 4 then some 2                                       -- `<::>` matched: the token is `<:`
      else if n == 2 && langCpp l && c != 58 && c != 62 then some 1    -- `<:` matched, C++11 exception
      else some n
    | [60, 58, 58] => if langDig l && n == 2 && langCpp l then some 1 else some n
    | 63 :: 63 :: 40 :: _ => if n == 6 then some 3 else some n
    | _ => some n

/-- `<header-name>`; `s` follows the `<` -/
def hdrBody (n : Nat) : List CP → Option Nat
  | [] => none
  | c :: r => if c == 62 then some (n + 1) else if isNl c then none else hdrBody (n + 1) r

/-- `s` follows a backslash: blanks, then a line break (LF, CR LF, CR); length of that.
    (ISO C splices only backslash-LF; gcc and clang also accept blanks in between, and so does this
    specification: uncrustify strips those blanks, which must not count as a token change.) -/
def bsnlRest : List CP → Option Nat
  | [] => none
  | c :: r =>
    if c == 10 then some 1
    else if c == 13 then some (if r.head? == some 10 then 2 else 1)
    else if isBlankWs c then (bsnlRest r).map (· + 1)
    else none

/-- the token at the head of `s`, ignoring directive structure: (length, kind); `none` = reject
    (only an unterminated `/*` comment is rejected) -/
def munchTok (l : Nat) (s : List CP) : Option (Nat × Kind) :=
  match s with
  | [] => none
  | c :: r =>
    if c == 92 && (bsnlRest r).isSome then (bsnlRest r).map (· + 1, .bsnl)
    else if c == 47 && r.head? == some 47 then some (lineCmtBody (!langJava l) .no 2 r.tail, .cmtLine)
    else if c == 47 && r.head? == some 42 then (blockCmtBody 2 r.tail).map (·, .cmtBlock)
    else if isIdStart c then some (wordLen l s)
    else if ppNumLen (langC l || langCpp l) s != 0 then some (ppNumLen (langC l || langCpp l) s, .number)
    else if c == 34 then (match quotedLen (langCpp l) 34 r with | some n => some (n, .str) | none => some (1, .other))
    else if c == 39 then (match quotedLen (langCpp l) 39 r with | some n => some (n, .chr) | none => some (1, .other))
    else match punctLen l s with
      | some n => some (n, .punct)
      | none => some (1, .other)

/-! ## directive structure -/

inductive Mode
  | code (bol : Bool)   -- outside a directive; `bol` = nothing but blanks/comments since the last line break
  | dirHash             -- just after the `#` of a directive
  | dirInc              -- after `# include`
  | dir                 -- elsewhere inside a directive
  deriving DecidableEq, Repr, Inhabited

def Mode.inDir : Mode → Bool
  | .code _ => false
  | _ => true

/-- whitespace between tokens: blanks always; line breaks outside directives -/
def cWs (m : Mode) (c : CP) : Option Mode :=
  if isBlankWs c then some m
  else if isNl c then (match m with | .code _ => some (.code true) | _ => none)
  else none

def isIncludeWord (t : List CP) : Bool :=
  t == [105, 110, 99, 108, 117, 100, 101] || t == [105, 109, 112, 111, 114, 116] ||
  t == [105, 110, 99, 108, 117, 100, 101, 95, 110, 101, 120, 116]

/-- mode after an ordinary token of kind `k` and text `t` -/
def modeAfter (l : Nat) (m : Mode) (k : Kind) (t : List CP) : Mode :=
  match m with
  | .code bol => if bol && langHasPP l && k == .punct && t.head? == some 35 then .dirHash else .code false
  | .dirHash => if k == .ident && isIncludeWord t then .dirInc else .dir
  | _ => .dir

/-- the stateful munch: token length, kind, next mode -/
def cMunch (l : Nat) (m : Mode) (s : List CP) : Option (Nat × Kind × Mode) :=
  match s with
  | [] => none
  | c :: r =>
    if m.inDir && isNl c then
      some (if c == 13 && r.head? == some 10 then 2 else 1, .eod, .code true)
    else if m == .dirInc && c == 60 && (hdrBody 1 r).isSome then
      (hdrBody 1 r).map (·, .hdr, .dir)
    else
      match munchTok l s with
      | none => none
      | some (n, k) =>
        if k == .bsnl || k == .cmtLine || k == .cmtBlock then some (n, k, m)
        else some (n, k, modeAfter l m k (s.take n))

/-! ## the generic maximal-munch driver -/

structure Lexer (σ κ : Type) where
  /-- is `c` whitespace in state `s`, and the state after it -/
  ws    : σ → CP → Option σ
  /-- token at the head of the text: length, kind, next state -/
  munch : σ → List CP → Option (Nat × κ × σ)
  /-- tokens emitted at the end of the text -/
  fin   : σ → List (κ × List CP)

def Lexer.skip {σ κ} (L : Lexer σ κ) : σ → List CP → σ × List CP
  | s, [] => (s, [])
  | s, c :: r =>
    match L.ws s c with
    | some s' => L.skip s' r
    | none => (s, c :: r)

/-- `acc` = tokens so far, reversed -/
def Lexer.run {σ κ} (L : Lexer σ κ) : Nat → σ → List CP → List (κ × List CP) → Option (List (κ × List CP))
  | 0, _, _, _ => none
  | f+1, s, t, acc =>
    match L.skip s t with
    | (s', []) => some (acc.reverse ++ L.fin s')
    | (s', c :: r) =>
      match L.munch s' (c :: r) with
      | none => none
      | some (0, _, _) => none
      | some (n+1, k, s'') => L.run f s'' (r.drop n) ((k, c :: r.take n) :: acc)

def Lexer.lex {σ κ} (L : Lexer σ κ) (s0 : σ) (t : List CP) : Option (List (κ × List CP)) :=
  L.run (t.length + 1) s0 t []

/-- the C-family lexer as an instance -/
def cLexer (l : Nat) : Lexer Mode Kind where
  ws := cWs
  munch := cMunch l
  fin := fun m => if m.inDir then [(.eod, [])] else []

def isCommentKind (k : Kind) : Bool := k == .cmtLine || k == .cmtBlock

/-- every token incl. comments and backslash-newlines; the text of `eod` is normalised to [] -/
def lexRaw (l : Nat) (t : List CP) : Option (List Tok) :=
  ((cLexer l).lex (.code true) t).map (·.map fun (k, x) => ⟨k, if k == .eod then [] else x⟩)

/-- tokens incl. comments (no backslash-newlines) -/
def lexAllWithComments (l : Nat) (t : List CP) : Option (List Tok) :=
  (lexRaw l t).map (·.filter (·.kind != .bsnl))

/-- the preprocessing-token stream: no comments, no backslash-newlines; `eod` closes each directive -/
def lexAll (l : Nat) (t : List CP) : Option (List Tok) :=
  (lexRaw l t).map (·.filter fun x => x.kind != .bsnl && !isCommentKind x.kind)

/-- comparison form of a token stream: the punctuators `>>` and `>>>` are split into single `>`.
    Closing two template/generic argument lists is spelled `> >` or (C++11, Java, C#) `>>`; uncrustify may
    rewrite one into the other (`sp_permit_cpp11_shift`, `tok_split_gte`), which the properties allow. -/
def splitShift (ts : List Tok) : List Tok :=
  ts.flatMap fun t =>
    if t.kind == .punct && (t.text == [62, 62] || t.text == [62, 62, 62]) then t.text.map (fun _ => ⟨.punct, [62]⟩)
    else [t]

end Unc
