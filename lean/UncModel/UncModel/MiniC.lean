/-!
# L8b: a statement-level model of brace removal / addition and the dangling `else`

`mod_full_brace_if/for/while/do = remove` deletes the braces around a body that is a single statement
(`src/braces.cpp` `examine_brace()`), `= add` puts braces around an unbraced body (`convert_vbrace_to_brace`).
Whether that preserves meaning is a question about *re-parsing*: after `if (a) { if (b) x; } else y;` loses its braces,
the `else` binds to the inner `if`.  This file states the question on a small statement language whose parser follows
the C rule "an `else` belongs to the nearest `if` that lacks one":

* `Stmt`      – simple statement, `{ s }` around a single statement, any other block (opaque), `if`, `if/else`, loop;
* `unparse`   – the token list of a statement;  `parse` – fuelled recursive descent over tokens;
* `openEnd s` – `s` ends inside an `if` without `else` (an `else` written right after `s` would bind inside `s`);
* `rmBraces`  – remove the braces of every single-statement body **unless** the body is the then-branch of an
                `if/else` and ends open — the guard of `examine_brace()` (“`if` without `else` before `else`”);
* `addBraces` – put every unbraced body into braces;
* `norm`      – meaning up to redundant single-statement blocks (`{ s }` ≡ `s` when `s` is not a declaration).
-/
namespace Unc.MiniC

inductive Stmt
  | simple (id : Nat)
  | block1 (s : Stmt)
  | blockN (id : Nat)
  | ifT (c : Nat) (t : Stmt)
  | ifE (c : Nat) (t e : Stmt)
  | loop (c : Nat) (b : Stmt)
deriving Repr, DecidableEq

inductive Tok
  | s (id : Nat) | lb | rb | blk (id : Nat) | iff (c : Nat) | els | lp (c : Nat)
deriving Repr, DecidableEq

open Stmt Tok

def unparse : Stmt → List Tok
  | simple i => [s i]
  | block1 b => lb :: (unparse b ++ [rb])
  | blockN i => [blk i]
  | ifT c t => iff c :: unparse t
  | ifE c t e => iff c :: (unparse t ++ els :: unparse e)
  | loop c b => lp c :: unparse b

def size : Stmt → Nat
  | simple _ => 1
  | blockN _ => 1
  | block1 b => size b + 1
  | ifT _ t => size t + 1
  | ifE _ t e => size t + size e + 1
  | loop _ b => size b + 1

/-- recursive descent; `else` is taken greedily by the innermost pending `if` (the C rule) -/
def parse : Nat → List Tok → Option (Stmt × List Tok)
  | 0, _ => none
  | _ + 1, [] => none
  | _ + 1, s i :: r => some (simple i, r)
  | _ + 1, blk i :: r => some (blockN i, r)
  | f + 1, lb :: r =>
    match parse f r with
    | some (b, rb :: r') => some (block1 b, r')
    | _ => none
  | f + 1, iff c :: r =>
    match parse f r with
    | some (t, els :: r') =>
      match parse f r' with
      | some (e, r'') => some (ifE c t e, r'')
      | none => none
    | some (t, r') => some (ifT c t, r')
    | none => none
  | f + 1, lp c :: r =>
    match parse f r with
    | some (b, r') => some (loop c b, r')
    | none => none
  | _ + 1, rb :: _ => none
  | _ + 1, els :: _ => none

def openEnd : Stmt → Bool
  | simple _ => false
  | block1 _ => false
  | blockN _ => false
  | ifT _ _ => true
  | ifE _ _ e => openEnd e
  | loop _ b => openEnd b

/-- the trees a parser can produce: the then-branch of an `if/else` never ends open -/
def wf : Stmt → Bool
  | simple _ => true
  | blockN _ => true
  | block1 b => wf b
  | ifT _ t => wf t
  | ifE _ t e => wf t && wf e && !openEnd t
  | loop _ b => wf b

def unblock : Stmt → Stmt
  | block1 b => b
  | x => x

/-- brace removal with the dangling-else guard.  `ef` = "an `else` follows this statement" (possibly after the
    virtual closes of enclosing brace-less statements — the `while` loop over `CT_VBRACE_CLOSE` in `examine_brace()`).
    A single-statement block that is a controlled body loses its braces unless an `else` follows and the body,
    after its own inner removals, would end in an `if` without `else`. -/
def rmB : Bool → Bool → Stmt → Stmt
  | _, _, simple i => simple i
  | _, _, blockN i => blockN i
  | _, false, block1 b => block1 (rmB false false b)          -- a free-standing block is kept
  | ef, true, block1 b =>                                      -- a controlled body `{ b }`
    if ef && openEnd (rmB ef false b) then block1 (rmB false false b) else rmB ef false b
  | ef, _, ifT c t => ifT c (rmB ef true t)
  | ef, _, ifE c t e => ifE c (rmB true true t) (rmB ef true e)
  | ef, _, loop c b => loop c (rmB ef true b)

def rmBraces (ef : Bool) (st : Stmt) : Stmt := rmB ef false st

/-- brace removal WITHOUT the guard (what a defective `examine_brace()` would do) -/
def rmBracesUnguarded : Stmt → Stmt
  | simple i => simple i
  | blockN i => blockN i
  | block1 b => block1 (rmBracesUnguarded b)
  | ifT c t => ifT c (unblock (rmBracesUnguarded t))
  | ifE c t e => ifE c (unblock (rmBracesUnguarded t)) (unblock (rmBracesUnguarded e))
  | loop c b => loop c (unblock (rmBracesUnguarded b))

def isBlock : Stmt → Bool
  | block1 _ => true
  | blockN _ => true
  | _ => false

def enblock (x : Stmt) : Stmt := if isBlock x then x else block1 x

/-- brace addition: every controlled body gets braces -/
def addBraces : Stmt → Stmt
  | simple i => simple i
  | blockN i => blockN i
  | block1 b => block1 (addBraces b)
  | ifT c t => ifT c (enblock (addBraces t))
  | ifE c t e => ifE c (enblock (addBraces t)) (enblock (addBraces e))
  | loop c b => loop c (enblock (addBraces b))

/-- meaning up to redundant single-statement blocks -/
def norm : Stmt → Stmt
  | simple i => simple i
  | blockN i => blockN i
  | block1 b => norm b
  | ifT c t => ifT c (norm t)
  | ifE c t e => ifE c (norm t) (norm e)
  | loop c b => loop c (norm b)

/-- driver encoding of token streams: `x<id>` simple, `{` `}`, `B<id>` opaque block, `i<c>` if, `e` else, `w<c>` loop -/
def Tok.ofString (w : String) : Option Tok :=
  match w.toList with
  | ['{'] => some lb
  | ['}'] => some rb
  | ['e'] => some els
  | 'x' :: r => (String.ofList r).toNat?.map s
  | 'B' :: r => (String.ofList r).toNat?.map blk
  | 'i' :: r => (String.ofList r).toNat?.map iff
  | 'w' :: r => (String.ofList r).toNat?.map lp
  | _ => none

def Stmt.show : Stmt → String
  | simple i => s!"x{i}"
  | blockN i => s!"B{i}"
  | block1 b => "{" ++ b.show ++ "}"
  | ifT c t => s!"i{c}(" ++ t.show ++ ")"
  | ifE c t e => s!"i{c}(" ++ t.show ++ ")e(" ++ e.show ++ ")"
  | loop c b => s!"w{c}(" ++ b.show ++ ")"

/-- a sequence of statements up to the end of the token list -/
def parseAll : Nat → List Tok → Option (List Stmt)
  | 0, _ => none
  | _ + 1, [] => some []
  | f + 1, ts =>
    match parse (f + 1) ts with
    | some (st, r) => if r.length < ts.length then (parseAll f r).map (st :: ·) else none
    | none => none

end Unc.MiniC
