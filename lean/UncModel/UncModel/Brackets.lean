/-!
# L8a: bracket structure of a token stream

The code-modifying passes of uncrustify (`src/braces.cpp`, `src/parens.cpp`, `src/sorting.cpp`, …) edit the token list by
inserting or deleting *pairs* of brackets, by turning a pair of virtual braces into real ones, or by permuting whole
lines.  This file is the model those edits are judged against: a token is an opening bracket of some kind, a closing
bracket of some kind, or anything else; a stream is well nested when the usual stack discipline accepts it.
Kinds: 0 `( )`, 1 `[ ]`, 2 `{ }`, 3 virtual braces (zero-length chunks `CT_VBRACE_OPEN/CLOSE`).
-/
namespace Unc

inductive BTok
  | op (k : Nat)
  | cl (k : Nat)
  | other
deriving Repr, DecidableEq

/-- one token against the stack of currently open kinds (innermost first) -/
def bstep : List Nat → BTok → Option (List Nat)
  | st, .op k => some (k :: st)
  | k' :: st, .cl k => if k = k' then some st else none
  | [], .cl _ => none
  | st, .other => some st

def brun : List Nat → List BTok → Option (List Nat)
  | st, [] => some st
  | st, t :: ts => match bstep st t with
    | some st' => brun st' ts
    | none => none

def wellNested (ts : List BTok) : Bool := brun [] ts == some []

def BTok.rename (f : Nat → Nat) : BTok → BTok
  | .op k => .op (f k)
  | .cl k => .cl (f k)
  | .other => .other

/-- virtual braces become real braces (`convert_vbrace_to_brace`) -/
def vbraceToBrace (k : Nat) : Nat := if k = 3 then 2 else k

def BTok.isBracketOf (k : Nat) : BTok → Bool
  | .op k' => k = k'
  | .cl k' => k = k'
  | .other => false

/-- the tokens an edit of kind `k` must leave alone -/
def othersThan (k : Nat) (ts : List BTok) : List BTok := ts.filter (fun t => !t.isBracketOf k)

/-- driver encoding: `(`=o0 `)`=c0 `[`=o1 `]`=c1 `{`=o2 `}`=c2 virtual o3/c3, anything else `.` -/
def BTok.ofString : String → BTok
  | "o0" => .op 0 | "c0" => .cl 0 | "o1" => .op 1 | "c1" => .cl 1
  | "o2" => .op 2 | "c2" => .cl 2 | "o3" => .op 3 | "c3" => .cl 3
  | _ => .other

end Unc
