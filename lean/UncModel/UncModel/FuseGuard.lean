import UncModel.Lex
/-!
# The fusion guard of `space_text()` (layer L5, guard part) and the notion it is meant to enforce

`forceSpace` models the "general safety check" of `space_text()` (src/space.cpp, the block that starts
with `pc->ResetFlagBits(PCF_FORCE_SPACE)`), i.e. whether `PCF_FORCE_SPACE` is set on `pc`:

    if (pc->Len() > 0 && !pc->IsString("[]") && !pc->IsString("{{") && !pc->IsString("}}")
        && !pc->IsString("()") && !pc->GetStr().startswith("@\""))
    {  tmp = next non-empty chunk on this line;           // (*)
       if (tmp exists)
       {  kw1 = IsKw2(pc->GetStr()[pc->Len()-1]);  kw2 = IsKw1(next->GetStr()[0]);
          if (kw1 && kw2) FORCE;
          else if (!kw1 && !kw2 && pc->Len() < 4 && next->Len() < 4)
          {  ct = find_punctuator(pc->Text() ++ next->Text(), cpd.lang_flags);
             if (ct != nullptr && strlen(ct->tag) != pc->Len())
             {  if (((CPP && sp_permit_cpp11_shift) || JAVA || CS || VALA || OC)
                    && pc->Is(CT_ANGLE_CLOSE) && next->Is(CT_ANGLE_CLOSE)) {}      // '>' '>' may become '>>'
                else if (strcmp(ct->tag, "[]") == 0) {}
                else FORCE; } } } }

(*) The model takes `next` to be that non-empty chunk.  (When `next` is an empty virtual brace the C++
still reads `next->GetStr()[0]` (= 0 by `UncText::operator[]`) and `next->Text()` (= ""), which is what the
model computes for `b = []`.)  `UncText::operator[]` yields 0 outside the text.
The concatenation is done on UTF-8 bytes in the C++; no tag contains a byte >= 128 or NUL, so the walk
stops at the first non-ASCII character in both (see `findPunct`).
-/
namespace Unc

def langCS (l : Nat) : Bool := l &&& Gen.langCS != 0
def langVala (l : Nat) : Bool := l &&& Gen.langVALA != 0
def langOC (l : Nat) : Bool := l &&& Gen.langOC != 0

/-- `PCF_FORCE_SPACE` after the safety check.
    `lang` = `cpd.lang_flags`, `dig` = `enable_digraphs`, `permit` = `sp_permit_cpp11_shift`,
    `a` = `pc` text, `aAC` = `pc->Is(CT_ANGLE_CLOSE)`, `b` = `next` text, `bAC` = `next->Is(CT_ANGLE_CLOSE)` -/
def forceSpace (lang : Nat) (dig permit : Bool) (a : List CP) (aAC : Bool) (b : List CP) (bAC : Bool) : Bool :=
  if a.length > 0 && a != [91, 93] && a != [123, 123] && a != [125, 125] && a != [40, 41]
     && !(a.take 2 == [64, 34]) then
    let kw1 := isKw2 (a.getLast?.getD 0)
    let kw2 := isKw1 (b.head?.getD 0)
    if kw1 && kw2 then true
    else if !kw1 && !kw2 && a.length < 4 && b.length < 4 then
      match findPunct lang dig (a ++ b) with
      | none => false
      | some n =>
        if n != a.length then
          if ((langCpp lang && permit) || langJava lang || langCS lang || langVala lang || langOC lang)
             && aAC && bAC then false
          else if (a ++ b).take n == [91, 93] then false
          else true
        else false
    else false
  else false

/-- since fix (space.cpp, "would open a comment"): a `/` directly followed by `*` or `/` -/
def opensCommentPair (a b : List CP) : Bool :=
  a.getLast? == some 47 && (b.head? == some 42 || b.head? == some 47)

/-- a number chunk (CT_NUMBER / CT_NUMBER_FP) that ends in an exponent letter, followed by a sign: `0x1e` `+` -/
def extendsNumber (aNum : Bool) (a b : List CP) : Bool :=
  aNum && (a.getLast? == some 101 || a.getLast? == some 69 || a.getLast? == some 112 || a.getLast? == some 80)
       && (b.head? == some 43 || b.head? == some 45)

/-- `PCF_FORCE_SPACE` after the safety check of the current code: the comment-opener test and the number-sign test come first, inside
    the same outer condition as the rest (`forceSpace` is the check as it was before those fixes); `aNum` = `pc` is a number chunk -/
def forceSpace2 (lang : Nat) (dig permit : Bool) (a : List CP) (aAC : Bool) (b : List CP) (bAC : Bool) (aNum : Bool := false) : Bool :=
  (a.length > 0 && a != [91, 93] && a != [123, 123] && a != [125, 125] && a != [40, 41] && !(a.take 2 == [64, 34])
     && (opensCommentPair a b || extendsNumber aNum a b))
  || forceSpace lang dig permit a aAC b bAC

/-- the length of the token the specification lexer finds at the head of `s` -/
def munchLen (l : Nat) (s : List CP) : Option Nat := (munchTok l s).map (·.1)

/-- gluing `b` directly after `a` can never change where the token `a` ends -/
def safePair (l : Nat) (a b : List CP) : Prop := ∀ rest, munchLen l (a ++ b ++ rest) = some a.length

end Unc
