import UncModel.Basic
/-!
# L2b: `parse_ignored()` (`src/tokenizer/tokenize.cpp`) — one line while processing is disabled

Literal markers only (`processing_cmt_as_regex` is not modelled).  `parse_off_newlines` (line breaks while off) is
handled before this function and is not part of it.
-/
namespace Unc

def notEol (c : CP) : Bool := c ≠ 10 && c ≠ 13

/-- `UncText::find(pat) >= 0` -/
def hasInfix (pat : List CP) : List CP → Bool
  | [] => pat.isEmpty
  | c :: r => pat.isPrefixOf (c :: r) || hasInfix pat r

def str (s : String) : List CP := s.toList.map Char.toNat

/-- the `#pragma … endasm` / `#endasm` hack -/
def hasEndasm (line : List CP) : Bool :=
  ((hasInfix (str "#pragma ") line || hasInfix (str "#pragma\t") line)
    && (hasInfix (str " endasm") line || hasInfix (str "\tendasm") line))
  || hasInfix (str "#endasm") line

inductive IgnRes
  | eof                                       -- nothing left on the line: `return(false)`
  | reenable                                  -- endasm found: processing switched on, input position restored
  | ignored (txt : List CP) (rest : List CP)  -- one CT_IGNORED chunk holding the whole line
  | marker                                    -- the enable marker is on the line: handled by the comment scanner
deriving Repr, DecidableEq

/-- `parse_ignored` after `parse_off_newlines` declined -/
def parseIgnored (onText : List CP) (input : List CP) : IgnRes :=
  let line := input.takeWhile notEol
  let rest := input.dropWhile notEol
  if line = [] then .eof
  else if hasEndasm line then .reenable
  else if onText ≠ [] ∧ hasInfix onText line = false then .ignored line rest
  else .marker

end Unc
