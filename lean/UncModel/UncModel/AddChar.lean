import UncModel.Unicode
/-!
# L3a: the output machine of `src/output.cpp` — `add_spaces`, `add_char`, `add_text`, `output_to_column`

State of the machine = the `cpd` fields that these functions read or write:
`column`, `spaces`, `last_char`, `did_newline`, `output_trailspace`, `output_tab_as_space`;
the emitted code points (`write_char` calls) are accumulated in `rout` (newest first); `OutSt.out` is the output in order.

Not modelled: `cpd.spaces` is a `UINT16` in the C++ (wraps at 65536 pending spaces);
`print_numbering()` (only active with `--tracking`).
-/

namespace Unc

structure OutCfg where
  nl : List CP := [10]      -- cpd.newline
  tab : Nat := 8            -- output_tab_size (1..32)
  iwt : Nat := 1            -- indent_with_tabs
  ppIwt : Int := -1         -- pp_indent_with_tabs (raw option value)
  inPP : Bool := false      -- cpd.in_preproc == CT_PREPROC (left over by the tokenizer, constant during output)
deriving Repr

structure OutSt where
  col : Nat := 1
  spaces : Nat := 0
  last : CP := 0
  didNl : Bool := true
  trail : Bool := false
  tabSp : Bool := false
  rout : List CP := []      -- emitted code points, NEWEST FIRST (so that appending is O(1) when executed)
deriving Repr

/-- the emitted code points, oldest first -/
def OutSt.out (s : OutSt) : List CP := s.rout.reverse

/-- `next_tab_column` / `calc_next_tab_column` with `cpd.frag_cols = 0` (it is zeroed before the output loop) -/
def nextTab (tab col : Nat) : Nat :=
  let col := if col = 0 then 1 else col
  1 + ((col - 1) / tab + 1) * tab

/-- `add_spaces` -/
def flushSpaces (s : OutSt) : OutSt :=
  { s with rout := List.replicate s.spaces 32 ++ s.rout, spaces := 0 }

/-- the effective `indent_with_tabs` used by the tab-after-space guard of `add_char` -/
def guardIwt (c : OutCfg) : Int :=
  if !c.inPP ∨ c.ppIwt = -1 then (c.iwt : Int) else c.ppIwt

/-- the pending-CR prologue executed on entry of every `add_char` call -/
def crPrologue (c : OutCfg) (s : OutSt) (ch : CP) : OutSt :=
  if s.last = 13 ∧ ch ≠ 10 then
    { s with rout := c.nl.reverse ++ s.rout, col := 1, didNl := true, spaces := 0 }
  else s

/-- `add_char` on the paths that do not expand a tab into spaces (includes the prologue) -/
def addPlain (c : OutCfg) (s0 : OutSt) (ch : CP) : OutSt :=
  let s := crPrologue c s0 ch
  if ch = 10 then
    let s := flushSpaces s
    { s with rout := c.nl.reverse ++ s.rout, col := 1, didNl := true, spaces := 0, last := ch }
  else if ch = 13 then
    { s with col := 1, didNl := true, spaces := 0, last := ch }
  else if ch = 32 ∧ !s.trail then
    { s with spaces := s.spaces + 1, col := s.col + 1, last := ch }
  else
    let s := flushSpaces s
    { s with rout := ch :: s.rout, col := (if ch = 9 then nextTab c.tab s.col else s.col + 1), last := ch }

/-- `while (cpd.column < endcol) add_char(' ')` — the recursive calls made by the two tab expansions;
    each recursive call is a complete `add_char(' ')` (prologue included). -/
def addSpacesTo (c : OutCfg) : Nat → OutSt → OutSt
  | 0, s => s
  | n+1, s => addSpacesTo c n (addPlain c s 32)

/-- `add_char(ch, is_literal)`.
    The two expansion branches return *without* updating `last_char`. -/
def addChar (c : OutCfg) (s0 : OutSt) (ch : CP) (lit : Bool) : OutSt :=
  let s := crPrologue c s0 ch
  if ch = 9 ∧ s.tabSp then
    addSpacesTo c (nextTab c.tab s.col - s.col) s
  else if ch = 9 ∧ !lit ∧ s.last = 32 ∧ guardIwt c = 0 then
    addSpacesTo c (nextTab c.tab s.col - s.col) s
  else addPlain c s0 ch

/-- `add_text(text, false, is_literal)` -/
def addText (c : OutCfg) (s : OutSt) (txt : List CP) (lit : Bool) : OutSt :=
  txt.foldl (fun s ch => addChar c s ch lit) s

/-- `add_text(text, is_ignored = true)`: raw `write_char`, machine state untouched -/
def addRaw (s : OutSt) (txt : List CP) : OutSt := { s with rout := txt.reverse ++ s.rout }

/-- the tab loop of `output_to_column` (fuel = target column) -/
def tabsTo (c : OutCfg) (target : Nat) : Nat → OutSt → OutSt
  | 0, s => s
  | f+1, s => if nextTab c.tab s.col ≤ target then tabsTo c target f (addChar c s 9 false) else s

/-- the space loop of `output_to_column` (fuel = target column) -/
def spacesTo (c : OutCfg) (target : Nat) : Nat → OutSt → OutSt
  | 0, s => s
  | f+1, s => if s.col < target then spacesTo c target f (addChar c s 32 false) else s

/-- `output_to_column(column, allow_tabs)` -/
def outputToColumn (c : OutCfg) (s : OutSt) (column : Nat) (allowTabs : Bool) : OutSt :=
  let s := { s with didNl := false }
  let s := if allowTabs then tabsTo c column (column + 1) s else s
  spacesTo c column (column + 1) s

/-! ## op traces (what hook H3 records) -/

inductive Op
  | add (ch : CP) (lit : Bool)   -- a top-level add_char call
  | raw (ch : CP)                -- write_char from add_text(..., is_ignored)
  | trail (b : Bool)             -- cpd.output_trailspace changed
  | tabSp (b : Bool)             -- cpd.output_tab_as_space changed
deriving Repr, DecidableEq

def execOp (c : OutCfg) (s : OutSt) : Op → OutSt
  | .add ch lit => addChar c s ch lit
  | .raw ch => { s with rout := ch :: s.rout }
  | .trail b => { s with trail := b }
  | .tabSp b => { s with tabSp := b }

def execOps (c : OutCfg) (s : OutSt) (ops : List Op) : OutSt := ops.foldl (execOp c) s

end Unc
