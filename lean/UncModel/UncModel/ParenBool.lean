/-!
# L8c: `check_bool_parens()` (`src/parens.cpp`) — mod_full_paren_if_bool / _assign_bool / _return_bool

One nesting level of a condition, as the function sees it: atoms (operands; a parenthesised sub-expression is an atom,
the function recurses into it separately), comparison operators, the separators `&&`/`||` (CT_BOOL; `?`, `:` and `,`
are handled alike) and assignment operators.  The function wraps every maximal separator-free stretch that contains a
comparison into parentheses, provided at least one separator was seen.

`old`  : the behaviour before the fix (an assignment is an ordinary token of the stretch);
`fixed`: an assignment starts a new stretch (and counts as "something was seen").
-/
namespace Unc.PB

inductive PTok
  | atom (n : Nat) | cmp | bool | asg | lp | rp
deriving Repr, DecidableEq

/-- scanner state: output so far (in order), the current stretch, "hit a comparison", "ref != popen" -/
structure St where
  out : List PTok
  seg : List PTok
  hit : Bool
  moved : Bool
deriving Repr

def flush (s : St) (wrapAllowed : Bool) : List PTok :=
  if s.hit && wrapAllowed && !s.seg.isEmpty then s.out ++ [PTok.lp] ++ s.seg ++ [PTok.rp] else s.out ++ s.seg

def step (fixed : Bool) (s : St) : PTok → St
  | .bool => { out := flush s true ++ [PTok.bool], seg := [], hit := false, moved := true }
  | .cmp => { s with seg := s.seg ++ [PTok.cmp], hit := true }
  | .asg =>
    if fixed then { out := s.out ++ s.seg ++ [PTok.asg], seg := [], hit := false, moved := true }
    else { s with seg := s.seg ++ [PTok.asg] }
  | t => { s with seg := s.seg ++ [t] }

def addParens (fixed : Bool) (ts : List PTok) : List PTok :=
  let s := ts.foldl (step fixed) { out := [], seg := [], hit := false, moved := false }
  flush s s.moved

/-! ## what the token list means: precedence  assignment < `&&`/`||` < comparison, parentheses group -/

/-- split at the top level (outside parentheses) on tokens satisfying `p`; `none` on unbalanced parentheses -/
def splitTop (p : PTok → Bool) : List PTok → Nat → List PTok → Option (List (List PTok))
  | [], 0, cur => some [cur.reverse]
  | [], _ + 1, _ => none
  | .lp :: ts, d, cur => splitTop p ts (d + 1) (.lp :: cur)
  | .rp :: ts, d, cur => match d with
    | 0 => none
    | d + 1 => splitTop p ts d (.rp :: cur)
  | t :: ts, d, cur =>
    if d = 0 && p t then (splitTop p ts d []).map (cur.reverse :: ·) else splitTop p ts d (t :: cur)

inductive Tree
  | leaf (n : Nat)
  | node (kind : Nat) (kids : List Tree)       -- kind 0 assignment chain, 1 boolean chain, 2 comparison chain
deriving Repr

/-- a chain with a single member is that member (parentheses around it or not) -/
def mk (kind : Nat) : List Tree → Tree
  | [t] => t
  | ts => .node kind ts

mutual
/-- fuelled parser: level 0 = assignment, 1 = boolean, 2 = comparison, 3 = unit -/
def parseAt : Nat → Nat → List PTok → Option Tree
  | 0, _, _ => none
  | f + 1, 3, ts =>
    match ts with
    | [.atom n] => some (.leaf n)
    | .lp :: rest =>
      match rest.reverse with
      | .rp :: innerRev => parseAt f 0 innerRev.reverse
      | _ => none
    | _ => none
  | f + 1, lvl, ts =>
    let p : PTok → Bool := fun t => if lvl = 0 then t == .asg else if lvl = 1 then t == .bool else t == .cmp
    match splitTop p ts 0 [] with
    | none => none
    | some parts => (parseList f (lvl + 1) parts).map (mk lvl)
def parseList : Nat → Nat → List (List PTok) → Option (List Tree)
  | 0, _, _ => none
  | _ + 1, _, [] => some []
  | f + 1, lvl, p :: ps =>
    match parseAt f lvl p, parseList f lvl ps with
    | some t, some ts => some (t :: ts)
    | _, _ => none
end

def meaning (ts : List PTok) : Option Tree := parseAt (4 * ts.length + 8) 0 ts

def Tree.beq : Tree → Tree → Bool
  | .leaf a, .leaf b => a == b
  | .node k ks, .node k' ks' => k == k' && beqList ks ks'
  | _, _ => false
where beqList : List Tree → List Tree → Bool
  | [], [] => true
  | a :: as, b :: bs => Tree.beq a b && beqList as bs
  | _, _ => false

def sameMeaning (a b : List PTok) : Bool :=
  match meaning a, meaning b with
  | some x, some y => Tree.beq x y
  | _, _ => false

/-- all token lists of a given length over {a0, a1, cmp, bool, asg} -/
def allLists : Nat → List (List PTok)
  | 0 => [[]]
  | n + 1 => (allLists n).flatMap fun l => [PTok.atom 0 :: l, PTok.atom 1 :: l, PTok.cmp :: l, PTok.bool :: l, PTok.asg :: l]

end Unc.PB
