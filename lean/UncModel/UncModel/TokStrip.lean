/-!
# L2b: the trailing-blank strip of `tokenize()` (`src/tokenizer/tokenize.cpp`, "Issue #1338")

```
while (size > 0 && (last == ' ' || last == '\t')) {
   if (size > 1 && text[size-2] == '\\') break;     // keep ONE blank after a backslash
   pop_back(); num_stripped++;
}
```
The text is modelled **reversed** (last character first), so the loop is structural recursion.
-/
namespace Unc

def isBlankCh (c : Nat) : Bool := c = 32 || c = 9

/-- the loop on the reversed text; returns the reversed result -/
def stripRev : List Nat → List Nat
  | [] => []
  | c :: rest =>
    if isBlankCh c then
      match rest with
      | d :: _ => if d = 92 then c :: rest else stripRev rest
      | [] => stripRev rest
    else c :: rest

def stripTrailing (t : List Nat) : List Nat := (stripRev t.reverse).reverse

/-- number of characters removed (`num_stripped`) -/
def numStripped (t : List Nat) : Nat := t.length - (stripTrailing t).length

end Unc
