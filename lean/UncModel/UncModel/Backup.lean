import UncModel.FsProto
/-!
# L10 `Backup` — histories of user edits and `--replace` runs

The state is the file system of `FsProto` (file, `.uncrustify` temp, `.unc-backup~`,
`.unc-backup.md5~`).  A run is the program `doSourceFile … .replace` of `FsProto` with a formatter
that always succeeds (`F cfg` abstract, may be the identity = a run that changes nothing); `h c` is
the content of the md5 file describing `c` (abstract digest).

`Spec` is the reference model of the documented protocol (`backup.h`, header of `backup.cpp`):
the backup has to hold `g`, the content the file had before the earliest run since the last user
edit, where a "user edit" is detected the only way the protocol can detect it — the file no longer
holds what uncrustify last left in it (`lastOut`).
-/
namespace Unc

/-- operations of a history (without kills) -/
inductive HistOp
  | userWrite (c : FBytes)
  | run (cfg : Nat)
  deriving DecidableEq, Repr

/-- one `--replace` run with configuration `cfg` -/
def runProg (fx : Fix) (F : Nat → FBytes → FBytes) (h : FBytes → FBytes) (cfg : Nat) : Prog :=
  doSourceFile fx .replace (fun c => .ok (F cfg c)) h

/-- the implementation: what the model of the C++ does to the file system -/
def applyOp (fx : Fix) (F : Nat → FBytes → FBytes) (h : FBytes → FBytes) (s : FS) : HistOp → FS
  | .userWrite c => { s with target := some c }
  | .run cfg => (exec (runProg fx F h cfg) s []).fs

def runHist (fx : Fix) (F : Nat → FBytes → FBytes) (h : FBytes → FBytes) (s : FS) (ops : List HistOp) : FS :=
  ops.foldl (applyOp fx F h) s

/-- the reference model of the protocol -/
structure Spec where
  /-- content of the file -/
  file : FBytes
  /-- what the backup file has to hold (`none`: no backup yet) -/
  g : Option FBytes
  /-- the content uncrustify last left in the file (`none`: never ran) -/
  lastOut : Option FBytes
  deriving DecidableEq, Repr

def Spec.step (F : Nat → FBytes → FBytes) (sp : Spec) : HistOp → Spec
  | .userWrite c => { sp with file := c }
  | .run cfg =>
    { file := F cfg sp.file
      -- the file still holds uncrustify's own output: the backup keeps the older user text
      g := if some sp.file = sp.lastOut then sp.g else some sp.file
      lastOut := some (F cfg sp.file) }

def specHist (F : Nat → FBytes → FBytes) (sp : Spec) (ops : List HistOp) : Spec :=
  ops.foldl (Spec.step F) sp

/-- every content the digest is ever taken of during the history -/
def occurring (F : Nat → FBytes → FBytes) (sp : Spec) : List HistOp → List FBytes
  | [] => sp.file :: sp.lastOut.toList
  | op :: ops => sp.file :: sp.lastOut.toList ++ occurring F (sp.step F op) ops

/-- `h` does not collide on the contents in `C` -/
def InjOn (h : FBytes → FBytes) (C : List FBytes) : Prop :=
  ∀ a b, a ∈ C → b ∈ C → h a = h b → a = b

/-- C14's invariant: the implementation state agrees with the reference model -/
def BackupInv (h : FBytes → FBytes) (s : FS) (sp : Spec) : Prop :=
  s.target = some sp.file ∧ s.bak = sp.g ∧ s.md5 = sp.lastOut.map h

/-- the file system before uncrustify ever touched the file -/
def FS.fresh (c : FBytes) : FS := ⟨some c, none, none, none⟩
def Spec.fresh (c : FBytes) : Spec := ⟨c, none, none⟩

/-! ## Kills -/

/-- states a killed `write` can leave (strict torn states; the atomic calls have none) -/
def torn (f : FS) : Sys → FS → Prop
  | .write p bs, g => ∃ k, g = f.set p (some ((f.get p).getD [] ++ bs.take k))
  | _, _ => False

/-- crash observations of a fault-free run: the file system at the moment of the kill together with
    the list of mutating calls completed so far -/
def CrashAt (f : FS) (cs : List Sys) : Prog → FS × List Sys → Prop
  | .done _, o => o = (f, cs)
  | .load p ok err, o =>
    o = (f, cs) ∨ (match f.get p with | some c => CrashAt f cs (ok c) o | none => CrashAt f cs err o)
  | .cmp res, o => o = (f, cs) ∨ CrashAt f cs (res (decide (f.tmp = f.target ∧ f.tmp ≠ none))) o
  | .mkdirs ok _, o => o = (f, cs) ∨ CrashAt f cs ok o
  | .eff s ok _, o => o = (f, cs) ∨ (∃ g, torn f s g ∧ o = (g, cs)) ∨ CrashAt (step f s) (cs ++ [s]) ok o

/-- the kill came before the output was moved into place and before the md5 file was touched -/
def early (cs : List Sys) : Prop := Sys.rename .tmp .target ∉ cs ∧ Sys.creat .md5 ∉ cs

/-- crash window 1 of the protocol: the target has been replaced (or the md5 file truncated), the
    md5 file does not yet describe the target -/
def inMd5Window (cs : List Sys) : Prop :=
  (Sys.rename .tmp .target ∈ cs ∨ Sys.creat .md5 ∈ cs) ∧ ∀ bs, Sys.write .md5 bs ∉ cs

/-- crash window 2: the backup file has been truncated and is not yet completely rewritten -/
def inBackupWindow (cs : List Sys) : Prop :=
  Sys.creat .bak ∈ cs ∧ ∀ bs, Sys.write .bak bs ∉ cs

/-- operations of a history with kills outside the two windows -/
inductive KOp
  | userWrite (c : FBytes)
  | run (cfg : Nat)
  /-- killed before the backup file was touched (or no backup was due) and before the rename -/
  | runKilledBeforeBackup (cfg : Nat)
  /-- killed after the backup was completely written, before the rename -/
  | runKilledAfterBackup (cfg : Nat)
  deriving DecidableEq, Repr

def KStep (fx : Fix) (F : Nat → FBytes → FBytes) (h : FBytes → FBytes) (s : FS) : KOp → FS → Prop
  | .userWrite c, s' => s' = { s with target := some c }
  | .run cfg, s' => s' = (exec (runProg fx F h cfg) s []).fs
  | .runKilledBeforeBackup cfg, s' =>
    ∃ cs, CrashAt s [] (runProg fx F h cfg) (s', cs) ∧ early cs ∧ Sys.creat .bak ∉ cs
  | .runKilledAfterBackup cfg, s' =>
    ∃ cs, CrashAt s [] (runProg fx F h cfg) (s', cs) ∧ early cs ∧ ∃ bs, Sys.write .bak bs ∈ cs

def KRun (fx : Fix) (F : Nat → FBytes → FBytes) (h : FBytes → FBytes) : FS → List KOp → FS → Prop
  | s, [], s' => s' = s
  | s, op :: ops, s' => ∃ s1, KStep fx F h s op s1 ∧ KRun fx F h s1 ops s'

/-- what a killed run means for the reference model: killed before the backup = it did not happen;
    killed after the backup = the backup decision happened, nothing else -/
def Spec.kstep (F : Nat → FBytes → FBytes) (sp : Spec) : KOp → Spec
  | .userWrite c => sp.step F (.userWrite c)
  | .run cfg => sp.step F (.run cfg)
  | .runKilledBeforeBackup _ => sp
  | .runKilledAfterBackup _ => { sp with g := if some sp.file = sp.lastOut then sp.g else some sp.file }

def kspecHist (F : Nat → FBytes → FBytes) (sp : Spec) (ops : List KOp) : Spec :=
  ops.foldl (Spec.kstep F) sp

/-- every content the digest is ever taken of during a history with kills -/
def koccurring (F : Nat → FBytes → FBytes) (sp : Spec) : List KOp → List FBytes
  | [] => sp.file :: sp.lastOut.toList
  | op :: ops => sp.file :: sp.lastOut.toList ++ koccurring F (sp.kstep F op) ops

end Unc
