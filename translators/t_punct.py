"""T-punct: src/symbols_table.h -> lean/UncModel/UncModel/Gen/Punct.lean

The C++ looks punctuators up in a trie (`punc_table`, generated at build time by
scripts/make_punctuator_table.py from symbols_table.h).  The generator keeps, for a
tag that occurs more than once in symbols_table.h, only ONE entry: it sorts the list of
[tag, "symbolsN[i]"] pairs (python list order: by tag, then by the *string* "symbolsN[i]")
and lets later entries overwrite earlier ones.  This translator applies the same rule and,
when a generated punctuator_table.h is present in the hook build directory, checks that
it names exactly the entries computed here.  Anything it cannot parse raises
TranslateError (the check then fails; it never guesses).
"""
import os
import re
import sys

if __name__ == "__main__":
    sys.path.insert(0, os.path.dirname(os.path.dirname(os.path.abspath(__file__))))
from vlib import common


class TranslateError(Exception):
    pass


OUT = os.path.join(common.LEAN_DIR, "UncModel", "Gen", "Punct.lean")

ARRAY_RE = re.compile(r"^static const chunk_tag_t\s+(\w+)\[\]\s*=\s*$")
ENTRY_RE = re.compile(r'^\{\s*(R"_\((.*)\)_"|"((?:[^"\\])*)")\s*,\s*(CT_\w+)\s*,\s*(.*?)\s*\}\s*,\s*(//.*)?$')


def lang_flags(repo):
    """lang_flag_e values from src/language_names.h (the e_XXX constants of keywords.h are casts of these)"""
    src = open(os.path.join(repo, "src", "language_names.h")).read()
    m = re.search(r"^enum class lang_flag_e\s*\{(.*?)\};", src, re.S | re.M)
    if not m:
        raise TranslateError("language_names.h: enum class lang_flag_e not found")
    kw = open(os.path.join(repo, "src", "keywords.h")).read()
    vals = {}
    body = re.sub(r"/\*.*?\*/", "", m.group(1), flags=re.S)
    body = re.sub(r"//[^\n]*", "", body)
    for name, v in re.findall(r"\b(\w+)\s*=\s*(0x[0-9a-fA-F]+|\d+)\s*,", body):
        if not re.search(r"static constexpr size_t e_%s\s*=\s*\(size_t\)lang_flag_e::%s;" % (name, name), kw):
            raise TranslateError("keywords.h: e_%s is not (size_t)lang_flag_e::%s" % (name, name))
        vals["e_" + name] = int(v, 0)
    for need in ("e_LANG_C", "e_LANG_CPP", "e_LANG_D", "e_LANG_CS", "e_LANG_JAVA", "e_LANG_OC", "e_LANG_VALA",
                 "e_LANG_PAWN", "e_LANG_ECMA", "e_LANG_ALLC", "e_LANG_ALL", "e_FLAG_DIG"):
        if need not in vals:
            raise TranslateError("language_names.h: %s not found in lang_flag_e" % need)
    return vals


def eval_mask(expr, flags):
    """evaluate `e_LANG_C | e_LANG_CPP`, `e_LANG_ALL & ~(e_LANG_JAVA | e_LANG_ECMA)` ..."""
    toks = re.findall(r"\w+|[|&~()]", expr)
    if "".join(toks) != re.sub(r"\s+", "", expr):
        raise TranslateError("unparsable language mask: %r" % expr)
    py = []
    for t in toks:
        if t in "|&~()":
            py.append(t)
        elif t in flags:
            py.append(str(flags[t]))
        else:
            raise TranslateError("unknown flag %r in language mask %r" % (t, expr))
    try:
        return eval(" ".join(py), {"__builtins__": {}}) & 0xffff
    except Exception as e:  # noqa
        raise TranslateError("cannot evaluate language mask %r: %s" % (expr, e))


def parse_symbols(repo):
    """-> list of (tag bytes, mask, 'symbolsN[i]') in file order"""
    flags = lang_flags(repo)
    path = os.path.join(repo, "src", "symbols_table.h")
    entries = []
    cur, idx, depth = None, 0, 0
    for ln, raw in enumerate(open(path, encoding="latin-1"), 1):
        line = raw.strip()
        m = ARRAY_RE.match(line)
        if m:
            cur, idx = m.group(1), 0
            continue
        if cur is None:
            continue
        if line == "{" or line == "":
            continue
        if line.startswith("};"):
            cur = None
            continue
        if line.startswith("//") or line.startswith("/*") or line.startswith("*"):
            continue
        m = ENTRY_RE.match(line)
        if not m:
            raise TranslateError("symbols_table.h:%d: entry does not parse: %r" % (ln, line))
        tag = m.group(2) if m.group(2) is not None else m.group(3)
        if tag == "" or len(tag) > 6:
            raise TranslateError("symbols_table.h:%d: tag length %d outside 1..6" % (ln, len(tag)))
        if any(ord(c) == 0 or ord(c) > 127 for c in tag):
            raise TranslateError("symbols_table.h:%d: tag with NUL / non-ASCII char" % ln)
        entries.append((tag, eval_mask(m.group(5), flags), "%s[%d]" % (cur, idx)))
        idx += 1
    if len(entries) < 50:
        raise TranslateError("symbols_table.h: only %d entries parsed" % len(entries))
    return entries, flags


def dedupe(entries):
    """the overwrite rule of scripts/make_punctuator_table.py (pl.sort(); add_to_db overwrites)"""
    db = {}
    for tag, mask, name in sorted(entries, key=lambda e: [e[0], e[2]]):
        db[tag] = (tag, mask, name)
    return [db[t] for t in sorted(db)]


def generator_view(repo):
    """scan_file() of scripts/make_punctuator_table.py, transcribed: what the build really puts in the trie"""
    args = []
    cur_token, token_idx = "", 0
    for line in open(os.path.join(repo, "src", "symbols_table.h"), encoding="latin-1"):
        line = line.strip()
        if line.startswith("static const chunk_tag_t"):
            idx = line.find("[")
            if idx > 0:
                cur_token = line[25:idx].strip()
                token_idx = 0
        elif len(cur_token) > 0:
            idx1 = line.find("{")
            idx2 = line.find("CT_")
            if idx1 >= 0 and idx2 > idx1:
                tok = line[idx1 + 1:idx2].strip()
                if tok.startswith('R"'):
                    a, b = tok.find("("), tok.rfind(")")
                    if a == -1 or b == -1:
                        raise TranslateError("symbols_table.h: raw string parenthesis not found: %r" % line)
                    tok = tok[a + 1:b]
                else:
                    tok = tok[1:-2]
                args.append((tok, "%s[%d]" % (cur_token, token_idx)))
                token_idx += 1
    return args


def _sizes(entries):
    sizes = {}
    for _, _, n in entries:
        a, i = n[:-1].split("[")
        sizes[a] = max(sizes.get(a, 0), int(i) + 1)
    return sizes


def read_generated():
    """{tag: 'symbolsN[i]'} of the punctuator_table.h in the hook build directory, or None"""
    p = os.path.join(common.build_dir(hooks=True), "src", "punctuator_table.h")
    if not os.path.exists(p):
        return None
    got = {}
    for line in open(p, encoding="latin-1"):
        m = re.match(r"\s*\{\s*'(.*?)'\s*,\s*\d+\s*,\s*\d+\s*,\s*&(\w+\[\d+\])\s*\}\s*,\s*//\s*\d+:\s*'(.*)'\s*$", line.rstrip("\n"))
        if m:
            got[m.group(3)] = m.group(2)
    return got


def phantoms(entries, repo):
    """Trie nodes that carry a tag pointer although no array element stands behind it.  The generator script
    (as shipped) never notices the end of an array and does not skip comment lines, so a commented-out entry
    after the closing brace becomes a node whose tag is `&symbolsN[size]`: one past the end, an
    out-of-bounds read in find_punctuator (observed: SIGSEGV).  Such nodes cannot be modelled; they are
    reported, assumed to match no language, and excluded from the correspondence.
    Source of truth: the generated punctuator_table.h of the hook build when there is one (so a repaired
    generator is followed), else a transcription of the shipped scan_file()."""
    real = {(t, n) for t, _, n in entries}
    sizes = _sizes(entries)
    got = read_generated()
    if got is not None:
        want = {t: n for t, _, n in dedupe(entries)}
        missing = sorted(set(want.items()) - set(got.items()))
        if missing:
            raise TranslateError("generated punctuator_table.h disagrees with the overwrite rule / lacks entries: %r"
                                 % (missing[:6],))
        ph = sorted(set(got.items()) - set(want.items()))
    else:
        gen = generator_view(repo)
        if [r for r in real if r not in set(gen)]:
            raise TranslateError("entries not seen by make_punctuator_table.py's scanner")
        ph = [g for g in gen if g not in real]
    for t, n in ph:
        a, i = n[:-1].split("[")
        if int(i) < sizes.get(a, 0):
            raise TranslateError("trie node %r points at %s, which is the array element of another tag" % (t, n))
    return ph


def translate(repo=None):
    repo = repo or common.REPO
    entries, flags = parse_symbols(repo)
    table = dedupe(entries)
    ph = phantoms(entries, repo)
    dropped = sorted(set(entries) - set(table))
    out = []
    out.append("/-! GENERATED by translators/t_punct.py from src/symbols_table.h -- do not edit.")
    out.append("    One entry per distinct tag, after the overwrite rule of scripts/make_punctuator_table.py")
    out.append("    (for a duplicated tag the entry whose name \"symbolsN[i]\" sorts last as a string wins).")
    for t, m, n in dropped:
        out.append("    dropped duplicate: %s %r mask 0x%04x" % (n, t, m))
    for t, n in ph:
        out.append("    PHANTOM trie node (not an array element; tag pointer out of bounds, assumed to match no language): %s %r" % (n, t))
    out.append("-/")
    out.append("namespace Unc.Gen")
    out.append("")
    out.append("/-- (tag as code points, `lang_flags` of the entry incl. the FLAG_DIG bit, is di/trigraph) -/")
    out.append("def punctTable : List (List Nat × Nat × Bool) := [")
    rows = []
    for t, m, n in table:
        rows.append("  ([%s], 0x%04x, %s)  -- %s %s" % (", ".join(str(ord(c)) for c in t), m,
                                                     "true" if m & flags["e_FLAG_DIG"] else "false", n,
                                                     "".join(c if 32 < ord(c) < 127 else "\\x%02x" % ord(c) for c in t)))
    # comma placement: after the tuple, before the comment
    fixed = []
    for i, r in enumerate(rows):
        head, cmt = r.split("  -- ", 1)
        fixed.append(head + ("," if i + 1 < len(rows) else "") + "  -- " + cmt)
    out += fixed
    out.append("]")
    out.append("")
    out.append("def flagDig : Nat := 0x%04x" % flags["e_FLAG_DIG"])
    for k in ("C", "CPP", "D", "CS", "JAVA", "OC", "VALA", "PAWN", "ECMA"):
        out.append("def lang%s : Nat := 0x%04x" % (k, flags["e_LANG_" + k]))
    out.append("")
    out.append("end Unc.Gen")
    return "\n".join(out) + "\n"


def run():
    text = translate()
    return common.write_if_changed(OUT, text)


if __name__ == "__main__":
    print("changed" if run() else "unchanged", OUT)
