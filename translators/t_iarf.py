"""T-opt (minimal): option names and kinds from src/options.h.

The documented format of options.h is `extern TYPE\\nNAME;` (see the NOTE at the top of that file).
Returns [(name, kind)] in declaration order with kind in
  iarf | bool | unsigned | signed | string | enum:<type>
and raises TranslateError when an `extern` line does not have that shape (never guesses).
"""
import os
import re


class TranslateError(Exception):
    pass


_TYPE = re.compile(r"^extern\s+(Option<\s*([A-Za-z_0-9]+)\s*>|BoundedOption<\s*(signed|unsigned)\s*,\s*(-?\d+)\s*,\s*(-?\d+)\s*>)\s*$")
_NAME = re.compile(r"^([a-z][a-z0-9_]*)\s*;\s*(//.*)?$")


def options(repo):
    path = os.path.join(repo, "src", "options.h")
    lines = open(path, encoding="utf-8", errors="replace").read().split("\n")
    out, seen = [], set()
    i = 0
    while i < len(lines):
        ln = lines[i]
        if ln.startswith("extern"):
            m = _TYPE.match(ln.rstrip())
            if not m:
                raise TranslateError("options.h:%d: extern line of unknown shape: %r" % (i + 1, ln))
            if i + 1 >= len(lines):
                raise TranslateError("options.h:%d: extern line without a name line" % (i + 1))
            n = _NAME.match(lines[i + 1].rstrip())
            if not n:
                raise TranslateError("options.h:%d: name line of unknown shape: %r" % (i + 2, lines[i + 1]))
            name = n.group(1)
            if name in seen:
                raise TranslateError("options.h:%d: option %s declared twice" % (i + 2, name))
            seen.add(name)
            if m.group(3):
                kind = m.group(3)
            else:
                t = m.group(2)
                kind = {"iarf_e": "iarf", "bool": "bool", "unsigned": "unsigned", "signed": "signed",
                        "string": "string"}.get(t, "enum:" + t)
            out.append((name, kind))
            i += 2
            continue
        i += 1
    if len(out) < 100:
        raise TranslateError("options.h: only %d options found - format changed?" % len(out))
    return out


def iarf_names(repo):
    return [n for n, k in options(repo) if k == "iarf"]


if __name__ == "__main__":
    import sys
    opts = options(sys.argv[1] if len(sys.argv) > 1 else os.environ.get("VERIF_REPO", "/repo"))
    from collections import Counter
    print(len(opts), Counter(k for _, k in opts))
    print(len([n for n, k in opts if k == "iarf" and n.startswith("sp_")]), "IARF sp_ options")
