"""Run T-opt, T-enum, T-nlmax, T-lang and (re)write the Gen/*.lean files of the Config layer."""
import os

from . import t_opt, t_enum, t_nlmax, t_lang, t_compat


def regenerate(repo, bld, lean_dir, write_if_changed):
    """-> dict with parsed tables; raises t_opt.TranslateError when a source no longer parses"""
    gen = os.path.join(lean_dir, "UncModel", "Gen")
    enums = t_enum.translate(repo, bld)
    groups, opts = t_opt.parse(repo, enums)
    guarded = t_nlmax.parse(repo)
    soft = []
    try:
        site = t_nlmax.call_site(repo)
    except t_opt.TranslateError as e:
        site = None
        soft.append(str(e))
    langs = t_lang.parse_languages(repo)
    toks = t_lang.parse_token_names(bld)
    compat = t_compat.parse(repo)
    if compat[2] is None:
        soft.append("uncrustify_limits.h: MAX_INCLUDE_DEPTH not found (include nesting is unbounded)")
        compat = (compat[0], compat[1], 16, compat[3])
    names = {o["name"] for o in opts}
    for thr, old, new in compat[0]:
        if old in names or (new is not None and new not in names):
            raise t_opt.TranslateError("option.cpp: compat entry %s -> %s does not fit options.h" % (old, new))
    for g in guarded + ["nl_max"]:
        if g not in names:
            raise t_opt.TranslateError("too_big_for_nl_max(): %s is not an option of options.h" % g)
    changed = []
    for fn, text in (("Options.lean", t_opt.emit(groups, opts)), ("OptEnums.lean", t_enum.emit(enums)),
                     ("NlMaxGuard.lean", t_nlmax.emit(guarded, [o["name"] for o in opts])), ("Lang.lean", t_lang.emit(langs, toks)),
                     ("Compat.lean", t_compat.emit(*compat))):
        if write_if_changed(os.path.join(gen, fn), text):
            changed.append(fn)
    return {"groups": groups, "options": opts, "enums": enums, "guarded": guarded, "nlmax_site": site,
            "languages": langs, "compat": compat, "soft_failures": soft, "tokens": toks, "changed": changed}
