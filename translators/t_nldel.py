"""T-nldel: who may delete a newline chunk, and under which guard.

1. `Chunk::SafeToDeleteNl()` (src/chunk.h) is parsed statement by statement: every `if (...) return(false);` contributes the list of
   (neighbour, chunk type) tests that refuse the deletion; the final `return(...)` expression is kept as text.
2. Every `Chunk::Delete(v)` in src/newlines/*.cpp is attributed to its function and classified:
     guard       an enclosing `if` condition holds `v->SafeToDeleteNl()` (not in an else branch)
     early-exit  an earlier statement of an enclosing block is `if (!v->SafeToDeleteNl()) { break/continue/return }`
     none        neither
3. The committed exceptions (/verif/c07_nldel_exceptions.json) say, for the sites classified `none`, why they cannot remove a line
   break of a disabled region.

Emitted as Gen/NlDel.lean; obligations in Props/C07.lean (C07_nl_delete_sites_guarded, C07_safe_delete_refuses_ignored).
"""
import glob
import json
import os
import re

from .t_blank import P, strip_comments_strings
from .t_mods import functions_in
from .t_opt import TranslateError


def safe_to_delete(repo):
    src = strip_comments_strings(open(os.path.join(repo, "src", "chunk.h"), encoding="utf-8").read())
    m = re.search(r"inline\s+bool\s+Chunk::SafeToDeleteNl\(\)\s*const\s*\{", src)
    if not m:
        raise TranslateError("chunk.h: Chunk::SafeToDeleteNl() not found")
    i = m.end() - 1
    depth = 0
    for j in range(i, len(src)):
        if src[j] == "{":
            depth += 1
        elif src[j] == "}":
            depth -= 1
            if depth == 0:
                break
    tree = P(src[i:j + 1]).stmt()
    alias = {}
    tests, final = [], None
    for st in tree[1]:
        if st[0] == "simple":
            mm = re.match(r"^Chunk \*(\w+) = (GetPrev|GetNext)\(\)$", st[1])
            if mm:
                alias[mm.group(1)] = "prev" if mm.group(2) == "GetPrev" else "next"
                continue
            mm = re.match(r"^return ?\((.*)\)$", st[1])
            if mm:
                final = mm.group(1)
                continue
            raise TranslateError("chunk.h: SafeToDeleteNl(): statement not understood: %r" % st[1])
        if st[0] == "if" and st[3] is None:
            body = st[2][1] if st[2][0] == "block" else [st[2]]
            if [b for b in body] != [("simple", "return(false)")] and [b[1].replace(" ", "") for b in body] != ["return(false)"]:
                raise TranslateError("chunk.h: SafeToDeleteNl(): `if` body is not `return(false)`: %r" % (body,))
            for atom in st[1].split("||"):
                a = atom.strip()
                mm = re.match(r"^(\w+)->Is\((CT_\w+)\)$", a)
                if mm and mm.group(1) in alias:
                    tests.append((alias[mm.group(1)], mm.group(2)))
                    continue
                mm = re.match(r"^(GetPrev|GetNext)\(\)->Is\((CT_\w+)\)$", a)
                if mm:
                    tests.append(("prev" if mm.group(1) == "GetPrev" else "next", mm.group(2)))
                    continue
                raise TranslateError("chunk.h: SafeToDeleteNl(): condition not understood: %r" % a)
            continue
        raise TranslateError("chunk.h: SafeToDeleteNl(): statement kind %s not understood" % st[0])
    if final is None:
        raise TranslateError("chunk.h: SafeToDeleteNl(): no final return")
    return tests, final


EXIT = re.compile(r"^(break|continue|return\b.*)$")


def delete_sites(repo):
    out = []
    for f in sorted(glob.glob(os.path.join(repo, "src", "newlines", "*.cpp"))):
        raw = open(f, encoding="utf-8", errors="replace").read()
        clean = strip_comments_strings(raw).split("\n")
        for name, a, b in functions_in(clean):
            body = "\n".join(clean[a:b + 1])
            if "Chunk::Delete(" not in body:
                continue
            body = re.sub(r"^\s*#.*$", "", body, flags=re.M)
            body = re.sub(r"\bdo\s*\{", "while (DO_LOOP) {", body)
            body = re.sub(r"\}\s*while\s*\(([^;]*)\);", "}", body)
            body = re.sub(r"\b(case\s+[\w:]+|default)\s*:", "", body)
            try:
                tree = P(body).stmt()
            except (TranslateError, IndexError) as e:
                raise TranslateError("%s: %s(): body not parsed: %s" % (os.path.basename(f), name, e))

            def walk(t, guards, early):
                if t[0] == "block":
                    early = list(early)
                    for x in t[1]:
                        walk(x, guards, early)
                        if x[0] == "if" and x[3] is None:
                            mm = re.findall(r"!\s*(\w+)->SafeToDeleteNl\(\)", x[1])
                            inner = x[2][1] if x[2][0] == "block" else [x[2]]
                            if mm and inner and inner[-1][0] == "simple" and EXIT.match(inner[-1][1]):
                                early += mm
                elif t[0] == "if":
                    walk(t[2], guards + [t[1]], early)
                    if t[3] is not None:
                        walk(t[3], guards + ["!(" + t[1] + ")"], early)
                elif t[0] in ("while", "for", "switch"):
                    walk(t[2], guards, early)
                else:
                    for mm in re.finditer(r"Chunk::Delete\((\w+)\)", t[1]):
                        v = mm.group(1)
                        g = "none"
                        for c in guards:
                            if not c.startswith("!(") and re.search(r"(?<![!\w])%s->SafeToDeleteNl\(\)" % re.escape(v), c):
                                g = "guard"
                        if g == "none" and v in early:
                            g = "early-exit"
                        out.append((os.path.basename(f), name, v, g))
            walk(tree, [], [])
    if len(out) < 5:
        raise TranslateError("src/newlines: only %d Chunk::Delete sites found" % len(out))
    return out


def lstr(s):
    return '"' + s.replace("\\", "\\\\").replace('"', '\\"') + '"'


def regenerate(repo, root, lean_dir, write_if_changed):
    tests, final = safe_to_delete(repo)
    sites = delete_sites(repo)
    exc = json.load(open(os.path.join(root, "c07_nldel_exceptions.json")))["sites"]
    out = ["/- GENERATED by translators/t_nldel.py from src/chunk.h, src/newlines/*.cpp and /verif/c07_nldel_exceptions.json -- do not edit. -/",
           "namespace Unc.Gen", "",
           "/-- `Chunk::SafeToDeleteNl()` answers false when the named neighbour of the newline chunk has the named type -/",
           "def safeNlFalseWhen : List (String × String) := [" + ", ".join("(%s, %s)" % (lstr(a), lstr(b)) for a, b in tests) + "]", "",
           "def safeNlFinal : String := " + lstr(final), "",
           "/-- every `Chunk::Delete(v)` of src/newlines/*.cpp: (file, function, v, guard) -/",
           "def nlDelSites : List (String × String × String × String) := ["]
    out.append(",\n".join("  (%s, %s, %s, %s)" % tuple(lstr(x) for x in s) for s in sites))
    out.append("]\n")
    out.append("/-- committed exceptions: (file, function, v, reason) -/")
    out.append("def nlDelExceptions : List (String × String × String × String) := [")
    out.append(",\n".join("  (%s, %s, %s, %s)" % (lstr(e["file"]), lstr(e["function"]), lstr(e["var"]), lstr(e["reason"])) for e in exc))
    out.append("]\n")
    out.append("end Unc.Gen\n")
    changed = write_if_changed(os.path.join(lean_dir, "UncModel", "Gen", "NlDel.lean"), "\n".join(out))
    return {"tests": tests, "final": final, "sites": sites, "changed": changed}


if __name__ == "__main__":
    import sys
    repo = sys.argv[1] if len(sys.argv) > 1 else "/repo"
    print(safe_to_delete(repo))
    for s in delete_sites(repo):
        print(s)
