"""T-enum: option value spellings.

Primary source: the *generated* src/option_enum.cpp in the build directory (this is what is compiled):
the `convert_string(const char *in, T &out)` chains of `strcasecmp(in, "x") == 0 -> out = V` (first
match wins) and the `to_string(T)` switches.  Cross-check: src/option.h (`enum class`, UNC_OPTVAL_ALIAS)
must describe the same chains in the order make_option_enum.py emits them.
Any construct that does not fit raises TranslateError.
"""
import os
import re

from .t_opt import TranslateError, lean_bytes

TYPES = {"bool": "bool", "iarf_e": "iarf", "line_end_e": "lineend", "token_pos_e": "tokenpos"}


def _eval(expr, env):
    """enumerator initialisers of option.h: integers, 1u << n, A | B, parentheses"""
    e = expr.strip()
    e = re.sub(r'(\d+)[uU]\b', r'\1', e)
    if not re.match(r'^[\w\s()|<]+$', e):
        raise TranslateError("unsupported enumerator initialiser %r" % expr)
    names = set(re.findall(r'[A-Za-z_]\w*', e))
    for nm in names:
        if nm not in env:
            raise TranslateError("enumerator initialiser %r uses unknown name %r" % (expr, nm))
    return int(eval(e, {"__builtins__": {}}, dict(env)))


def parse_option_h(repo):
    src = open(os.path.join(repo, "src", "option.h"), encoding="utf-8").read()
    enums = {}
    for m in re.finditer(r'enum class (\w+)(?: *// *<(\w+)>)?\s*\{(.*?)\};', src, re.S):
        tname, prefix, body = m.group(1), m.group(2), m.group(3)
        if tname not in TYPES:
            continue
        env, order, nxt = {}, [], 0
        for ln in body.split("\n"):
            ln = ln.split("//")[0].strip().rstrip(",").strip()
            if not ln:
                continue
            mm = re.match(r'^(\w+)(?:\s*=\s*(.+))?$', ln)
            if not mm:
                raise TranslateError("option.h: enum %s: unparsed line %r" % (tname, ln))
            val = _eval(mm.group(2), env) if mm.group(2) else nxt
            if tname == "bool":
                val = 1 if mm.group(1) == "true" else 0
            env[mm.group(1)] = val
            order.append(mm.group(1))
            nxt = val + 1
        enums[tname] = {"prefix": prefix, "order": order, "values": env, "aliases": {k: [] for k in order}}
    for m in re.finditer(r'^UNC_OPTVAL_ALIAS\((\w+),\s*(\w+)((?:,\s*"[^"]*")+)\);', src, re.M):
        tname, en = m.group(1), m.group(2)
        if tname not in enums or en not in enums[tname]["values"]:
            raise TranslateError("option.h: UNC_OPTVAL_ALIAS for unknown %s::%s" % (tname, en))
        enums[tname]["aliases"][en] += re.findall(r'"([^"]*)"', m.group(3))
    for t in TYPES:
        if t not in enums:
            raise TranslateError("option.h: enum class %s not found" % t)
    return enums


def parse_generated(bld):
    path = os.path.join(bld, "src", "option_enum.cpp")
    if not os.path.exists(path):
        raise TranslateError("generated option_enum.cpp not found in " + bld)
    src = open(path, encoding="utf-8").read()
    chains, names = {}, {}
    for m in re.finditer(r'bool convert_string\(const char \*in, (\w+) &out\)\s*\{(.*?)\n\}', src, re.S):
        tname, body = m.group(1), m.group(2)
        if tname not in TYPES:
            raise TranslateError("option_enum.cpp: convert_string for unknown type " + tname)
        items = re.findall(r'else if \(strcasecmp\(in, "([^"]*)"\) == 0\)\s*\{\s*out = (\w+);\s*return\(true\);\s*\}', body)
        # the whole body must be exactly: if (false) {} <items> else { return(false); }
        skeleton = re.sub(r'else if \(strcasecmp\(in, "[^"]*"\) == 0\)\s*\{\s*out = \w+;\s*return\(true\);\s*\}', "@", body)
        if re.sub(r'\s+', '', skeleton) != "if(false){}" + "@" * len(items) + "else{return(false);}":
            raise TranslateError("option_enum.cpp: convert_string(%s) is not a plain strcasecmp chain" % tname)
        chains[tname] = items
    for m in re.finditer(r'const char \*to_string\((\w+) val\)\s*\{\s*switch \(val\)\s*\{(.*?)default:', src, re.S):
        tname, body = m.group(1), m.group(2)
        if tname not in TYPES:
            continue
        cases = re.findall(r'case (\w+):\s*return "([^"]*)";', body)
        if re.sub(r'\s+', '', re.sub(r'case \w+:\s*return "[^"]*";', "@", body)) != "@" * len(cases):
            raise TranslateError("option_enum.cpp: to_string(%s) is not a plain switch" % tname)
        names[tname] = cases
    for t in TYPES:
        if t not in chains or t not in names:
            raise TranslateError("option_enum.cpp: convert_string/to_string for %s not found" % t)
    return chains, names


def translate(repo, bld):
    """-> {kind: {"enumerators": {C++ short name: value}, "spellings": [(text, value)], "names": [(value, text)]}}"""
    enums = parse_option_h(repo)
    chains, names = parse_generated(bld)
    out = {}
    for tname, kind in TYPES.items():
        e = enums[tname]

        def val_of(cname, tname=tname, e=e):
            if tname == "bool":
                if cname not in ("true", "false"):
                    raise TranslateError("option_enum.cpp: bool chain assigns %r" % cname)
                return 1 if cname == "true" else 0
            pre = e["prefix"] + "_"
            if not cname.startswith(pre) or cname[len(pre):] not in e["values"]:
                raise TranslateError("option_enum.cpp: %s is not an enumerator of %s" % (cname, tname))
            return e["values"][cname[len(pre):]]
        spell = [(txt, val_of(c)) for txt, c in chains[tname]]
        nm = [(val_of(c), txt) for c, txt in names[tname]]
        # cross-check with option.h in the generator's order: enumerator (lower-cased) then its aliases
        expect = []
        for en in e["order"]:
            expect.append((en.lower(), e["values"][en]))
            expect += [(a, e["values"][en]) for a in e["aliases"][en]]
        if expect != spell:
            raise TranslateError("option_enum.cpp chain for %s differs from option.h enum + UNC_OPTVAL_ALIAS: %r vs %r"
                                 % (tname, spell, expect))
        if nm != [(e["values"][en], en.lower()) for en in e["order"]]:
            raise TranslateError("option_enum.cpp to_string(%s) differs from option.h" % tname)
        enumerators = {}
        if tname != "bool":
            for en in e["order"]:
                enumerators[e["prefix"] + "_" + en] = e["values"][en]
        out[kind] = {"enumerators": enumerators, "spellings": spell, "names": nm}
    return out


def emit(tab):
    out = ["/- GENERATED by translators/t_enum.py from the generated src/option_enum.cpp",
           "   (cross-checked against src/option.h) -- do not edit.",
           "   `*Spellings`: the strcasecmp chain of convert_string, in order (first match wins).",
           "   `*Names`: the switch of to_string. -/",
           "import UncModel.ConfigTypes",
           "namespace Unc.Gen",
           "open Unc", ""]
    for kind in ("bool", "iarf", "lineend", "tokenpos"):
        out.append("def %sSpellings : List (List Nat × Nat) := [" % kind)
        out.append(",\n".join("  (%s, %d)" % (lean_bytes(t), v) for t, v in tab[kind]["spellings"]))
        out.append("]\n")
        out.append("def %sNames : List (Nat × List Nat) := [" % kind)
        out.append(",\n".join("  (%d, %s)" % (v, lean_bytes(t)) for v, t in tab[kind]["names"]))
        out.append("]\n")
    out.append("end Unc.Gen\n")
    return "\n".join(out)
