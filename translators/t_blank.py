"""T-blank: src/newlines/blank_line.cpp -> Gen/BlankRules.lean

A *write inventory* of do_blank_lines(): every statement of the function that changes a newline count, in source
order, with its target chunk variable, its kind, the option(s) it reads and the chain of `if` conditions around it;
plus the comparison/assignment shape of blank_line_set() / blank_line_max() and the set of functions the loop calls.

The function body is parsed with a small statement parser (blocks, if/else, while, for, simple statements); a
statement that touches a newline count in a form not listed below makes the translation fail (TranslateError):

    blank_line_set(T, options::X)   blank_line_set(T, opt)     [opt = reference alias `auto &opt = (c ? options::A : options::B)`]
    blank_line_max(T, options::X)
    T->SetNlCount(options::X())     T->SetNlCount(1)
    T->SetNlCount(T->GetNlCount() + 1)     T->SetNlCount(T->GetNlCount() - 1)
"""
import os
import re

from .t_opt import TranslateError


def strip_comments_strings(src):
    out = []
    i, n = 0, len(src)
    while i < n:
        c = src[i]
        if src.startswith("//", i):
            j = src.find("\n", i)
            i = n if j < 0 else j
        elif src.startswith("/*", i):
            j = src.find("*/", i + 2)
            i = n if j < 0 else j + 2
            out.append(" ")
        elif c == '"':
            j = i + 1
            while j < n and src[j] != '"':
                j += 2 if src[j] == "\\" else 1
            out.append('""')
            i = j + 1
        elif c == "'":
            j = i + 1
            while j < n and src[j] != "'":
                j += 2 if src[j] == "\\" else 1
            out.append("'c'")
            i = j + 1
        else:
            out.append(c)
            i += 1
    return "".join(out)


def function_body(src, name):
    m = re.search(r'^void\s+%s\s*\([^)]*\)\s*\{' % re.escape(name), src, re.M)
    if not m:
        raise TranslateError("blank_line.cpp: function %s not found" % name)
    i = m.end() - 1
    depth = 0
    for j in range(i, len(src)):
        if src[j] == "{":
            depth += 1
        elif src[j] == "}":
            depth -= 1
            if depth == 0:
                return src[i:j + 1]
    raise TranslateError("blank_line.cpp: unbalanced braces in %s" % name)


class P:
    """statement parser over comment/string-free text"""

    def __init__(self, s):
        self.s = s
        self.i = 0

    def ws(self):
        while self.i < len(self.s) and self.s[self.i].isspace():
            self.i += 1

    def parens(self):
        self.ws()
        if self.s[self.i] != "(":
            raise TranslateError("blank_line.cpp: expected '(' at offset %d" % self.i)
        depth, j = 0, self.i
        while True:
            if self.s[j] == "(":
                depth += 1
            elif self.s[j] == ")":
                depth -= 1
                if depth == 0:
                    break
            j += 1
        txt = self.s[self.i + 1:j]
        self.i = j + 1
        return norm(txt)

    def stmt(self):
        self.ws()
        s = self.s
        if s[self.i] == "{":
            self.i += 1
            items = []
            while True:
                self.ws()
                if s[self.i] == "}":
                    self.i += 1
                    return ("block", items)
                items.append(self.stmt())
        m = re.compile(r'(if|while|for|switch)\b').match(s, self.i)
        if m:
            kw = m.group(1)
            self.i = m.end()
            cond = self.parens()
            body = self.stmt()
            if kw == "if":
                self.ws()
                els = None
                if re.compile(r'else\b').match(s, self.i):
                    self.i += 4
                    els = self.stmt()
                return ("if", cond, body, els)
            return (kw, cond, body)
        # simple statement up to ';' at paren depth 0
        depth, j = 0, self.i
        while True:
            ch = s[j]
            if ch in "([":
                depth += 1
            elif ch in ")]":
                depth -= 1
            elif ch == ";" and depth == 0:
                break
            elif ch == "{" and depth == 0:      # e.g. an initializer list: not expected here
                raise TranslateError("blank_line.cpp: unexpected '{' in a simple statement near %r" % s[self.i:self.i + 60])
            j += 1
        txt = norm(s[self.i:j])
        self.i = j + 1
        return ("simple", txt)


def norm(t):
    t = re.sub(r'\s+', ' ', t).strip()
    t = re.sub(r'\(\s+', '(', t)
    t = re.sub(r'\s+\)', ')', t)
    return t


W_SET = re.compile(r'^blank_line_set\((\w+), (?:options::(\w+)|(\w+))\)$')
W_MAX = re.compile(r'^blank_line_max\((\w+), options::(\w+)\)$')
W_CNT = re.compile(r'^(\w+)->SetNlCount\((.*)\)$')
ALIAS = re.compile(r'^auto &(\w+) = \((.*) \? options::(\w+) : options::(\w+)\)$')


def collect(tree, guards, aliases, out, calls):
    kind = tree[0]
    if kind == "block":
        for t in tree[1]:
            collect(t, guards, aliases, out, calls)
    elif kind == "if":
        note_calls(tree[1], calls)
        collect(tree[2], guards + [tree[1]], aliases, out, calls)
        if tree[3] is not None:
            collect(tree[3], guards + ["!(" + tree[1] + ")"], aliases, out, calls)
    elif kind in ("while", "for", "switch"):
        note_calls(tree[1], calls)
        collect(tree[2], guards + ["loop(" + tree[1] + ")"], aliases, out, calls)
    else:
        txt = tree[1]
        note_calls(txt, calls)
        m = ALIAS.match(txt)
        if m:
            aliases[m.group(1)] = [m.group(3), m.group(4)]
            return
        m = W_SET.match(txt)
        if m:
            if m.group(2):
                opts = [m.group(2)]
            elif m.group(3) in aliases:
                opts = aliases[m.group(3)]
            else:
                raise TranslateError("do_blank_lines(): blank_line_set with an unknown option expression: %s" % txt)
            out.append({"target": m.group(1), "kind": "set", "opts": opts, "guards": guards})
            return
        m = W_MAX.match(txt)
        if m:
            out.append({"target": m.group(1), "kind": "max", "opts": [m.group(2)], "guards": guards})
            return
        m = W_CNT.match(txt)
        if m:
            t, arg = m.group(1), m.group(2)
            mo = re.match(r'^options::(\w+)\(\)$', arg)
            if mo:
                out.append({"target": t, "kind": "raw", "opts": [mo.group(1)], "guards": guards})
            elif arg == "1":
                out.append({"target": t, "kind": "one", "opts": [], "guards": guards})
            elif arg == "%s->GetNlCount() + 1" % t:
                out.append({"target": t, "kind": "plus1", "opts": [], "guards": guards})
            elif arg == "%s->GetNlCount() - 1" % t:
                out.append({"target": t, "kind": "minus1", "opts": [], "guards": guards})
            else:
                raise TranslateError("do_blank_lines(): newline count written in an unknown form: %s" % txt)
            return
        if "SetNlCount" in txt or "blank_line_" in txt or "m_nlCount" in txt:
            raise TranslateError("do_blank_lines(): statement touches a newline count in an unknown form: %s" % txt)
        if txt == "continue":
            inner = any(g.startswith("loop(") for g in guards)
            out.append({"target": "-", "kind": "continue-inner" if inner else "continue", "opts": [], "guards": guards})


def note_calls(txt, calls):
    for m in re.finditer(r'(->|::|\.)?\s*([A-Za-z_]\w*)\s*\(', txt):
        name = m.group(2)
        if name in ("if", "while", "for", "return", "sizeof"):
            continue
        if txt[:m.start(2)].endswith("options::"):
            continue                      # reading an option
        calls.add(name)


def helper_shape(src, name):
    """blank_line_set / blank_line_max: `if ((optval > 0) && (pc->GetNlCount() CMP optval)) { ...; pc->SetNlCount(optval); MARK_CHANGE(); }`"""
    body = re.sub(r'\s+', '', strip_comments_strings(function_body_any(src, name)))
    body = re.sub(r'LOG_FMT\([^;]*;', '', body)
    body = body.replace("LOG_FUNC_ENTRY();", "")
    m = re.match(r'^\{if\(pc->IsNullChunk\(\)\)\{return;\}const(?:auto|unsigned)optval=opt\(\);'
                 r'if\(\(optval>0\)&&\(pc->GetNlCount\(\)(>|!=|<|>=|<=|==)optval\)\)\{pc->SetNlCount\(optval\);MARK_CHANGE\(\);\}\}$', body)
    if not m:
        raise TranslateError("%s(): body is not the expected guard + SetNlCount(optval): %s" % (name, body[:200]))
    return m.group(1)


def function_body_any(src, name):
    m = re.search(r'^void\s+%s\s*\([^)]*\)\s*\{' % re.escape(name), src, re.M)
    if not m:
        raise TranslateError("blank_line.cpp: function %s not found" % name)
    i = m.end() - 1
    depth = 0
    for j in range(i, len(src)):
        if src[j] == "{":
            depth += 1
        elif src[j] == "}":
            depth -= 1
            if depth == 0:
                return src[i:j + 1]
    raise TranslateError("unbalanced")


def parse(repo):
    raw = open(os.path.join(repo, "src", "newlines", "blank_line.cpp"), encoding="utf-8").read()
    set_cmp = helper_shape(raw, "blank_line_set")
    max_cmp = helper_shape(raw, "blank_line_max")
    src = strip_comments_strings(raw)
    # the hook macro is an observation only
    src = re.sub(r'VERIF_HOOK\([^;]*\);', '', src)
    body = function_body(src, "do_blank_lines")
    tree = P(body).stmt()
    # shape: { LOG_FUNC_ENTRY(); for (...) { ... } }
    top = [t for t in tree[1] if not (t[0] == "simple" and t[1] in ("LOG_FUNC_ENTRY()",))]
    if len(top) != 1 or top[0][0] != "for":
        raise TranslateError("do_blank_lines(): expected a single for loop over the chunk list")
    loop_cond = top[0][1]
    if loop_cond != "Chunk *pc = Chunk::GetHead(); pc->IsNotNullChunk(); pc = pc->GetNext()":
        raise TranslateError("do_blank_lines(): unexpected loop header: %s" % loop_cond)
    out, calls, aliases = [], set(), {}
    collect(top[0][2], [], aliases, out, calls)
    # `line_added` is set exactly where the count is raised by one, and nowhere else
    flat = re.sub(r'LOG_FMT\([^;]*;', '', body)
    flat = re.sub(r'\s+', '', flat)
    if (flat.count("boolline_added=false;") != 1 or flat.count("line_added=") != 2
            or "if(pc==Chunk::GetHead()||next->IsNullChunk()){line_added=true;pc->SetNlCount(pc->GetNlCount()+1);}" not in flat):
        raise TranslateError("do_blank_lines(): `line_added` is not set exactly in the +1 branch")
    return {"writes": out, "calls": sorted(calls), "set_cmp": set_cmp, "max_cmp": max_cmp, "caninc": parse_caninc(repo)}


def parse_caninc(repo):
    """src/newlines/can_increase_nl.cpp: the `return(...)` statements of can_increase_nl() in source order, each with the
    chain of `if` conditions around it"""
    raw = open(os.path.join(repo, "src", "newlines", "can_increase_nl.cpp"), encoding="utf-8").read()
    src = strip_comments_strings(raw)
    m = re.search(r'^bool\s+can_increase_nl\s*\([^)]*\)\s*\{', src, re.M)
    if not m:
        raise TranslateError("can_increase_nl.cpp: function can_increase_nl not found")
    i = m.end() - 1
    depth = 0
    for j in range(i, len(src)):
        if src[j] == "{":
            depth += 1
        elif src[j] == "}":
            depth -= 1
            if depth == 0:
                break
    tree = P(src[i:j + 1]).stmt()
    out = []

    def walk(t, guards):
        if t[0] == "block":
            for x in t[1]:
                walk(x, guards)
        elif t[0] == "if":
            walk(t[2], guards + [t[1]])
            if t[3] is not None:
                walk(t[3], guards + ["!(" + t[1] + ")"])
        elif t[0] in ("while", "for", "switch"):
            walk(t[2], guards + ["loop(" + t[1] + ")"])
        else:
            mm = re.match(r'^return\s*\((.*)\)$', t[1])
            if mm:
                out.append((mm.group(1), guards))
            elif re.search(r'\b(SetNlCount|SetType|SetFlagBits|Delete|CopyAndAdd\w*)\s*\(', t[1]):
                raise TranslateError("can_increase_nl(): the predicate has a side effect: %s" % t[1])
    walk(tree, [])
    if not out:
        raise TranslateError("can_increase_nl(): no return statement found")
    return out


def lstr(s):
    return '"' + s.replace("\\", "\\\\").replace('"', '\\"') + '"'


def emit(tab):
    out = ["/- GENERATED by translators/t_blank.py from src/newlines/blank_line.cpp -- do not edit. -/",
           "namespace Unc.Gen", "",
           "/-- one statement of do_blank_lines() that writes a newline count (or a `continue`): target chunk variable, kind,",
           "    option names read, enclosing `if` conditions (outermost first; `!(c)` = else branch, `loop(c)` = loop body) -/",
           "structure BW where",
           "  target : String",
           "  kind : String",
           "  opts : List String",
           "  guards : List String",
           "deriving Repr, DecidableEq", "",
           "/-- comparison in blank_line_set(): `(optval > 0) && (pc->GetNlCount() CMP optval)` then SetNlCount(optval) -/",
           "def blankSetCmp : String := %s" % lstr(tab["set_cmp"]),
           "/-- comparison in blank_line_max() -/",
           "def blankMaxCmp : String := %s" % lstr(tab["max_cmp"]), "",
           "/-- every function or method called inside the loop of do_blank_lines() -/",
           "def blankCallees : List String := [" + ", ".join(lstr(c) for c in tab["calls"]) + "]", "",
           "def blankWrites : List BW := ["]
    rows = []
    for w in tab["writes"]:
        rows.append("  { target := %s, kind := %s, opts := [%s],\n    guards := [%s] }" % (
            lstr(w["target"]), lstr(w["kind"]), ", ".join(lstr(o) for o in w["opts"]),
            ", ".join(lstr(g) for g in w["guards"])))
    out.append(",\n".join(rows))
    out.append("]\n")
    out.append("/-- the `return(v)` statements of can_increase_nl() in source order with their enclosing conditions -/")
    out.append("def canIncReturns : List (String × List String) := [")
    out.append(",\n".join("  (%s, [%s])" % (lstr(v), ", ".join(lstr(g) for g in gs)) for v, gs in tab["caninc"]))
    out.append("]\n\nend Unc.Gen\n")
    return "\n".join(out)


def regenerate(repo, lean_dir, write_if_changed):
    tab = parse(repo)
    path = os.path.join(lean_dir, "UncModel", "Gen", "BlankRules.lean")
    tab["changed"] = write_if_changed(path, emit(tab))
    return tab


if __name__ == "__main__":
    import json
    import sys
    t = parse(sys.argv[1] if len(sys.argv) > 1 else "/repo")
    print(json.dumps(t, indent=1))
