"""T-gates (part of T-frame): is every token-modifying function reachable only through a test of a mod_ option?

For every function of c04_classification.json classified `mod`, walk the call graph backwards (callers found by name over
src/**/*.cpp): a call site is *gated* when one of the `if` conditions around it reads a `mod_` option (`options::mod_x()`).
A function is *ungated-reachable* when it is the driver `uncrustify_file()` or is called, at a site that is not gated, from
an ungated-reachable function.  Emits Gen/ModGates.lean: per `mod` function the options that gate all its paths, or the
ungated path found.
"""
import json
import os
import re

from .t_blank import P, strip_comments_strings
from .t_mods import clean_lines, functions_in
from .t_opt import TranslateError

ROOTS = {"uncrustify_file", "main", "uncrustify_start"}


def load_functions(repo):
    base = os.path.join(repo, "src")
    funcs = {}      # name -> list of (file, body text)
    for d, _, files in os.walk(base):
        for f in sorted(files):
            if not f.endswith(".cpp") or f.startswith("verif_hooks"):
                continue
            rel = os.path.relpath(os.path.join(d, f), base)
            lines = clean_lines(open(os.path.join(d, f), encoding="utf-8", errors="replace").read())
            for name, a, b in functions_in(lines):
                body = "\n".join(lines[a:b + 1])
                funcs.setdefault(name.split("::")[-1], []).append((rel, body))
    return funcs


def call_sites(funcs, callee):
    """[(caller name, file, guards or None if the caller could not be parsed)]"""
    pat = re.compile(r"(?<![\w:.>])%s\s*\(" % re.escape(callee))
    out = []
    for caller, defs in funcs.items():
        for rel, body in defs:
            if caller == callee:
                continue
            if not pat.search(body):
                continue
            guards = guards_of_calls(body, pat)
            for g in guards:
                out.append((caller, rel, g))
    return out


def guards_of_calls(body, pat):
    src = re.sub(r"^\s*#.*$", "", body, flags=re.M)
    src = re.sub(r"VERIF_HOOK\([^;]*\);", "", src)
    src = re.sub(r"\bdo\s*\{", "while (DO_LOOP) {", src)
    src = re.sub(r"\}\s*while\s*\(([^;{}]*)\);", "}", src)
    src = re.sub(r"\belse\s+if\b", "else if", src)
    try:
        tree = P(src).stmt()
    except (TranslateError, IndexError):
        return [None for _ in pat.finditer(body)]
    res = []

    def ends_in_return(t):
        if t[0] == "simple":
            return t[1].startswith("return")
        if t[0] == "block":
            return bool(t[1]) and ends_in_return(t[1][-1])
        return False

    def negate(c):
        c = c.strip()
        if c.startswith("!(") and c.endswith(")"):
            inner = c[2:-1]
            if inner.count("(") == inner.count(")"):
                return inner
        return "!(" + c + ")"

    def walk(t, guards):
        if t[0] == "block":
            g = list(guards)
            for x in t[1]:
                walk(x, g)
                # `if (c) { ...; return; }` dominates what follows in this block: the rest runs only when c is false
                if x[0] == "if" and x[3] is None and ends_in_return(x[2]):
                    g = g + [negate(x[1])]
        elif t[0] == "if":
            for _ in pat.finditer(t[1]):
                res.append(list(guards))
            walk(t[2], guards + [t[1]])
            if t[3] is not None:
                walk(t[3], guards + ["!(" + t[1] + ")"])
        elif t[0] in ("while", "for", "switch"):
            for _ in pat.finditer(t[1]):
                res.append(list(guards))
            walk(t[2], guards)
        else:
            for _ in pat.finditer(t[1]):
                res.append(list(guards))
    walk(tree, [])
    n = len(list(pat.finditer(body)))
    while len(res) < n:
        res.append(None)
    return res


def internal_gate(funcs, fn):
    """options that guard EVERY chunk-mutation site inside fn itself (or an early `return` on an unset option); None if some
    site is unguarded"""
    from .t_mods import SITE
    opts = set()
    for rel, body in funcs.get(fn, []):
        early = re.search(r"\{\s*(?:LOG_FUNC_ENTRY\(\);\s*)?(?:log_rule_B\([^;]*;\s*)*if\s*\(\s*!?\s*options::(mod_\w+)\(\)\s*(?:==\s*IARF_IGNORE)?\s*\)\s*\{\s*return;", body)
        if early:
            opts.add(early.group(1))
            continue
        gs = guards_of_calls(body, SITE)
        if not gs:
            continue
        # local copies of option values: `x = options::mod_y();`
        alias = {}
        for m in re.finditer(r"\b(\w+)\s*=\s*options::(mod_\w+)\(\)\s*;", body):
            alias.setdefault(m.group(1), set()).add(m.group(2))
        for g in gs:
            if g is None:
                return None
            mo = set(mod_opts(g))
            for gd in g:
                if gd.startswith("!("):
                    continue
                for var, os_ in alias.items():
                    if re.search(r"\b%s\s*(==|&|!=)\s*IARF_(ADD|REMOVE|FORCE)" % re.escape(var), gd):
                        mo |= os_
            if not mo:
                return None
            opts.update(mo)
    return opts or None


def mod_opts(guards):
    return sorted({m for g in guards for m in re.findall(r"options::(mod_\w+)\(\)", g) if not g.startswith("!(")})


def analyse(repo, root):
    cls = json.load(open(os.path.join(root, "c04_classification.json")))["functions"]
    targets = sorted({k.split("|")[1].split("::")[-1] for k, c in cls.items() if c["class"] == "mod"})
    funcs = load_functions(repo)
    memo = {}

    def paths(fn, seen):
        """-> (set of gating options over all gated paths, first ungated path or None)"""
        if fn in ROOTS:
            return set(), [fn]
        if fn in memo:
            return memo[fn]
        ig = internal_gate(funcs, fn) if fn in targets else None
        if ig:
            memo[fn] = (set(ig), None)
            return memo[fn]
        if fn in seen:
            return set(), None
        sites = call_sites(funcs, fn)
        opts, ungated = set(), None
        if not sites:
            memo[fn] = (set(), None)       # never called (dead code / only through a table): not reachable
            return memo[fn]
        for caller, rel, guards in sites:
            if guards is None:
                ungated = ungated or ["<unparsed caller %s in %s>" % (caller, rel), fn]
                continue
            mo = mod_opts(guards)
            if mo:
                opts.update(mo)
                continue
            o2, u2 = paths(caller, seen | {fn})
            opts.update(o2)
            if u2 is not None and ungated is None:
                ungated = u2 + [fn]
        memo[fn] = (opts, ungated)
        return memo[fn]
    out = []
    for t in targets:
        o, u = paths(t, frozenset())
        out.append((t, sorted(o), u))
    return out


def lstr(s):
    return '"' + s.replace("\\", "\\\\").replace('"', '\\"') + '"'


def regenerate(repo, root, lean_dir, write_if_changed):
    rows = analyse(repo, root)
    out = ["/- GENERATED by translators/t_gates.py from src/**/*.cpp and /verif/c04_classification.json -- do not edit. -/", "namespace Unc.Gen", "",
           "/-- per token-modifying function: the mod_ options tested on its gated call paths, and an ungated call path from the driver (if any) -/",
           "def modGates : List (String × List String × List String) := ["]
    out.append(",\n".join("  (%s, [%s], [%s])" % (lstr(t), ", ".join(lstr(x) for x in o), ", ".join(lstr(x) for x in (u or []))) for t, o, u in rows))
    out.append("]\n\nend Unc.Gen\n")
    changed = write_if_changed(os.path.join(lean_dir, "UncModel", "Gen", "ModGates.lean"), "\n".join(out))
    return {"rows": rows, "changed": changed}


if __name__ == "__main__":
    import sys
    for t, o, u in analyse(sys.argv[1] if len(sys.argv) > 1 else "/repo", "/verif"):
        print("%-36s %-90s %s" % (t, ",".join(o)[:90], "UNGATED: " + " -> ".join(u) if u else ""))
