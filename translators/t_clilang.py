"""T-lang: src/language_names.{h,cpp} + src/keywords.h  ->  lean/UncModel/UncModel/Gen/CliLang.lean

Reads
  * `enum class lang_flag_e { NAME = 0x..., }`                      (language_names.h)
  * `static constexpr size_t e_X = (size_t)lang_flag_e::X;`         (keywords.h)
  * `static lang_name_t language_names[] = { { "C", e_LANG_C }, … }`  (language_names.cpp)
  * `struct lang_ext_t language_exts[] = { { ".c", "C" }, … }`        (language_names.cpp)
  * the literal returned at the end of language_flags_from_filename() (the default language)
and the *shape* of the two lookup functions (order of the four passes), which the hand-written
model in Cli.lean follows.  Anything that does not parse raises TranslateError: never guess.
"""
import hashlib
import os
import re


class TranslateError(Exception):
    pass


def _strip_comments(src):
    src = re.sub(r"/\*.*?\*/", " ", src, flags=re.S)
    src = re.sub(r"//[^\n]*", " ", src)
    return src


def _body(src, header_re, what):
    m = re.search(header_re, src)
    if not m:
        raise TranslateError("cannot find " + what)
    i = src.index("{", m.end() - 1) if src[m.end() - 1] != "{" else m.end() - 1
    depth, j = 0, i
    while j < len(src):
        if src[j] == "{":
            depth += 1
        elif src[j] == "}":
            depth -= 1
            if depth == 0:
                return src[i + 1:j]
        j += 1
    raise TranslateError("unbalanced braces in " + what)


def parse(repo):
    p_h = os.path.join(repo, "src", "language_names.h")
    p_c = os.path.join(repo, "src", "language_names.cpp")
    p_k = os.path.join(repo, "src", "keywords.h")
    raw = {}
    for p in (p_h, p_c, p_k):
        try:
            raw[p] = open(p, encoding="utf-8", errors="replace").read()
        except OSError as e:
            raise TranslateError("cannot read %s: %s" % (p, e))
    h, c, k = (_strip_comments(raw[p]) for p in (p_h, p_c, p_k))

    # enum values
    enum = {}
    for item in _body(h, r"enum\s+class\s+lang_flag_e\s*\{", "enum class lang_flag_e").split(","):
        item = item.strip()
        if not item:
            continue
        m = re.fullmatch(r"([A-Z_a-z0-9]+)\s*=\s*(0x[0-9a-fA-F]+|\d+)", item)
        if not m:
            raise TranslateError("lang_flag_e enumerator not understood: %r" % item)
        enum[m.group(1)] = int(m.group(2), 0)
    # e_X aliases
    alias = {}
    for m in re.finditer(r"static\s+constexpr\s+size_t\s+(e_[A-Z_a-z0-9]+)\s*=\s*\(size_t\)\s*lang_flag_e::([A-Z_a-z0-9]+)\s*;", k):
        if m.group(2) not in enum:
            raise TranslateError("alias %s refers to unknown enumerator %s" % m.groups())
        alias[m.group(1)] = enum[m.group(2)]
    if not alias:
        raise TranslateError("no e_LANG_* aliases found in keywords.h")

    def flags(expr):
        val = 0
        for t in expr.split("|"):
            t = t.strip()
            if t not in alias:
                raise TranslateError("language flag expression not understood: %r" % expr)
            val |= alias[t]
        return val

    names = []
    body = _body(c, r"lang_name_t\s+language_names\s*\[\s*\]\s*=\s*\{", "language_names[]")
    rows = re.findall(r"\{([^{}]*)\}", body)
    if not rows or re.sub(r"\{[^{}]*\}|[\s,]", "", body):
        raise TranslateError("language_names[] rows not understood")
    for row in rows:
        m = re.fullmatch(r'\s*"([^"\\]*)"\s*,\s*([^,]+?)\s*', row)
        if not m:
            raise TranslateError("language_names[] row not understood: %r" % row)
        names.append((m.group(1), flags(m.group(2))))

    exts = []
    body = _body(c, r"lang_ext_t\s+language_exts\s*\[\s*\]\s*=\s*\{", "language_exts[]")
    rows = re.findall(r"\{([^{}]*)\}", body)
    if not rows or re.sub(r"\{[^{}]*\}|[\s,]", "", body):
        raise TranslateError("language_exts[] rows not understood")
    for row in rows:
        m = re.fullmatch(r'\s*"([^"\\]*)"\s*,\s*"([^"\\]*)"\s*', row)
        if not m:
            raise TranslateError("language_exts[] row not understood: %r" % row)
        exts.append((m.group(1), m.group(2)))

    # shape of language_flags_from_name: strcasecmp over language_names, first match, else 0
    fn = _body(c, r"size_t\s+language_flags_from_name\s*\([^)]*\)\s*\{", "language_flags_from_name()")
    if not re.search(r"for\s*\(\s*const\s+auto\s*&\s*language\s*:\s*language_names\s*\)", fn) \
            or "strcasecmp(name, language.name) == 0" not in fn or not re.search(r"return\s*\(\s*0\s*\)\s*;", fn):
        raise TranslateError("language_flags_from_name() no longer has the shape the model follows")
    # shape of language_flags_from_filename: g_ext_map(cs), language_exts(cs), g_ext_map(ci), language_exts(ci), default
    ff = _body(c, r"size_t\s+language_flags_from_filename\s*\([^)]*\)\s*\{", "language_flags_from_filename()")
    order = re.findall(r"for\s*\(\s*(?:const\s+)?auto\s*&\s*\w+\s*:\s*(\w+)\s*\)\s*\{\s*if\s*\(\s*ends_with\s*\(\s*filename\s*,\s*[\w.()]+\s*(,\s*false)?\s*\)\s*\)", ff)
    want = [("g_ext_map", ""), ("language_exts", ""), ("g_ext_map", ", false"), ("language_exts", ", false")]
    if [(a, re.sub(r"\s+", " ", b).replace(" ,", ",").strip() and ", false") for a, b in order] != \
            [(a, b and ", false") for a, b in want]:
        raise TranslateError("language_flags_from_filename() no longer has the four-pass shape the model follows: %r" % (order,))
    m = re.search(r"return\s*\(\s*(e_[A-Z_a-z0-9]+)\s*\)\s*;\s*$", ff.strip())
    if not m or m.group(1) not in alias:
        raise TranslateError("default language of language_flags_from_filename() not understood")
    default = alias[m.group(1)]
    # ends_with: suffix compare, strcmp / strcasecmp
    ew = _body(c, r"bool\s+ends_with\s*\([^)]*\)\s*\{", "ends_with()")
    if "len2 <= len1" not in ew or "strcmp(&filename[len1 - len2], tag) == 0" not in ew \
            or "strcasecmp(&filename[len1 - len2], tag) == 0" not in ew:
        raise TranslateError("ends_with() no longer has the shape the model follows")
    digest = hashlib.sha1(("\n".join(raw[p] for p in (p_h, p_c, p_k))).encode("utf-8", "replace")).hexdigest()[:12]
    return {"names": names, "exts": exts, "default": default, "enum": enum, "digest": digest}


def _lit(s):
    for ch in s:
        if ord(ch) < 32 or ord(ch) > 126 or ch in '"\\':
            raise TranslateError("unexpected character in table string %r" % s)
    return '"%s".toList' % s


def emit(t):
    out = ["/-! GENERATED by translators/t_lang.py from src/language_names.{h,cpp}, src/keywords.h — do not edit.",
           "    Regenerated on every run of the C10/C12 checks. -/",
           "namespace Unc",
           "",
           "/-- `language_names[]`: (name, flags) in table order -/",
           "def langNames : List (List Char × Nat) := ["]
    out.append(",\n".join("  (%s, 0x%x)" % (_lit(n), v) for n, v in t["names"]))
    out += ["]", "",
            "/-- `language_exts[]`: (extension, language name) in table order -/",
            "def langExts : List (List Char × List Char) := ["]
    out.append(",\n".join("  (%s, %s)" % (_lit(e), _lit(n)) for e, n in t["exts"]))
    out += ["]", "",
            "/-- the value returned by `language_flags_from_filename` when nothing matches -/",
            "def langDefault : Nat := 0x%x" % t["default"],
            "", "end Unc", ""]
    return "\n".join(out)


def generate(repo, lean_dir, write_if_changed):
    t = parse(repo)
    path = os.path.join(lean_dir, "UncModel", "Gen", "CliLang.lean")
    changed = write_if_changed(path, emit(t))
    return t, path, changed


if __name__ == "__main__":
    import sys
    print(emit(parse(sys.argv[1] if len(sys.argv) > 1 else "/repo")))
