"""T-opt: src/options.h  ->  lean/UncModel/UncModel/Gen/Options.lean

The header is in the documented machine-readable format that scripts/make_options.py parses
(`//BEGIN group`, comment lines, `extern TYPE\\nNAME; // = DEFAULT`).  Everything that does not
fit the format raises TranslateError: the caller turns that into a failed obligation (never a guess).
"""
import os
import re

RE_NAME = re.compile(r'^[a-z][a-z0-9_]*$')
RE_GROUP = re.compile(r'//BEGIN')
RE_OPTION = re.compile(r'extern (Bounded)?Option<([^>]+)>$')
RE_DEFAULT = re.compile(r' *// *= *(.*)')

KINDS = {"bool": "bool", "iarf_e": "iarf", "line_end_e": "lineend", "token_pos_e": "tokenpos",
         "signed": "num", "unsigned": "unum", "string": "string"}


class TranslateError(Exception):
    pass


def _c_string_literal(tok):
    """value of a plain C string literal (no concatenation); only the escapes \\\\ \\" \\n \\t"""
    if len(tok) < 2 or tok[0] != '"' or tok[-1] != '"':
        raise TranslateError("not a string literal: %r" % tok)
    out, i, body = [], 0, tok[1:-1]
    while i < len(body):
        c = body[i]
        if c == '\\':
            i += 1
            if i >= len(body) or body[i] not in '\\"nt':
                raise TranslateError("unsupported escape in %r" % tok)
            out.append({'\\': '\\', '"': '"', 'n': '\n', 't': '\t'}[body[i]])
        elif c == '"':
            raise TranslateError("string concatenation not supported: %r" % tok)
        else:
            out.append(c)
        i += 1
    return "".join(out)


def _macros(repo):
    """#define NAME "text" of src/uncrustify_types.h (string defaults are given by macro name)"""
    out = {}
    for ln in open(os.path.join(repo, "src", "uncrustify_types.h"), encoding="utf-8"):
        m = re.match(r'#define\s+(\w+)\s+(".*")\s*$', ln)
        if m:
            out[m.group(1)] = _c_string_literal(m.group(2))
    return out


def _log_levels(repo):
    """enumerators of log_sev_t in src/log_levels.h (one numeric default is given as LWARN)"""
    out = {}
    for ln in open(os.path.join(repo, "src", "log_levels.h"), encoding="utf-8"):
        m = re.match(r'\s*(L[A-Z0-9_]+)\s*=\s*(\d+)\s*,', ln)
        if m:
            out[m.group(1)] = int(m.group(2))
    return out


def parse(repo, enums):
    """-> (groups, options); options = list of dicts name kind bounded lo hi dflt group"""
    path = os.path.join(repo, "src", "options.h")
    macros, loglv = _macros(repo), _log_levels(repo)
    groups, opts, seen = [], [], set()
    with open(path, encoding="utf-8") as f:
        lines = f.read().split("\n")
    i = 0
    n_extern = sum(1 for ln in lines if ln.startswith("extern "))
    while i < len(lines):
        line = lines[i].strip()
        i += 1
        if RE_GROUP.match(line):
            groups.append(line[8:])
            continue
        m = RE_OPTION.match(line)
        if not m:
            if line.startswith("extern"):
                raise TranslateError("options.h:%d: unparsed extern declaration %r" % (i, line))
            continue
        if not groups:
            raise TranslateError("options.h:%d: option before the first //BEGIN group" % i)
        if i >= len(lines) or ";" not in lines[i]:
            raise TranslateError("options.h:%d: declaration is not followed by 'NAME;'" % i)
        name, rest = lines[i].split(";", 1)
        i += 1
        name = name.strip()
        if not RE_NAME.match(name) or len(name) > 60:
            raise TranslateError("options.h:%d: %r is not a valid option name" % (i, name))
        if name in seen:
            raise TranslateError("options.h:%d: option %r declared twice" % (i, name))
        seen.add(name)
        dm = RE_DEFAULT.match(rest.strip())
        if rest.strip() and not rest.strip().startswith("//"):
            raise TranslateError("options.h:%d: text after ';' is not a comment: %r" % (i, rest))
        # like make_options.py: a comment that is not '// = VALUE' is no default
        dtext = dm.group(1).strip() if dm else None
        targs = [a.strip() for a in m.group(2).split(",")]
        bounded = m.group(1) is not None
        if targs[0] not in KINDS:
            raise TranslateError("options.h:%d: unknown option type %r" % (i, targs[0]))
        kind = KINDS[targs[0]]
        lo = hi = 0
        if bounded:
            if kind not in ("num", "unum") or len(targs) != 3:
                raise TranslateError("options.h:%d: BoundedOption needs <signed|unsigned, MIN, MAX>: %r" % (i, line))
            try:
                lo, hi = int(targs[1]), int(targs[2])
            except ValueError:
                raise TranslateError("options.h:%d: non-literal bound in %r" % (i, line))
        elif len(targs) != 1:
            raise TranslateError("options.h:%d: unexpected template arguments %r" % (i, line))
        # default value
        if kind == "bool":
            if dtext not in (None, "true", "false"):
                raise TranslateError("options.h:%d: bool default %r" % (i, dtext))
            dflt = ("b", dtext == "true")
        elif kind in ("iarf", "lineend", "tokenpos"):
            table = enums[kind]["enumerators"]        # C++ short name -> value
            if dtext is None:
                dflt = ("e", 0)
            elif dtext in table:
                dflt = ("e", table[dtext])
            else:
                raise TranslateError("options.h:%d: unknown enumerator default %r for %s" % (i, dtext, kind))
        elif kind in ("num", "unum"):
            if dtext is None:
                v = 0
            elif re.match(r'^-?\d+$', dtext):
                v = int(dtext)
            elif re.match(r"^'(\\.|[^\\'])'$", dtext):
                body = dtext[1:-1]
                if body[0] == "\\" and body[1] not in "\\'":
                    raise TranslateError("options.h:%d: unsupported char escape %r" % (i, dtext))
                v = ord(body[-1])
            elif dtext in loglv:
                v = loglv[dtext]
            else:
                raise TranslateError("options.h:%d: numeric default %r is neither literal nor a log level" % (i, dtext))
            if bounded and not (lo <= v <= hi):
                raise TranslateError("options.h:%d: default %d outside [%d,%d]" % (i, v, lo, hi))
            dflt = ("n", v)
        else:
            if dtext is None:
                s = ""
            elif dtext in macros:
                s = macros[dtext]
            elif dtext.startswith('"'):
                s = _c_string_literal(dtext)
            else:
                raise TranslateError("options.h:%d: string default %r is neither literal nor a known macro" % (i, dtext))
            dflt = ("s", s)
        opts.append({"name": name, "kind": kind, "bounded": bounded, "lo": lo, "hi": hi, "dflt": dflt,
                     "group": len(groups) - 1})
    if len(opts) != n_extern:
        raise TranslateError("options.h: %d 'extern' lines but %d options parsed" % (n_extern, len(opts)))
    if not opts:
        raise TranslateError("options.h: no options found")
    return groups, opts


def name_code(s):
    a = 1
    for c in s.encode("utf-8"):
        a = a * 256 + c
    return a


def name_hash_mod(names):
    codes = [name_code(n) for n in names]
    if len(set(codes)) != len(codes):
        raise TranslateError("duplicate names in %r..." % names[:3])
    p = 100003
    while p < 100003 + 2000000:
        if len({c % p for c in codes}) == len(codes):
            return p
        p += 2
    raise TranslateError("no small perfect-hash modulus found for the names %r..." % names[:3])


def lean_bytes(s):
    """Lean term for the byte list of an ASCII python string"""
    # numeric literals, not `B "…"`: the kernel reduces `String.toList` very slowly (~0.1 s per name),
    # which would make every `decide` over the table take minutes
    return "[" + ",".join(str(b) for b in s.encode("utf-8")) + "]"


def lean_val(d):
    t, v = d
    if t == "b":
        return ".b " + ("true" if v else "false")
    if t == "e":
        return ".e %d" % v
    if t == "n":
        return ".n (%d)" % v
    return ".s (%s)" % lean_bytes(v)


def emit(groups, opts, chunk=60):
    out = ["/- GENERATED by translators/t_opt.py from src/options.h -- do not edit.",
           "   One entry per `extern TYPE\\nNAME; // = DEFAULT` declaration, in registration order. -/",
           "import UncModel.ConfigTypes",
           "namespace Unc.Gen",
           "open Unc", ""]
    out.append("def optionGroups : List (List Nat) := [")
    out.append(",\n".join("  " + lean_bytes(g) for g in groups))
    out.append("]\n")
    nchunks = 0
    for c in range(0, len(opts), chunk):
        out.append("def optionTable%d : List OptDecl := [" % nchunks)
        rows = []
        for o in opts[c:c + chunk]:
            rows.append("  -- %s\n  ⟨%s, .%s, %s, (%d), (%d), %s, %d⟩" % (
                o["name"], lean_bytes(o["name"]), o["kind"], "true" if o["bounded"] else "false",
                o["lo"], o["hi"], lean_val(o["dflt"]), o["group"]))
        out.append(",\n".join(rows))
        out.append("]\n")
        nchunks += 1
    out.append("/-- the option registry: `option_groups` flattened, i.e. the order of `save_option_file` -/")
    out.append("def optionTable : List OptDecl :=\n  " + " ++ ".join("optionTable%d" % k for k in range(nchunks)))
    out.append("")
    out.append("def optionCount : Nat := %d" % len(opts))
    out.append("")
    out.append("/-- a modulus under which the base-256 codes of all option names are pairwise distinct (found by search;")
    out.append("    only a hint: `Lemmas/ConfigTableLemmas.lean` re-checks distinctness with it in linear time) -/")
    out.append("def nameHashMod : Nat := %d" % name_hash_mod([o["name"] for o in opts]))
    out.append("\nend Unc.Gen\n")
    return "\n".join(out)
