"""T-mods (part of T-frame): which code can change the token stream, and what gates it.

1. *Mutation-site inventory*: every place in src/**/*.cpp that deletes a chunk, adds a chunk, assigns/extends a chunk's
   text or moves a chunk (`Chunk::Delete(`, `CopyAndAdd*(`, `Str() =`, `Str().append/…`, `->Swap(`, `MoveAfter(`,
   `SwapLines(`), attributed to its enclosing function -> (file, function, number of sites).
2. *Classification* (committed, /verif/c04_classification.json): for every (file, function) of the inventory, why the
   site cannot change the non-comment token stream under default mod_ options: tokenizer / re-chunking (text-preserving),
   newline-only, comment-only, debugging tool, or `mod` with the options that gate it.
3. *Driver gates*: the calls of the classified `mod` passes in uncrustify_file() with the option tests around them.
4. defaults of every `mod_*` option (options.h).

Emitted as Gen/Mods.lean; the obligations over it are in Props/C04.lean.
"""
import json
import os
import re

from .t_blank import P, strip_comments_strings
from .t_opt import TranslateError

SITE = re.compile(r"Chunk::Delete\(|CopyAndAddBefore\(|CopyAndAddAfter\(|CopyAndAdd\(|Str\(\)\s*=[^=]|Str\(\)\s*\+=|"
                  r"Str\(\)\.(?:append|set|insert|erase|resize|pop_back|pop_front|clear)\(|(?:\.|->)Swap\(|MoveAfter\(|SwapLines\(")
SKIP_FILES = {"verif_hooks.cpp"}


def functions_in(lines):
    """[(name, first line idx, last line idx)] of the function definitions (uncrustify's own style: body braces in column 0)"""
    out = []
    i, n = 0, len(lines)
    while i < n:
        if lines[i].rstrip() == "{":
            # signature: preceding lines back to a blank line, a `}` line, a `;`-terminated line or a preprocessor line
            j = i - 1
            sig = []
            while j >= 0:
                t = lines[j].strip()
                if not t or t.startswith(("}", "#", "//", "/*", "*")) or t.endswith(";"):
                    break
                sig.append(t)
                j -= 1
            sig = " ".join(reversed(sig))
            m = re.search(r"((?:\w+::)*~?\w+|operator\s*\S+)\s*\(", sig)
            # end: next line that is exactly `}` (possibly followed by a comment)
            k = i + 1
            while k < n and not re.match(r"^\}\s*(//.*)?$", lines[k]):
                k += 1
            if m and not sig.startswith(("struct", "class", "enum", "namespace", "union", "typedef")) and "=" not in sig.split("(")[0]:
                out.append((m.group(1), i, k))
            i = k
        i += 1
    return out


def clean_lines(src):
    """source lines with comments, string and character literals blanked (line structure kept)"""
    out, cur = [], []
    i, n = 0, len(src)
    while i < n:
        c = src[i]
        if c == "\n":
            out.append("".join(cur))
            cur = []
            i += 1
        elif src.startswith("//", i):
            while i < n and src[i] != "\n":
                i += 1
        elif src.startswith("/*", i):
            j = src.find("*/", i + 2)
            j = n if j < 0 else j + 2
            for ch in src[i:j]:
                if ch == "\n":
                    out.append("".join(cur))
                    cur = []
            cur.append(" ")
            i = j
        elif c in "\"'":
            j = i + 1
            while j < n and src[j] != c and src[j] != "\n":
                j += 2 if src[j] == "\\" else 1
            cur.append(c + c)
            i = j + 1
        else:
            cur.append(c)
            i += 1
    out.append("".join(cur))
    return out


def inventory(repo):
    res = {}
    base = os.path.join(repo, "src")
    for d, _, files in os.walk(base):
        for f in sorted(files):
            if not f.endswith(".cpp") or f in SKIP_FILES:
                continue
            rel = os.path.relpath(os.path.join(d, f), base)
            raw = open(os.path.join(d, f), encoding="utf-8", errors="replace").read()
            clean = clean_lines(raw)
            funcs = functions_in(clean)
            for idx, s in enumerate(clean):
                hits = len(SITE.findall(s))
                if not hits:
                    continue
                fn = "<file scope>"
                for name, a, b in funcs:
                    if a <= idx <= b:
                        fn = name
                        break
                res[(rel, fn)] = res.get((rel, fn), 0) + hits
    return res


ATOM = re.compile(r"options::(\w+)\(\)\s*(!=|==|>|<|>=|<=)?\s*([A-Za-z_0-9:]+)?")


def driver_calls(repo, names):
    """calls of the given functions in uncrustify_file(): (callee, [guard strings])"""
    raw = open(os.path.join(repo, "src", "uncrustify.cpp"), encoding="utf-8").read()
    src = strip_comments_strings(raw)
    src = re.sub(r"VERIF_HOOK\([^;]*\);", "", src)
    m = re.search(r"^void uncrustify_file\([^)]*\)\s*\{", src, re.M)
    if not m:
        raise TranslateError("uncrustify.cpp: uncrustify_file() not found")
    i = m.end() - 1
    depth = 0
    for j in range(i, len(src)):
        if src[j] == "{":
            depth += 1
        elif src[j] == "}":
            depth -= 1
            if depth == 0:
                break
    body = src[i:j + 1]
    # `do { ... } while (c);` is not known to the statement parser: rewrite as while loops
    body = re.sub(r"^\s*#.*$", "", body, flags=re.M)
    body = re.sub(r"\bdo\s*\{", "while (DO_LOOP) {", body)
    body = re.sub(r"\}\s*while\s*\(([^;]*)\);", "}", body)
    tree = P(body).stmt()
    out = []

    def walk(t, guards):
        if t[0] == "block":
            for x in t[1]:
                walk(x, guards)
        elif t[0] == "if":
            walk(t[2], guards + [t[1]])
            if t[3] is not None:
                walk(t[3], guards + ["!(" + t[1] + ")"])
        elif t[0] in ("while", "for", "switch"):
            walk(t[2], guards)
        else:
            mm = re.match(r"^(\w+)\(", t[1])
            if mm and mm.group(1) in names:
                out.append((mm.group(1), [g for g in guards if "options::" in g or "language_is_set" in g]))
    walk(tree, [])
    return out


def atoms_of(guard):
    res = []
    for m in ATOM.finditer(guard):
        name, op, rhs = m.group(1), m.group(2), m.group(3)
        pre = guard[:m.start()].rstrip()
        neg = pre.endswith("!")
        if op is None:
            shape = "truthy"
        elif op == "!=" and rhs in ("IARF_IGNORE", "TP_IGNORE", "0"):
            shape = "nonzero"
        elif op == ">" and rhs == "0":
            shape = "nonzero"
        else:
            shape = "other:%s%s" % (op, rhs)
        res.append((name, shape, neg))
    return res


def mod_defaults(repo):
    src = open(os.path.join(repo, "src", "options.h"), encoding="utf-8").read()
    out = []
    for m in re.finditer(r"extern\s+((?:Bounded)?Option<[^\n]*>)\s*\n(mod_[a-z_0-9]+);(?:\s*//\s*=\s*(.*))?", src):
        ty, name, d = m.group(1), m.group(2), (m.group(3) or "").strip()
        if "bool" in ty:
            v = {"": 0, "false": 0, "true": 1}.get(d)
        elif "iarf" in ty:
            v = {"": 0, "IARF_IGNORE": 0, "IARF_ADD": 1, "IARF_REMOVE": 2, "IARF_FORCE": 3}.get(d)
        else:
            v = int(d) if re.match(r"^\d+$", d) else (0 if d == "" else None)
        if v is None:
            raise TranslateError("options.h: default of %s not understood: %r" % (name, d))
        out.append((name, v))
    if len(out) < 40:
        raise TranslateError("options.h: only %d mod_ options found" % len(out))
    return out


def lstr(s):
    return '"' + s.replace("\\", "\\\\").replace('"', '\\"') + '"'


def regenerate(repo, root, lean_dir, write_if_changed):
    inv = inventory(repo)
    cls = json.load(open(os.path.join(root, "c04_classification.json")))["functions"]
    mod_funcs = set()
    for key, c in cls.items():
        if c["class"] == "mod":
            mod_funcs.add(key.split("::", 1)[1] if False else key.split("|")[1])
    driver_mod = set(json.load(open(os.path.join(root, "c04_classification.json")))["driver_passes"])
    calls = driver_calls(repo, driver_mod)
    defaults = mod_defaults(repo)
    out = ["/- GENERATED by translators/t_mods.py from src/**/*.cpp, src/options.h and /verif/c04_classification.json -- do not edit. -/",
           "namespace Unc.Gen", "",
           "/-- (file, function, number of chunk add/delete/text/move sites) -/",
           "def mutSites : List (String × String × Nat) := ["]
    out.append(",\n".join("  (%s, %s, %d)" % (lstr(f), lstr(fn), n) for (f, fn), n in sorted(inv.items())))
    out.append("]\n")
    out.append("/-- committed classification: (file, function, class, gate options, allowed number of sites) -/")
    out.append("def mutClass : List (String × String × String × List String × Nat) := [")
    rows = []
    for key, c in sorted(cls.items()):
        f, fn = key.split("|")
        rows.append("  (%s, %s, %s, [%s], %d)" % (lstr(f), lstr(fn), lstr(c["class"]), ", ".join(lstr(o) for o in c.get("gates", [])), c["sites"]))
    out.append(",\n".join(rows))
    out.append("]\n")
    out.append("/-- calls of the token-modifying passes in uncrustify_file(): callee, option atoms (name, shape, negated) of the `if`s around it -/")
    out.append("def driverCalls : List (String × List (String × String × Bool)) := [")
    rows = []
    for callee, guards in calls:
        ats = [a for g in guards for a in atoms_of(g)]
        rows.append("  (%s, [%s])" % (lstr(callee), ", ".join("(%s, %s, %s)" % (lstr(a), lstr(s), "true" if ng else "false") for a, s, ng in ats)))
    out.append(",\n".join(rows))
    out.append("]\n")
    out.append("/-- default of every mod_ option (bool: 0/1, iarf: 0 = ignore, number) -/")
    out.append("def modDefaults : List (String × Nat) := [" + ", ".join("(%s, %d)" % (lstr(n), v) for n, v in defaults) + "]\n")
    out.append("end Unc.Gen\n")
    changed = write_if_changed(os.path.join(lean_dir, "UncModel", "Gen", "Mods.lean"), "\n".join(out))
    return {"inventory": inv, "calls": calls, "defaults": defaults, "changed": changed}


if __name__ == "__main__":
    import sys
    inv = inventory(sys.argv[1] if len(sys.argv) > 1 else "/repo")
    for (f, fn), n in sorted(inv.items()):
        print("%-45s %-45s %d" % (f, fn, n))
    print(len(inv), "functions,", sum(inv.values()), "sites")
