"""T-space: src/space.cpp do_space() -> lean/UncModel/UncModel/Gen/SpaceRules.lean

For EVERY `log_rule(...)` statement inside do_space(), in source order, one site record:
  idx, line, logged name (verbatim string; for `log_rule(text)` the snprintf format that fills `text`),
  ln      classification of the logged string (re-checked in Lean by string equality):
            opt id | optOrAdd id ("<option> | ADD") | textConst pre V post (the text contains exactly one of
            IGNORE/ADD/REMOVE/FORCE as a word) | text
  guards  conjunction of the enclosing `if` conditions, as atoms  options::x() ==/!= IARF_V  (anything else: opaque)
  ret     the value returned on the paths that leave do_space() after this log_rule, as a small AST obtained by
          executing the straight-line continuation symbolically:
            opt x | const V | bor a b (orAdd e = bor e (const ADD)) | ite cond a b | other "<verbatim>"
  min     the `min_sp = ...` assignment in force at the return (optNum x | optNumMinus x k | lit n | other "<verbatim>")
          or none (the default 1)
  shadowed  another log_rule() is executed on every path before the return (the hook then never shows this name)

The translation is syntactic and NEVER guesses: whatever does not fit the known statement/expression shapes is recorded as
`other "<verbatim>"` AND reported in `problems`, which makes the check fail naming the site.
"""
import os
import re

from . import t_iarf
from .t_iarf import TranslateError

IARF_CONSTS = {"IARF_IGNORE": "ignore", "IARF_ADD": "add", "IARF_REMOVE": "remove", "IARF_FORCE": "force"}
WORD_CONSTS = {"IGNORE": "ignore", "ADD": "add", "REMOVE": "remove", "FORCE": "force"}

_TOK = re.compile(r"""
    (?P<ws>\s+)
  | (?P<lc>//[^\n]*)
  | (?P<bc>/\*.*?\*/)
  | (?P<str>"(?:\\.|[^"\\\n])*")
  | (?P<chr>'(?:\\.|[^'\\\n])+')
  | (?P<id>[A-Za-z_][A-Za-z_0-9]*)
  | (?P<num>\d[\dA-Za-z_.]*)
  | (?P<op>::|->|==|!=|&&|\|\||<=|>=|\+\+|--|\+=|-=|\|=|&=|<<|>>|[{}()\[\];,?:|&!<>=+\-*/%.~^\#])
""", re.X | re.S)


def tokenize(src, line0=1):
    toks, pos, line = [], 0, line0
    n = len(src)
    while pos < n:
        m = _TOK.match(src, pos)
        if not m:
            raise TranslateError("space.cpp:%d: cannot tokenize %r" % (line, src[pos:pos + 20]))
        kind = m.lastgroup
        txt = m.group(0)
        if kind not in ("ws", "lc", "bc"):
            toks.append((txt, line, kind))
        line += txt.count("\n")
        pos = m.end()
    return toks


# ---------------------------------------------------------------------------
# statement tree
# ---------------------------------------------------------------------------

class P:
    def __init__(self, toks):
        self.t, self.i = toks, 0

    def peek(self, k=0):
        return self.t[self.i + k][0] if self.i + k < len(self.t) else None

    def line(self):
        return self.t[min(self.i, len(self.t) - 1)][1]

    def take(self, want=None):
        if self.i >= len(self.t):
            raise TranslateError("space.cpp: unexpected end of do_space()")
        tok = self.t[self.i]
        if want is not None and tok[0] != want:
            raise TranslateError("space.cpp:%d: expected %r, found %r" % (tok[1], want, tok[0]))
        self.i += 1
        return tok

    def parens(self):
        """consume a balanced (...) and return the tokens inside"""
        self.take("(")
        depth, out = 1, []
        while True:
            tok = self.take()
            if tok[0] == "(":
                depth += 1
            elif tok[0] == ")":
                depth -= 1
                if depth == 0:
                    return out
            out.append(tok)

    def stmt(self):
        w, ln = self.peek(), self.line()
        if w == "{":
            self.take()
            body = []
            while self.peek() != "}":
                body.append(self.stmt())
            self.take("}")
            return ("block", body, ln)
        if w == "if":
            self.take()
            cond = self.parens()
            th = self.stmt()
            el = None
            if self.peek() == "else":
                self.take()
                el = self.stmt()
            return ("if", cond, th, el, ln)
        if w == "switch":
            self.take()
            cond = self.parens()
            body = self.stmt()
            return ("switch", cond, body, ln)
        if w in ("for", "while"):
            self.take()
            head = self.parens()
            body = self.stmt()
            return ("loop", head, body, ln)
        if w == "do":
            self.take()
            body = self.stmt()
            self.take("while")
            head = self.parens()
            self.take(";")
            return ("loop", head, body, ln)
        if w in ("goto", "try"):
            raise TranslateError("space.cpp:%d: statement kind %r is not handled by T-space" % (ln, w))
        if w in ("case", "default"):
            out = []
            while self.peek() != ":":
                out.append(self.take())
            self.take(":")
            return ("label", out, ln)
        out, depth = [], 0
        while True:
            tok = self.take()
            if tok[0] in ("(", "{", "["):
                depth += 1
            elif tok[0] in (")", "}", "]"):
                depth -= 1
            elif tok[0] == ";" and depth == 0:
                return ("simple", out, ln)
            out.append(tok)


def stmts_of(st):
    return st[1] if st[0] == "block" else [st]


def text_of(toks):
    return " ".join(t[0] for t in toks)


# ---------------------------------------------------------------------------
# expressions
# ---------------------------------------------------------------------------

class Unparsed(Exception):
    pass


def split_top(toks, seps):
    """split at top-level occurrences of any token in seps; returns (parts, seps found)"""
    parts, cur, found, depth = [], [], [], 0
    for t in toks:
        if t[0] in ("(", "{", "["):
            depth += 1
        elif t[0] in (")", "}", "]"):
            depth -= 1
        if depth == 0 and t[0] in seps:
            parts.append(cur)
            cur = []
            found.append(t[0])
        else:
            cur.append(t)
    parts.append(cur)
    return parts, found


def strip_parens(toks):
    while len(toks) >= 2 and toks[0][0] == "(" and toks[-1][0] == ")":
        depth = 0
        for k, t in enumerate(toks):
            if t[0] == "(":
                depth += 1
            elif t[0] == ")":
                depth -= 1
                if depth == 0 and k != len(toks) - 1:
                    return toks
        toks = toks[1:-1]
    return toks


def parse_expr(toks, env):
    """IARF-valued expression -> AST; raises Unparsed"""
    toks = strip_parens(toks)
    if not toks:
        raise Unparsed("empty expression")
    # ternary
    parts, found = split_top(toks, ("?",))
    if found:
        cond = parts[0]
        rest = toks[len(cond) + 1:]
        alts, f2 = split_top(rest, (":",))
        if len(alts) != 2:
            raise Unparsed("ternary with nested ?: " + text_of(toks))
        return ("ite", parse_cond(cond, env), parse_expr(alts[0], env), parse_expr(alts[1], env))
    parts, found = split_top(toks, ("|",))
    if found:
        e = parse_expr(parts[0], env)
        for p in parts[1:]:
            e = ("bor", e, parse_expr(p, env))
        return e
    words = [t[0] for t in toks]
    if len(words) == 5 and words[0] == "options" and words[1] == "::" and words[3] == "(" and words[4] == ")":
        return ("opt", words[2])
    if len(words) == 1 and words[0] in IARF_CONSTS:
        return ("const", IARF_CONSTS[words[0]])
    if len(words) == 1 and toks[0][2] == "id":
        if words[0] in env:
            return env[words[0]]
        raise Unparsed("unknown identifier " + words[0])
    if len(words) >= 3 and words[0] in ("iarf_flags_t", "iarf_e") and words[1] in ("{", "(") and words[-1] in ("}", ")"):
        return parse_expr(toks[2:-1], env)
    raise Unparsed(text_of(toks))


def parse_atom(toks, env):
    toks = strip_parens(toks)
    neg = False
    while toks and toks[0][0] == "!":
        neg = not neg
        toks = strip_parens(toks[1:])
    parts, found = split_top(toks, ("==", "!="))
    if len(found) == 1:
        a, b = strip_parens(parts[0]), strip_parens(parts[1])
        if len(a) == 1 and a[0][0] in IARF_CONSTS:
            a, b = b, a
        if len(b) == 1 and b[0][0] in IARF_CONSTS:
            try:
                e = parse_expr(a, env)
            except Unparsed:
                e = None
            if e is not None and e[0] == "opt":
                eq = (found[0] == "==") != neg
                return ("eq" if eq else "ne", e[1], IARF_CONSTS[b[0][0]])
    return ("opaque", ("!" if neg else "") + text_of(toks))


def parse_cond(toks, env):
    """conjunction of atoms; a top-level || makes the whole condition opaque"""
    toks = strip_parens(toks)
    parts, found = split_top(toks, ("||",))
    if found:
        return [("opaque", text_of(toks))]
    parts, found = split_top(toks, ("&&",))
    out = []
    for p in parts:
        p = strip_parens(p)
        sub, f2 = split_top(p, ("&&", "||"))
        if "&&" in f2 and "||" not in f2:
            out += parse_cond(p, env)
        else:
            out.append(parse_atom(p, env))
    return out


def negate(cond):
    if len(cond) == 1 and cond[0][0] in ("eq", "ne"):
        a = cond[0]
        return [("ne" if a[0] == "eq" else "eq", a[1], a[2])]
    return [("opaque", "!(" + " && ".join(atom_text(a) for a in cond) + ")")]


def atom_text(a):
    if a[0] == "opaque":
        return a[1]
    return "options::%s() %s IARF_%s" % (a[1], "==" if a[0] == "eq" else "!=", a[2].upper())


# ---------------------------------------------------------------------------
# the walk over do_space()
# ---------------------------------------------------------------------------

def is_call(st, fname):
    return st[0] == "simple" and len(st[1]) >= 3 and st[1][0][0] == fname and st[1][1][0] == "("


IARF_TYPES = ("iarf_e", "iarf_flags_t")


def assignment(st):
    """(var, rhs tokens, declared type or None) for `T v = e` / `v = e` simple statements, else None"""
    if st[0] != "simple":
        return None
    toks = st[1]
    parts, found = split_top(toks, ("=",))
    if len(found) != 1:
        return None
    lhs, rhs = parts
    if len(lhs) == 1 and lhs[0][2] == "id":
        return (lhs[0][0], rhs, None)
    if len(lhs) == 2 and lhs[0][2] == "id" and lhs[1][2] == "id":
        return (lhs[1][0], rhs, lhs[0][0])
    return None


class Walker:
    def __init__(self):
        self.sites = []
        self.problems = []
        self.by_stmt = {}

    def problem(self, line, msg):
        self.problems.append("space.cpp:%d: %s" % (line, msg))

    # -- effect of one statement on the symbolic environment (statements BEFORE a site) -----
    def pre_effect(self, st, env, strs):
        a = assignment(st)
        if a and a[0] == "min_sp":
            env["$min"] = parse_min(a[1])
            return
        if a:
            var, rhs, typ = a
            if typ in IARF_TYPES or (typ is None and var in env) or (typ == "auto"):
                try:
                    env[var] = parse_expr(rhs, env)
                except Unparsed as e:
                    if typ == "auto" and var not in env:
                        # `auto x = <non-IARF expression>`: not a spacing value; stays unknown
                        env.pop(var, None)
                    else:
                        env[var] = ("other", text_of(rhs))
            return
        if is_call(st, "snprintf"):
            toks = st[1]
            if toks[2][2] == "id":
                fmts = [t[0] for t in toks if t[2] == "str"]
                if len(fmts) == 1:
                    strs[toks[2][0]] = fmts[0]
            return
        if st[0] == "simple":
            # any other statement that names a tracked variable may change it: forget what we know
            for t in st[1]:
                if t[2] == "id" and t[0] in env:
                    env[t[0]] = ("other", "modified by: " + text_of(st[1]))

    def assigned_vars(self, st, acc):
        if st[0] == "simple":
            a = assignment(st)
            if a:
                acc.add(a[0])
            else:
                for t in st[1]:
                    if t[2] == "id":
                        acc.add(t[0])
        elif st[0] == "block":
            for s in st[1]:
                self.assigned_vars(s, acc)
        elif st[0] == "if":
            self.assigned_vars(st[2], acc)
            if st[3]:
                self.assigned_vars(st[3], acc)
        elif st[0] in ("switch", "loop"):
            self.assigned_vars(st[2], acc)

    def walk(self, stmts, env, strs, guards, konts):
        """visit the statements of one block; returns (env after, always_returns)"""
        env, strs = dict(env), dict(strs)
        env0 = dict(env)
        skip_to_label = False
        for k, st in enumerate(stmts):
            kind = st[0]
            if skip_to_label:
                # code after a return is reachable only through a case/default label
                if kind != "label":
                    if kind != "simple" or is_call(st, "log_rule"):
                        self.problem(st[-1], "unreachable statement after return is not skipped silently")
                    continue
                skip_to_label = False
                env = dict(env0)
            if is_call(st, "log_rule"):
                self.site(st, stmts[k + 1:], env, strs, guards, konts)
            elif kind == "simple":
                if st[1] and st[1][0][0] == "return":
                    if any(s2[0] == "label" for s2 in stmts[k + 1:]):
                        skip_to_label = True
                        continue
                    return env, True
                self.pre_effect(st, env, strs)
            elif kind == "block":
                env2, ret = self.walk(st[1], env, strs, guards, [("seq", stmts[k + 1:])] + konts)
                if ret:
                    return env, True
                for v in env:
                    env[v] = env2.get(v, env[v])
            elif kind == "if":
                cond = parse_cond(st[1], env)
                rest = [("seq", stmts[k + 1:])] + konts
                e1, r1 = self.walk(stmts_of(st[2]), env, strs, guards + cond, rest)
                if st[3] is not None:
                    e2, r2 = self.walk(stmts_of(st[3]), env, strs, guards + negate(cond), rest)
                else:
                    e2, r2 = env, False
                if r1 and r2:
                    return env, True
                new = {}
                for v in env:
                    a = e1.get(v, env[v]) if not r1 else None
                    b = e2.get(v, env[v]) if not r2 else None
                    if a is None:
                        new[v] = b
                    elif b is None:
                        new[v] = a
                    elif a == b:
                        new[v] = a
                    elif v == "$min":
                        new[v] = ("other", "min_sp differs between the branches of the if at line %d" % st[4])
                    else:
                        new[v] = ("ite", cond, a, b)
                env = new
            elif kind in ("switch", "loop"):
                self.walk(stmts_of(st[2]), env, strs, guards + [("opaque", kind + " (" + text_of(st[1]) + ")")],
                          [("barrier", kind, st[-1])] + konts if kind == "loop" else [("seq", stmts[k + 1:])] + konts)
                acc = set()
                self.assigned_vars(st[2], acc)
                for v in acc:
                    if v in env:
                        env[v] = ("other", "assigned inside a %s at line %d" % (kind, st[-1]))
            elif kind == "label":
                pass
        return env, skip_to_label

    # -- a site and its continuation --------------------------------------------------------
    def site(self, st, rest, env, strs, guards, konts):
        line = st[2]
        args = st[1][2:-1]
        dyn = False
        if len(args) == 1 and args[0][2] == "str":
            logged = unquote(args[0][0])
        elif len(args) == 1 and args[0][2] == "id" and args[0][0] in strs:
            logged = unquote(strs[args[0][0]])
            dyn = True
        else:
            logged = text_of(args)
            self.problem(line, "log_rule argument is neither a string literal nor a buffer filled by snprintf: " + logged)
        rec = {"idx": len(self.sites), "line": line, "logged": logged, "dyn": dyn,
               "guards": [g for g in guards if g[0] != "opaque"], "ret": None, "min": None, "shadowed": False}
        self.sites.append(rec)
        self.by_stmt[id(st)] = rec["idx"]
        mn0 = env.get("$min")
        if mn0 == ("lit", 1):
            mn0 = None          # `min_sp = 1;` at the top of do_space(): the default
        try:
            ret, mn, finals = self.exec([("seq", rest)] + konts, dict(env), mn0, rec["idx"], line)
        except Unparsed as e:
            ret, mn, finals = ("other", str(e)), None, {rec["idx"]}
            self.problem(line, "site %d log_rule(\"%s\"): continuation not understood: %s" % (rec["idx"], logged, e))
        rec["ret"], rec["min"] = ret, mn
        rec["shadowed"] = rec["idx"] not in finals
        for w in others_in(ret):
            self.problem(line, "site %d log_rule(\"%s\"): return expression of unknown shape: %s" % (rec["idx"], logged, w))
        if mn is not None and mn[0] == "other":
            self.problem(line, "site %d log_rule(\"%s\"): min_sp assignment of unknown shape: %s" % (rec["idx"], logged, mn[1]))

    def exec(self, konts, env, mn, lastlog, line):
        """symbolic execution of the continuation; returns (expr, min, set of final log sites)"""
        konts = list(konts)
        while konts:
            k = konts.pop(0)
            if k[0] == "barrier":
                raise Unparsed("control reaches the end of a %s body (line %d) without return" % (k[1], k[2]))
            stmts = k[1]
            for j, st in enumerate(stmts):
                kind = st[0]
                if kind == "label":
                    continue
                if kind == "block":
                    return self.exec([("seq", st[1]), ("seq", stmts[j + 1:])] + konts, env, mn, lastlog, line)
                if kind == "if":
                    cond = parse_cond(st[1], env)
                    tail = [("seq", stmts[j + 1:])] + konts
                    a, ma, fa = self.exec([("seq", stmts_of(st[2]))] + tail, dict(env), mn, lastlog, line)
                    b, mb, fb = self.exec(([("seq", stmts_of(st[3]))] if st[3] is not None else []) + tail,
                                          dict(env), mn, lastlog, line)
                    if ma != mb:
                        raise Unparsed("min_sp differs between the branches of the if at line %d" % st[4])
                    return ("ite", cond, a, b), ma, fa | fb
                if kind != "simple":
                    raise Unparsed("%s statement at line %d after log_rule" % (kind, st[-1]))
                toks = st[1]
                if toks and toks[0][0] == "return":
                    return parse_expr(toks[1:], env), mn, {lastlog}
                if is_call(st, "log_rule"):
                    lastlog = ("line", st[2])
                    continue
                a = assignment(st)
                if a and a[0] == "min_sp":
                    mn = parse_min(a[1])
                    continue
                if a and (a[2] in IARF_TYPES or (a[2] is None and a[0] in env)):
                    env[a[0]] = parse_expr(a[1], env)
                    continue
                raise Unparsed("statement after log_rule not understood (line %d): %s" % (st[2], text_of(toks)))
        raise Unparsed("control reaches the end of do_space() without return")


def parse_min(toks):
    toks = strip_parens(toks)
    words = [t[0] for t in toks]
    if len(words) == 5 and words[0] == "options" and words[1] == "::" and words[3] == "(" and words[4] == ")":
        return ("optNum", words[2])
    if len(words) == 1 and re.match(r"^\d+$", words[0]):
        return ("lit", int(words[0]))
    if (len(words) == 7 and words[0] == "options" and words[1] == "::" and words[3] == "(" and words[4] == ")"
            and words[5] == "-" and re.match(r"^\d+$", words[6])):
        return ("optNumMinus", words[2], int(words[6]))
    return ("other", text_of(toks))


def others_in(e):
    if e[0] == "other":
        return [e[1]]
    if e[0] == "bor":
        return others_in(e[1]) + others_in(e[2])
    if e[0] == "ite":
        return others_in(e[2]) + others_in(e[3])
    return []


def unquote(s):
    body = s[1:-1]
    if "\\" in body:
        body = body.replace('\\"', '"').replace("\\\\", "\\")
    return body


def opts_in_expr(e, acc):
    if e[0] == "opt":
        acc.append(e[1])
    elif e[0] == "bor":
        opts_in_expr(e[1], acc)
        opts_in_expr(e[2], acc)
    elif e[0] == "ite":
        for a in e[1]:
            if a[0] != "opaque":
                acc.append(a[1])
        opts_in_expr(e[2], acc)
        opts_in_expr(e[3], acc)


# ---------------------------------------------------------------------------
# classification of the logged string
# ---------------------------------------------------------------------------

_WORD = re.compile(r"(?<![A-Za-z])(IGNORE|ADD|REMOVE|FORCE)(?![A-Za-z])")


def classify(logged, kinds):
    if logged in kinds:
        return ("opt", logged)
    m = re.match(r"^([a-z][a-z0-9_]*) \| ADD$", logged)
    if m and m.group(1) in kinds:
        return ("optOrAdd", m.group(1))
    found = _WORD.findall(logged)
    if found and len(set(found)) == 1:
        m = _WORD.search(logged)
        return ("textConst", logged[:m.start()], WORD_CONSTS[m.group(1)], logged[m.end():])
    return ("text",)


# ---------------------------------------------------------------------------
# entry
# ---------------------------------------------------------------------------

def parse_do_space(repo):
    path = os.path.join(repo, "src", "space.cpp")
    src = open(path, encoding="utf-8", errors="replace").read()
    toks = tokenize(src)
    start = None
    for i in range(len(toks) - 2):
        if toks[i][0] == "iarf_e" and toks[i + 1][0] == "do_space" and toks[i + 2][0] == "(":
            # skip a forward declaration
            p = P(toks)
            p.i = i + 2
            p.parens()
            if p.peek() == "{":
                start = p.i
                break
    if start is None:
        raise TranslateError("space.cpp: definition of do_space() not found")
    p = P(toks)
    p.i = start
    body = p.stmt()
    w = Walker()
    env, ret = w.walk(body[1], {}, {}, [], [])
    if not ret:
        w.problem(body[2], "do_space() does not end in a return statement")
    total = sum(1 for t in range(start, p.i) if toks[t][0] == "log_rule" and toks[t + 1][0] == "(")
    if total != len(w.sites):
        w.problem(body[2], "do_space() contains %d log_rule( calls but %d were visited as statements" % (total, len(w.sites)))
    return w.sites, w.problems, (toks[start][1], toks[p.i - 1][1])


def qt_overrides(repo):
    """options temporarily set to REMOVE inside Qt SIGNAL/SLOT (src/options_for_QT.cpp for_qt_options[])"""
    path = os.path.join(repo, "src", "options_for_QT.cpp")
    src = open(path, encoding="utf-8", errors="replace").read()
    m = re.search(r"temporary_iarf_option\s+for_qt_options\s*\[\s*\]\s*=\s*\{(.*?)\n\};", src, re.S)
    if not m:
        raise TranslateError("options_for_QT.cpp: for_qt_options[] not found")
    body = re.sub(r"//[^\n]*", "", m.group(1))
    names = []
    for item in re.findall(r"\{([^{}]*)\}", body):
        mm = re.match(r"^\s*&options::([a-z0-9_]+)\s*(,\s*(IARF_[A-Z]+)\s*)?$", item)
        if not mm:
            raise TranslateError("options_for_QT.cpp: entry of unknown shape: {%s}" % item.strip())
        names.append((mm.group(1), IARF_CONSTS[mm.group(3)] if mm.group(3) else "remove"))
    if not names:
        raise TranslateError("options_for_QT.cpp: for_qt_options[] is empty")
    return names


def lstr(s):
    return '"' + s.replace("\\", "\\\\").replace('"', '\\"').replace("\n", "\\n") + '"'


def build(repo):
    """returns dict(text=<Lean source>, sites=[...], problems=[...], opts=[(name, kind)], qt=[...])"""
    allopts = t_iarf.options(repo)
    kinds = dict(allopts)
    sites, problems, span = parse_do_space(repo)
    qt = qt_overrides(repo)
    used = set()
    for s in sites:
        s["ln"] = classify(s["logged"], kinds)
        if s["ln"][0] in ("opt", "optOrAdd"):
            used.add(s["ln"][1])
        acc = []
        opts_in_expr(s["ret"], acc)
        for g in s["guards"]:
            if g[0] != "opaque":
                acc.append(g[1])
        if s["min"] is not None and s["min"][0] in ("optNum", "optNumMinus"):
            acc.append(s["min"][1])
        for n in acc:
            if n not in kinds:
                problems.append("space.cpp:%d: site %d uses options::%s() which options.h does not declare" % (s["line"], s["idx"], n))
            used.add(n)
    for n, _ in qt:
        used.add(n)
    table = [(n, k) for n, k in allopts if n in used]
    ids = {n: i for i, (n, k) in enumerate(table)}
    for n in used:
        if n not in ids:
            # undeclared option: give it an id past the table so that Lean sees kind `unknown`
            ids[n] = len(table) + sorted(u for u in used if u not in kinds).index(n)

    def kind_l(k):
        return {"iarf": ".iarf", "bool": ".bool", "unsigned": ".num", "signed": ".num"}.get(k, ".otherKind")

    def atom_l(a):
        if a[0] == "opaque":
            return ".opaque " + lstr(a[1])
        return ".%s %d .%s" % ("optEq" if a[0] == "eq" else "optNe", ids[a[1]], a[2])

    def cond_l(c):
        return "[" + ", ".join(atom_l(a) for a in c) + "]"

    def expr_l(e):
        if e[0] == "opt":
            return "(.opt %d)" % ids[e[1]]
        if e[0] == "const":
            return "(.const .%s)" % e[1]
        if e[0] == "bor":
            if e[2] == ("const", "add"):
                return "(.orAdd %s)" % expr_l(e[1])
            return "(.bor %s %s)" % (expr_l(e[1]), expr_l(e[2]))
        if e[0] == "ite":
            return "(.ite %s %s %s)" % (cond_l(e[1]), expr_l(e[2]), expr_l(e[3]))
        return "(.other %s)" % lstr(e[1])

    def ln_l(l):
        if l[0] == "opt":
            return ".opt %d" % ids[l[1]]
        if l[0] == "optOrAdd":
            return ".optOrAdd %d" % ids[l[1]]
        if l[0] == "textConst":
            return ".textConst %s .%s %s" % (lstr(l[1]), l[2], lstr(l[3]))
        return ".text"

    def min_l(m):
        if m is None:
            return "none"
        if m[0] == "optNum":
            return "some (.optNum %d)" % ids[m[1]]
        if m[0] == "optNumMinus":
            return "some (.optNumMinus %d %d)" % (ids[m[1]], m[2])
        if m[0] == "lit":
            return "some (.lit %d)" % m[1]
        return "some (.other %s)" % lstr(m[1])

    out = []
    out.append("/- GENERATED by translators/t_space.py from src/space.cpp (do_space, lines %d-%d), src/options.h and" % span)
    out.append("   src/options_for_QT.cpp.  Do not edit: regenerated on every run of ./check C19. -/")
    out.append("import UncModel.SpaceApply")
    out.append("namespace Unc")
    out.append("")
    out.append("/-- the options named in do_space() (logged or read), in options.h order: (name, kind); index = id -/")
    out.append("def spOpts : List (String × OptKind) := [")
    out.append(",\n".join("  (%s, %s)" % (lstr(n), kind_l(k)) for n, k in table))
    out.append("]")
    out.append("")
    out.append("namespace SpId")
    for n, k in table:
        out.append("def %s : Nat := %d" % (n, ids[n]))
    out.append("end SpId")
    out.append("")
    out.append("/-- options forced to a fixed value inside Qt SIGNAL/SLOT macros (options_for_QT.cpp) -/")
    out.append("def spQtOverride : List (Nat × IARF) := [" + ", ".join("(%d, .%s)" % (ids[n], v) for n, v in qt) + "]")
    out.append("")
    out.append("def spaceRules : List SpSite := [")
    rows = []
    for s in sites:
        rows.append("  { idx := %d, line := %d, logged := %s, dyn := %s, ln := %s,\n    guards := %s,\n    ret := %s,\n    min := %s, shadowed := %s }"
                    % (s["idx"], s["line"], lstr(s["logged"]), "true" if s["dyn"] else "false", ln_l(s["ln"]),
                       cond_l(s["guards"]), expr_l(s["ret"])[1:-1] if expr_l(s["ret"]).startswith("(") else expr_l(s["ret"]),
                       min_l(s["min"]), "true" if s["shadowed"] else "false"))
    out.append(",\n".join(rows))
    out.append("]")
    out.append("")
    out.append("end Unc")
    return {"text": "\n".join(out) + "\n", "sites": sites, "problems": problems, "opts": table, "ids": ids, "qt": qt,
            "allopts": allopts}


if __name__ == "__main__":
    import sys
    r = build(sys.argv[1] if len(sys.argv) > 1 else os.environ.get("VERIF_REPO", "/repo"))
    from collections import Counter
    print(len(r["sites"]), "sites;", len(r["opts"]), "options;", Counter(s["ln"][0] for s in r["sites"]))
    for p in r["problems"]:
        print("PROBLEM", p)
    if len(sys.argv) > 2:
        open(sys.argv[2], "w").write(r["text"])
