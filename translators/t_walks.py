"""T-walks: every loop of src/**/*.cpp that walks along the chunk list, and what stops it at the end of the list.

The chunk list ends in the null chunk (`Chunk::NullChunkPtr`): `GetNext*()` / `GetPrev*()` of the null chunk is the null chunk again, it has
type CT_NONE, no text, no flags, and every POSITIVE test (`Is(CT_X)`, `IsNewline()`, `IsComment()`, `IsString(..)`, ...) is false on it
while every NEGATIVE one (`IsNot(CT_X)`, `!x->Is...()`) is true.  A loop `while (cond(v)) { ...; v = v->GetNext(); }` therefore ends on
every input iff its condition is false on the null chunk or its body leaves the loop when it meets it (Lean: C06_walk_terminates /
C06_walk_diverges over the model `ChunkWalk`).

For every `while` / `do..while` / `for` loop whose condition or body advances a variable with `v = v->Get(Next|Prev)...(` (or
`v = v->GetXxx()` in the `for` increment) the translator records

    guarded     a top-level `&&` conjunct of the condition is a positive test on v (or `v->IsNotNullChunk()`)
    body-exit   the body holds `if (... v->IsNullChunk() ...) { break | return | continue-free exit }` or tests `v->IsNullChunk()` before the step
    negative    neither: only negative tests / unrelated conditions  -> must be listed in /verif/c06_walk_exceptions.json with a reason
    counted     a `for` with an integer bound next to the walk (bounded by the counter)

Emitted as Gen/ChunkWalks.lean; obligation C06_chunk_walks_guarded in Props/C06.lean.
"""
import json
import os
import re

from .t_blank import strip_comments_strings
from .t_mods import functions_in
from .t_opt import TranslateError

STEP = r"(\w+)\s*=\s*\1->Get(?:Next|Prev)\w*\("
POS_METHODS = r"(?:Is|IsNewline|IsComment|IsString|IsNotNullChunk|IsSemicolon|IsBraceOpen|IsBraceClose|IsParenOpen|IsParenClose|IsVBrace|IsPreproc|IsStar|IsAddress|IsMsRef|IsPointerOperator|IsWord|IsTypeDefinition|IsSingleLineComment|IsCppComment|IsCComment|IsNullable|IsOCForinOpenParen|IsCppInheritanceAccessSpecifier|IsClassStructOrUnion|IsClassOrStruct|IsClassEnumStructOrUnion|IsEnum|IsColon|IsDoxygenComment|IsSquareBracket|IsBraceOpen|IsKeyword|IsPointerOrReference|IsPointerReferenceOrQualifier|IsEmptyText|TestFlags)"


def match_paren(s, i):
    depth = 0
    for j in range(i, len(s)):
        if s[j] == "(":
            depth += 1
        elif s[j] == ")":
            depth -= 1
            if depth == 0:
                return j
    raise TranslateError("unbalanced parenthesis")


def match_brace(s, i):
    depth = 0
    for j in range(i, len(s)):
        if s[j] == "{":
            depth += 1
        elif s[j] == "}":
            depth -= 1
            if depth == 0:
                return j
    raise TranslateError("unbalanced brace")


def split_and(cond):
    out, depth, cur = [], 0, []
    i = 0
    while i < len(cond):
        c = cond[i]
        if c in "([":
            depth += 1
        elif c in ")]":
            depth -= 1
        if depth == 0 and cond.startswith("&&", i):
            out.append("".join(cur).strip())
            cur = []
            i += 2
            continue
        cur.append(c)
        i += 1
    out.append("".join(cur).strip())
    return out


def has_top_level_or(c):
    depth = 0
    for i, ch in enumerate(c):
        if ch in "([":
            depth += 1
        elif ch in ")]":
            depth -= 1
        elif depth == 0 and c.startswith("||", i):
            return True
    return False


def strip_outer(c):
    c = c.strip()
    while c.startswith("(") and match_paren(c, 0) == len(c) - 1:
        c = c[1:-1].strip()
    return c


def positive_on(conj, v):
    """the conjunct is false when v is the null chunk"""
    c = strip_outer(conj)
    if has_top_level_or(c):
        # every alternative must be positive on v
        parts, depth, cur = [], 0, []
        i = 0
        while i < len(c):
            ch = c[i]
            if ch in "([":
                depth += 1
            elif ch in ")]":
                depth -= 1
            if depth == 0 and c.startswith("||", i):
                parts.append("".join(cur))
                cur = []
                i += 2
                continue
            cur.append(ch)
            i += 1
        parts.append("".join(cur))
        return all(positive_on(p, v) for p in parts)
    if "&&" in c and not has_top_level_or(c):
        return any(positive_on(p, v) for p in split_and(c))
    ve = re.escape(v)
    # the object the test is made on: v itself, the chunk next to v, or the value just assigned from v's neighbour
    obj = r"(?:%s|%s->Get(?:Next|Prev)\w*\([^()]*\)|\(\s*\w+\s*=\s*%s->Get(?:Next|Prev)\w*\([^()]*\)\s*\))" % (ve, ve, ve)
    m = re.match(r"^%s->(Is\w*|TestFlags)\((.*)\)$" % obj, c)
    if m and not c.startswith("!"):
        meth, arg = m.group(1), m.group(2).strip()
        if meth in ("IsNot", "IsNullChunk", "IsEmptyText", "IsNotString"):
            return False
        if meth == "Is" and arg == "CT_NONE":
            return False
        return True
    return False


def loops_of(body, fname, func, out):
    """find while / do-while / for loops in the (clean) function text"""
    for m in re.finditer(r"\b(while|for)\s*\(", body):
        kw = m.group(1)
        i = m.end() - 1
        try:
            j = match_paren(body, i)
        except TranslateError:
            continue
        head = body[i + 1:j]
        rest = body[j + 1:].lstrip()
        is_do_tail = False
        if kw == "while" and rest.startswith(";"):
            # `} while (cond);` of a do loop: the body is the block before
            k = body.rfind("}", 0, m.start())
            if k < 0 or body[k + 1:m.start()].strip():
                continue
            # find the matching `{`
            depth = 0
            b0 = None
            for x in range(k, -1, -1):
                if body[x] == "}":
                    depth += 1
                elif body[x] == "{":
                    depth -= 1
                    if depth == 0:
                        b0 = x
                        break
            if b0 is None:
                continue
            lbody = body[b0:k + 1]
            is_do_tail = True
            cond = head
        else:
            off = j + 1 + (len(body[j + 1:]) - len(rest))
            if rest.startswith("{"):
                try:
                    e = match_brace(body, off)
                except TranslateError:
                    continue
                lbody = body[off:e + 1]
            else:
                e = body.find(";", off)
                lbody = body[off:e + 1]
            if kw == "for":
                parts = head.split(";")
                if len(parts) != 3:
                    continue            # range-for
                cond = parts[1]
                lbody = lbody + " " + parts[2] + ";"
                init = parts[0]
            else:
                cond = head
        # steps of loops nested in the body belong to those loops: blank their headers and bodies out
        inner = lbody
        for mm in list(re.finditer(r"\b(while|for)\s*\(", lbody)):
            if mm.start() == 0 and not is_do_tail:
                continue
            try:
                jj = match_paren(lbody, mm.end() - 1)
            except TranslateError:
                continue
            rr = lbody[jj + 1:].lstrip()
            st = jj + 1 + (len(lbody[jj + 1:]) - len(rr))
            if rr.startswith("{"):
                try:
                    ee = match_brace(lbody, st)
                except TranslateError:
                    continue
            elif rr.startswith(";"):
                # `} while (...);` of an inner do loop: blank the block in front as well
                kk = lbody.rfind("}", 0, mm.start())
                ee = jj + 1
                if kk >= 0 and not lbody[kk + 1:mm.start()].strip():
                    depth, b0 = 0, None
                    for x in range(kk, -1, -1):
                        if lbody[x] == "}":
                            depth += 1
                        elif lbody[x] == "{":
                            depth -= 1
                            if depth == 0:
                                b0 = x
                                break
                    if b0 is not None and b0 > 0:
                        inner = inner[:b0] + " " * (ee + 1 - b0) + inner[ee + 1:]
                        continue
            else:
                ee = lbody.find(";", st)
            if ee > mm.start():
                inner = inner[:mm.start()] + " " * (ee + 1 - mm.start()) + inner[ee + 1:]
        text = cond + " " + inner
        steps = set(re.findall(STEP, text))
        # indirect step: `Chunk *next = v->GetNext(); ...; v = next;`
        for a, b in re.findall(r"(\w+)\s*=\s*(\w+)->Get(?:Next|Prev)\w*\(", text):
            if a != b and re.search(r"\b%s\s*=\s*%s\s*;" % (re.escape(b), re.escape(a)), text):
                steps.add(b)
        # `for (...; ...; v = v->GetNext())` is found by STEP as well; `(v = v->GetNext())` inside the condition too
        if not steps:
            continue
        line = body.count("\n", 0, m.start())
        for v in sorted(steps):
            if not re.search(r"\b%s\b" % re.escape(v), cond):
                cls = "cond-free"       # the condition does not mention the walk variable: something else bounds the loop
            else:
                conj = split_and(strip_outer(cond))
                if any(positive_on(c, v) for c in conj):
                    cls = "guarded"
                elif re.search(r"if\s*\([^;{}]*\b%s->IsNullChunk\(\)[^;{}]*\)\s*\{?\s*(?:[^;{}]*;\s*)?(?:break|return|goto)\b" % re.escape(v), inner):
                    cls = "body-exit"
                elif kw == "for" and re.search(r"\b\w+\s*(<|<=|>|>=)\s*\w+", cond) and not re.search(r"->", cond.split("&&")[0]):
                    cls = "counted"
                elif any(re.match(r"^\(?\s*(?:\(\s*%s\s*=\s*[^)]*\)\s*\)|%s)\s*!=\s*(?!nullptr)\w+(?:->\w+\(\))?\s*\)?$" % (re.escape(v), re.escape(v)), strip_outer(c)) for c in conj):
                    cls = "until-chunk"        # `v != end`: ends when `end` lies ahead of v (or is the null chunk)
                else:
                    cls = "negative"
            out.append({"file": fname, "function": func, "var": v, "kind": "do-while" if is_do_tail else kw, "cond": re.sub(r"\s+", " ", cond).strip()[:160],
                        "class": cls, "line": line})


def inventory(repo):
    out = []
    base = os.path.join(repo, "src")
    for d, _, files in sorted(os.walk(base)):
        for f in sorted(files):
            if not f.endswith(".cpp") or f == "verif_hooks.cpp":
                continue
            raw = open(os.path.join(d, f), encoding="utf-8", errors="replace").read()
            clean = strip_comments_strings(raw)
            lines = clean.split("\n")
            rel = os.path.relpath(os.path.join(d, f), base)
            for name, a, b in functions_in(lines):
                loops_of("\n".join(lines[a:b + 1]), rel, name, out)
    if len(out) < 100:
        raise TranslateError("only %d chunk walks found in src/" % len(out))
    return out


def lstr(s):
    return '"' + s.replace("\\", "\\\\").replace('"', '\\"') + '"'


def regenerate(repo, root, lean_dir, write_if_changed):
    inv = inventory(repo)
    exc = json.load(open(os.path.join(root, "c06_walk_exceptions.json")))["walks"]
    out = ["/- GENERATED by translators/t_walks.py from src/**/*.cpp and /verif/c06_walk_exceptions.json -- do not edit. -/",
           "namespace Unc.Gen", "",
           "/-- every loop that advances a chunk variable: (file, function, variable, condition, class) -/",
           "def chunkWalks : List (String × String × String × String × String) := ["]
    out.append(",\n".join("  (%s, %s, %s, %s, %s)" % (lstr(w["file"]), lstr(w["function"]), lstr(w["var"]), lstr(w["cond"]), lstr(w["class"])) for w in inv))
    out.append("]\n")
    out.append("/-- committed exceptions for walks whose condition is not false on the null chunk: (file, function, variable, condition, reason) -/")
    out.append("def chunkWalkExceptions : List (String × String × String × String × String) := [")
    out.append(",\n".join("  (%s, %s, %s, %s, %s)" % (lstr(e["file"]), lstr(e["function"]), lstr(e["var"]), lstr(e["cond"]), lstr(e["reason"])) for e in exc))
    out.append("]\n")
    out.append("end Unc.Gen\n")
    changed = write_if_changed(os.path.join(lean_dir, "UncModel", "Gen", "ChunkWalks.lean"), "\n".join(out))
    return {"walks": inv, "changed": changed}


if __name__ == "__main__":
    import collections
    import sys
    inv = inventory(sys.argv[1] if len(sys.argv) > 1 else "/repo")
    print(collections.Counter(w["class"] for w in inv))
    for w in inv:
        if w["class"] in ("negative", "cond-free"):
            print("%-10s %-34s %-40s %-6s %s" % (w["class"], w["file"], w["function"], w["var"], w["cond"][:110]))
